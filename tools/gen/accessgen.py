"""ACCESS suite (C07): boundary-heavy cases for the index / extent arithmetic of the accessors.

Case:   ACCESS \t id \t store \t term \t queries        (see harness/src/access.rs)
Result: one `query=answer` per query.

Streams (first letter of the id):
  t  text / bytes / symbol lists of length 0..5 and a few long ones (multi-byte characters, byte extremes, symbol lists
     with number parts on Basic): every item getter on the index lattice {MIN, MIN+1, -2, -1, 0, 1, len-1, len, len+1,
     MAX-1, MAX} + float indexes, every iterator constructor on pairs of that lattice (ascending, descending, beyond the
     end, negative), the getters of the *other* kinds on the same value (type errors)
  l  lists of length 0..5 and long ones, items of every kind including nested lists and keyed pairs
  c  concatenations: flat, nested on either side, with lists, slices and slices of concatenations inside (the arm of
     SimpleGarnishData's collect_concatenation_indices that computes `end - start + 1`), extents from the lattice, ranges
     inside the slices from the lattice (descending, reversed by one, extreme)
  r  runtime level: `access` / `apply` with an integer key on pairs, lists, text, bytes, symbol lists, ranges whose ends
     come from the lattice (range length overflow), slices of every kind with ranges from the lattice (start + index
     overflow), slices of slices, concatenations; `access` with a symbol key on slices of lists (clamping of the end)
`python3 accessgen.py [--tier quick|thorough] [--seed N]` runs implementation and model and reports disagreements.
"""
import os, random, struct, sys

sys.path.insert(0, os.path.dirname(os.path.dirname(os.path.abspath(__file__))))

MIN, MAX = -2147483648, 2147483647
STORES = ['simple', 'basic']


def f64(x):
    return 'f%016x' % struct.unpack('<Q', struct.pack('<d', x))[0]


FLOATS = [f64(1.5), f64(-0.5), f64(0.0), f64(2.0), f64(1e30), f64(1.7976931348623157e308), f64(float('inf')), f64(float('-inf')), 'f7ff8000000000000', f64(-1e30), f64(4294967296.0), f64(18446744073709551616.0)]


def lattice(n):
    xs = [MIN, MIN + 1, -2, -1, 0, 1, n - 1, n, n + 1, MAX - 1, MAX]
    out = []
    for x in xs:
        if MIN <= x <= MAX and x not in out:
            out.append(x)
    return out


def nums(n, rnd, floats=2):
    return ['i%d' % x for x in lattice(n)] + rnd.sample(FLOATS, floats)


# ---------------------------------------------------------------- terms

CHARS = [104, 233, 8364, 128512, 0, 97, 1114111, 55295]      # h é € 😀 NUL a U+10FFFF U+D7FF
BYTES = [0, 255, 1, 127, 128, 65]


def cl(n, off=0):
    return '(cl' + ''.join(' %d' % CHARS[(i + off) % len(CHARS)] for i in range(n)) + ')'


def bl(n, off=0):
    return '(bl' + ''.join(' %d' % BYTES[(i + off) % len(BYTES)] for i in range(n)) + ')'


def syl(n, store, off=0):
    """symbol list of n >= 2 parts; number parts only on Basic"""
    parts = []
    for i in range(n):
        if store == 'basic' and (i + off) % 3 == 1:
            parts.append('(i %d)' % [0, MAX, MIN, 7][(i + off) % 4])
        else:
            parts.append('(s %d)' % [1, 18446744073709551615, 5, 0, 77][(i + off) % 5])
    return '(syl ' + ' '.join(parts) + ')'


def item(k, depth=0):
    k = k % 9
    if k == 0:
        return '(i %d)' % [1, MAX, MIN, 0][depth % 4]
    if k == 1:
        return cl(2, depth)
    if k == 2:
        return '(p (s 5) (i %d))' % (10 + depth)
    if k == 3:
        return '(l (i 1) ' + (item(depth + 1, depth + 1) if depth < 3 else 'U') + ')'
    if k == 4:
        return 'U'
    if k == 5:
        return '(p (i 1) (i 2))'
    if k == 6:
        return '(s 9)'
    if k == 7:
        return '(p (s 6) ' + (item(depth + 3, depth + 1) if depth < 3 else 'T') + ')'
    return '(l)'


def lst(n, off=0):
    return '(l' + ''.join(' ' + item(i + off, i % 3) for i in range(n)) + ')'


def rng(a, b):
    return '(r (i %d) (i %d))' % (a, b)


# ---------------------------------------------------------------- streams

def gen_cases(seed=1, tier='quick'):
    rnd = random.Random(seed * 7919 + 13)
    cases = []

    def add(stream, store, term, queries):
        # a handful of queries per case keeps a disagreement readable
        # `wf`: the model decides the theorems' well-formedness hypothesis on the heap it built for the term
        queries = ['wf'] + list(queries)
        for i in range(0, len(queries), 8):
            cases.append(['ACCESS', '%s%d' % (stream, len(cases)), store, term, ' '.join(queries[i:i + 8])])

    lens = [0, 1, 2, 3, 4, 5] + ([40, 300] if tier == 'quick' else [17, 40, 300, 1000])
    # ---- t: text-like sequences
    for store in STORES:
        for n in lens:
            for kind, mk, pre in (('c', cl, 'c'), ('b', bl, 'b'), ('s', None, 's')):
                if kind == 's':
                    if n < 2 or n > 40:          # built by n merges, each copying the parts so far: kept short
                        continue
                    term = syl(n, store)
                else:
                    term = mk(n)
                q = [pre + 'len']
                q += ['%si:%s' % (pre, x) for x in nums(n, rnd)]
                lat = nums(n, rnd, 1)
                pairs = [(a, b) for a in lat for b in lat]
                if tier == 'quick' and n not in (0, 3):
                    pairs = rnd.sample(pairs, 40)
                q += ['%sit:%s,%s' % (pre, a, b) for a, b in pairs]
                # getters of the other kinds on this value
                for other in 'lcbs':
                    if other != pre:
                        q += ['%slen' % other, '%si:i0' % other, '%sit:i0,i1' % other]
                q += ['cot:i0,i1']
                add('t', store, term, q)
    # ---- l: lists
    for store in STORES:
        for n in lens:
            for off in ((0, 4) if n <= 5 else (0,)):
                term = lst(n, off)
                q = ['llen'] + ['li:%s' % x for x in nums(n, rnd)]
                lat = nums(n, rnd, 1)
                pairs = [(a, b) for a in lat for b in lat]
                if tier == 'quick' and n not in (0, 2):
                    pairs = rnd.sample(pairs, 40)
                q += ['lit:%s,%s' % (a, b) for a, b in pairs]
                q += ['clen', 'ci:i0', 'cit:i0,i1', 'cot:i0,f7fefffffffffffff']
                add('l', store, term, q)
    # ---- c: concatenations
    def concs():
        a, b, c = '(i 1)', lst(3), '(i 9)'
        yield '(cat %s %s)' % (a, c)
        yield '(cat %s %s)' % (b, c)
        yield '(cat (cat %s %s) %s)' % (a, b, c)
        yield '(cat %s (cat %s (cat %s %s)))' % (a, b, c, lst(2, 2))
        yield '(cat (l) (l))'
        yield '(cat %s %s)' % (cl(2), bl(2))
        deep = '(i 0)'
        for i in range(30):
            deep = '(cat %s (i %d))' % (deep, i + 1) if i % 2 == 0 else '(cat (i %d) %s)' % (i + 1, deep)
        yield deep
        yield '(cat %s %s)' % (lst(40), lst(5, 1))
    for store in STORES:
        for term in concs():
            lat = nums(4, rnd, 1)
            pairs = [(x, y) for x in lat for y in lat]
            if tier == 'quick':
                pairs = rnd.sample(pairs, 50)
            q = ['cot:%s,%s' % p for p in pairs] + ['llen', 'li:i0', 'lit:i0,i5']
            add('c', store, term, q)
        # slices inside concatenations: of a list, of a concatenation (the `end - start + 1` arm), of text; non-number ends
        inner = '(cat (i 1) (cat (l (i 2) (i 3)) (i 4)))'
        lat = lattice(3) + [2, 3, 5]
        pairs = [(x, y) for x in lat for y in lat]
        if tier == 'quick':
            pairs = rnd.sample(pairs, 70) + [(5, 4), (5, 2), (MIN, MAX), (MAX, MIN), (0, MAX), (MIN, -1), (1, 0), (-1, -2), (3, 2)]
        for (x, y) in pairs:
            for sl in ('(sl %s %s)' % (inner, rng(x, y)), '(sl %s %s)' % (lst(3), rng(x, y))):
                term = '(cat (i 7) (cat %s (i 8)))' % sl
                add('c', store, term, ['cot:i0,f7fefffffffffffff', 'cot:i1,i3'])
        for sl in ('(sl %s (r (f 3ff8000000000000) (i 2)))' % inner, '(sl %s (r (i 0) U))' % inner, '(sl %s (r (cl 97) (i 2)))' % lst(2),
                   '(sl %s (i 3))' % inner, '(sl (i 3) %s)' % rng(0, 1), '(sl %s %s)' % (cl(3), rng(0, 1)),
                   '(sl (sl %s %s) %s)' % (inner, rng(0, 2), rng(1, 1))):
            add('c', store, '(cat (i 7) (cat %s (i 8)))' % sl, ['cot:i0,f7fefffffffffffff'])
    # ---- r: runtime access path
    keys_small = [MIN, MIN + 1, -2, -1, 0, 1, 2, 3, 4, 5, 6, MAX - 1, MAX]
    for store in STORES:
        def accq(name, ks):
            return ['%s:%d' % (name, k) for k in ks]
        for n in (0, 1, 3, 5, 40):
            add('r', store, lst(n), accq('acc', lattice(n)) + accq('app', lattice(n)))
            add('r', store, cl(n), accq('acc', lattice(n)))
            add('r', store, bl(n), accq('acc', lattice(n)))
            if n >= 2:
                add('r', store, syl(n, store), accq('app', lattice(n)))
        for p in ('(p (s 5) (i 1))', '(p (i 5) (i 1))', '(p U U)'):
            add('r', store, p, accq('acc', [-1, 0, 1, MAX, MIN]) + accq('app', [0, 1]))
        # ranges: length overflow and start + index overflow
        lat = lattice(3)
        pairs = [(x, y) for x in lat for y in lat]
        for (x, y) in pairs:
            ks = keys_small if tier == 'thorough' else rnd.sample(keys_small, 6)
            add('r', store, rng(x, y), accq('acc', ks))
        add('r', store, '(r U (i 5))', accq('acc', [0, 1]))
        add('r', store, '(r (i 1) (cl 97))', accq('acc', [0]))
        # slices of every kind
        conts = [lst(4), cl(4), bl(4), '(cat (i 1) (cat (l (i 2) (i 3)) (i 4)))', syl(3, store), '(i 5)', '(sl %s %s)' % (lst(4), rng(1, 2))]
        for cont in conts:
            ps = pairs if tier == 'thorough' else rnd.sample(pairs, 45) + [(MAX, MAX), (MIN, MIN), (1, MAX), (MAX - 1, MAX), (-2, 1)]
            for (x, y) in ps:
                ks = keys_small if tier == 'thorough' else rnd.sample(keys_small, 5)
                add('r', store, '(sl %s %s)' % (cont, rng(x, y)), accq('acc', ks))
        add('r', store, '(sl %s (r U (i 1)))' % lst(2), accq('acc', [0]))
        # concatenations by integer
        for term in list(concs())[:6]:
            add('r', store, term, accq('acc', lattice(5)))
        # symbol access on slices of lists: the clamped scan (extents whose scan would take more than 10^5 steps are left
        # out: that slow single step is recorded with F-C07-range-cast-unbounded)
        for n in (0, 1, 3, 4):
            items = ['(p (s 5) (i 1))', '(i 2)', '(p (s 5) (i 3))', '(p (s 6) (i 4))'][:n]
            l = '(l' + ''.join(' ' + i for i in items) + ')'
            for (x, y) in [(a, b) for a in lattice(n) for b in lattice(n)]:
                ln = y - x + 1
                if MIN <= y - x <= MAX and MIN <= ln <= MAX:
                    steps = min(y, n - 1) - x + 1
                    if steps > 100000:
                        continue
                add('r', store, '(sl %s %s)' % (l, rng(x, y)), ['accs:5', 'accs:6', 'accs:7'])
    return cases


def compare(cases, impl, model):
    """(disagreements, oracle failures): lists of (case, impl, model)"""
    dis, bad = [], []
    for c in cases:
        ri, rm = impl.get(c[1], 'missing'), model.get(c[1], 'missing')
        k = ri.split(' ')[0]
        if k in ('PANIC', 'ABORT', 'HANG', 'missing'):
            bad.append((c, ri, rm))
        elif ri != rm:
            dis.append((c, ri, rm))
    return dis, bad


if __name__ == '__main__':
    import vlib
    tier, seeds = 'quick', []
    a = sys.argv[1:]
    while a:
        if a[0] == '--tier':
            tier = a[1]; a = a[2:]
        elif a[0] == '--seed':
            seeds.append(int(a[1])); a = a[2:]
        else:
            a = a[1:]
    for seed in seeds or [1]:
        cases = gen_cases(seed, tier)
        impl = vlib.run_impl(cases, 'accessgen', per_case_s=5.0)
        model = vlib.run_model(cases, 'accessgen')
        dis, bad = compare(cases, impl, model)
        print(f'seed {seed}: {len(cases)} cases, {len(dis)} disagreements, {len(bad)} PANIC/ABORT/HANG')
        for c, ri, rm in (bad + dis)[:12]:
            print('  ', c[1:], '\n     impl ', ri, '\n     model', rm)
