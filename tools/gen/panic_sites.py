"""Inventory of panic-capable constructs in the non-test code of the anchored files (translator side of C03/C07).
A site = (file, enclosing fn, kind, normalised source line). The committed baseline records every site present at the
pinned (repaired) tree with its disposition; a site that is not in the baseline is an undischarged obligation."""
import json, os, re, sys

FILES = [
    'compiler/src/lex/lexer.rs', 'compiler/src/parse/parser.rs', 'compiler/src/build/build.rs', 'compiler/src/error.rs',
    'runtime/src/execute.rs', 'data/src/data/number.rs', 'data/src/data/parsing.rs', 'data/src/runtime.rs', 'data/src/simple.rs',
    'data/src/basic/basic.rs', 'data/src/basic/internal.rs', 'data/src/basic/storage.rs', 'data/src/basic/search.rs',
    'data/src/basic/optimize.rs', 'data/src/basic/clone.rs', 'data/src/basic/ordering.rs', 'data/src/basic/garnish/garnish_impl.rs',
    'data/src/basic/garnish/conversions/bytes.rs', 'data/src/basic/garnish/conversions/number.rs', 'data/src/basic/garnish/conversions/string.rs',
    'data/src/basic/garnish/conversions/symbol.rs', 'data/src/basic/merge_to_symbol_list.rs', 'traits/src/helpers/concatenation.rs',
] + [f'runtime/src/runtime/{m}.rs' for m in ['access', 'apply', 'arithmetic', 'bitwise', 'casting', 'comparison', 'concat', 'equality', 'internals',
                                              'jumps', 'list', 'logical', 'pair', 'partial', 'put', 'range', 'resolve', 'sideeffect', 'utilities']]

KINDS = [
    ('unwrap', re.compile(r'\.unwrap\(\)')),
    ('expect', re.compile(r'\.expect\(')),
    ('panic-macro', re.compile(r'\b(panic|unreachable|todo|unimplemented|assert|assert_eq|assert_ne)!\s*\(')),
    ('index', re.compile(r'[A-Za-z_\)\]]\[[^\]\n]*\]')),           # a[i], a[i..j], f()[k]
    ('narrowing-cast', re.compile(r'\bas\s+(u8|u16|u32|i8|i16|i32|usize|isize|char)\b')),
    ('shift', re.compile(r'\s(<<|>>)=?\s')),            # rustfmt puts spaces around shift operators; `Vec<Vec<u8>>(` is not one
    ('int-pow', re.compile(r'\.pow\(')),
    ('usize-sub', re.compile(r'\b(len\(\)|index|cursor|size|start|end|count|i|j|n)\s*-\s*(1|[A-Za-z_])')),
]


def non_test_code(src):
    """lines before the first top-level `#[cfg(test)] mod …`; single `#[cfg(test)] use …;` items are dropped"""
    out = []
    lines = src.split('\n')
    i = 0
    while i < len(lines):
        line = lines[i]
        if line.startswith('#[cfg(test)]'):
            nxt = lines[i + 1] if i + 1 < len(lines) else ''
            if nxt.startswith('mod ') or nxt.startswith('pub mod '):
                break
            # a single item: skip to the terminating `;`
            i += 1
            while i < len(lines) and not lines[i].rstrip().endswith(';'):
                i += 1
            i += 1
            continue
        out.append(line)
        i += 1
    return out


def sites_of(repo):
    sites = []
    for f in FILES:
        p = os.path.join(repo, f)
        if not os.path.exists(p):
            sites.append({'file': f, 'fn': '-', 'kind': 'missing-file', 'line': ''})
            continue
        fn = '-'
        for line in non_test_code(open(p, encoding='utf-8').read()):
            code = line.split('//', 1)[0]
            m = re.search(r'\bfn\s+([A-Za-z_0-9]+)', code)
            if m:
                fn = m.group(1)
            if not code.strip() or code.strip().startswith('#['):
                continue
            c = re.sub(r'"(?:[^"\\]|\\.)*"', '""', code)      # drop string literal contents
            for kind, rx in KINDS:
                if rx.search(c):
                    if kind == 'index' and re.search(r'#\[|vec!\[|\[\]|&\[|: \[|\[(u8|char|usize|\()', c) and not re.search(r'[a-z_\)]\[[a-z_0-9 .+\-*()]+\]', c):
                        continue
                    sites.append({'file': f, 'fn': fn, 'kind': kind, 'line': re.sub(r'\s+', ' ', c.strip())})
    return sites


def key(s):
    return f"{s['file']}::{s['fn']}::{s['kind']}::{s['line']}"


def compare(repo, baseline_path):
    """current sites, and the sites that are an undischarged obligation: a site counts as reviewed if the same site is in
    the baseline, or if — within the same file and of the same kind — at least as many baseline sites have disappeared as
    unmatched sites have appeared (code moved into a helper, a variable renamed, a function split: the construct is the
    reviewed one in a new place). Only a net increase of a kind of construct in a file is new."""
    cur = sites_of(repo)
    base = json.load(open(baseline_path)) if os.path.exists(baseline_path) else {'sites': []}
    bk = {}
    for s in base['sites']:
        bk[key(s)] = bk.get(key(s), 0) + 1
    unmatched = []
    for s in cur:
        k = key(s)
        if bk.get(k, 0) > 0:
            bk[k] -= 1
        else:
            unmatched.append(s)
    vanished = {}
    for s in base['sites']:
        k = key(s)
        if bk.get(k, 0) > 0:
            bk[k] -= 1
            g = (s['file'], s['kind'])
            vanished[g] = vanished.get(g, 0) + 1
    new = []
    for s in unmatched:
        g = (s['file'], s['kind'])
        if vanished.get(g, 0) > 0:
            vanished[g] -= 1        # a reviewed construct of this kind left this file: this one takes its place
        else:
            new.append(s)
    return cur, new


if __name__ == '__main__':
    repo = sys.argv[1] if len(sys.argv) > 1 else '/repo'
    here = os.path.dirname(os.path.dirname(os.path.abspath(__file__)))
    bp = os.path.join(here, 'panic_sites_baseline.json')
    if '--write-baseline' in sys.argv:
        cur = sites_of(repo)
        json.dump({'note': 'panic-capable constructs of the non-test code at the pinned, repaired tree; runtime reachability of each is what the RUN/OP/BUILD/LEX/PARSE oracles watch', 'sites': cur},
                  open(bp, 'w'), indent=0)
        print(len(cur), 'sites written')
    else:
        cur, new = compare(repo, bp)
        print(len(cur), 'sites,', len(new), 'new')
        for s in new[:40]:
            print('NEW', key(s))
