#!/usr/bin/env python3
"""COMPILE tie: the structured compiler `Abs.compile` (Lean, lean/Garnish/Abs/Compile.lean) against the real `build`.

For every generated program the harness's DUMP suite prints the instruction stream, jump table and (rendered) constants
that lexer+parser+build produce for the printed source, and the Lean driver's COMPILE suite prints what `compile`
produces for the AST; the two lines must be identical.

Programs: all of proggen.enumerate_small up to 2 operator nodes, and random programs of proggen extended with the
constructs proggen does not print (empty nested `{ }`, prefix / suffix / infix identifier application).

usage: compilegen.py [--seed N] [--random N] [--small K] [--drv PATH] [--store basic|simple|both] [--show N]
"""
import argparse, os, random, sys, collections

sys.path.insert(0, os.path.dirname(os.path.dirname(os.path.abspath(__file__))))
import vlib
from gen import proggen
from gen.proggen import Node, PRIO
from gen.siphash import symbol_value

# ---- extra constructs ------------------------------------------------------------------------------------------
_orig_pp = proggen.pp


def _operand(c, extra_parens):
    s = proggen.pp(c, extra_parens)
    return s if c.prio() <= PRIO['group'] and c.kind != 'seafter' else '(' + s + ')'


def pp(n, extra_parens=None):
    k = n.kind
    if k == 'enested':
        return '{ }'
    if k == 'prefixapp':
        return f'{n.a}` {_operand(n.kids[0], extra_parens)}'
    if k == 'suffixapp':
        return f'{_operand(n.kids[0], extra_parens)} `{n.a}'
    if k == 'infixapp':
        return f'{_operand(n.kids[0], extra_parens)} `{n.a}` {_operand(n.kids[1], extra_parens)}'
    return _orig_pp(n, extra_parens)


proggen.pp = pp          # the printer recurses through the module-level name


class Numbering2(proggen.Numbering):
    def term(self, n):
        k = n.kind
        if k == 'enested': return 'enested'
        if k == 'prefixapp': return f'(prefix {symbol_value(n.a)} {self.term(n.kids[0])})'
        if k == 'suffixapp': return f'(suffix {self.term(n.kids[0])} {symbol_value(n.a)})'
        if k == 'infixapp': return f'(infix {self.term(n.kids[0])} {symbol_value(n.a)} {self.term(n.kids[1])})'
        return super().term(n)


def program_term(root):
    nb = Numbering2()
    main = nb.term(root)
    return '(prog ' + main + ''.join(f' (body {i} {b})' for i, b in nb.bodies) + ')'


class Gen2(proggen.Gen):
    """proggen's generator plus the extra constructs; the extras are printed fully parenthesised (priority class
    'seq' makes every parent wrap them), so that the printer does not depend on their place in the operator table"""
    def expr(self, d):
        r = self.rnd
        if d > 0 and r.random() < 0.07:
            c = r.random()
            if c < 0.2: return Node('enested', None, [], 'nested')
            name = r.choice(proggen.IDENTS)
            if c < 0.45: return Node('prefixapp', name, [self.expr(d - 1)], 'seq')
            if c < 0.7: return Node('suffixapp', name, [self.expr(d - 1)], 'seq')
            return Node('infixapp', name, [self.expr(d - 1), self.expr(d - 1)], 'seq')
        if d > 0 and r.random() < 0.03:
            # reapply in arbitrary positions (operand position included): only the emitted code is compared here
            return Node('reapply', None, [self.expr(d - 1)], 'reapply')
        if d > 0 and r.random() < 0.02:
            # else-chain without a final arm (with a single arm the source would be a plain conditional)
            n = r.randint(2, 3)
            arms = [Node('cond', r.random() < 0.7, [self.expr(d - 1), self.expr(d - 1)], 'cond') for _ in range(n)]
            return Node('chain', (arms, None), [], 'else')
        return super().expr(d)


SMALL_OPS = {'pre': ['--', '!!', '??'], 'bin': ['+', '<', '==', '.', '<~'],
             'other': ['pair', 'slist', 'clist', 'cond', 'else', 'and', 'or', 'apply']}


def fix_property(n):
    """`x . a`: a bare identifier after `.` is a Property (symbol constant), not an identifier look-up"""
    if n.kind == 'bin' and n.a[1] == '.' and n.kids[1].kind == 'id':
        name = n.kids[1].a
        n.kids[1] = Node('lit', (f'(s {symbol_value(name)})', name))
    for c in all_kids(n):
        fix_property(c)
    return n


def all_kids(n):
    kids = list(n.kids)
    if n.kind == 'chain':
        arms, final = n.a
        kids = list(arms) + ([final] if final is not None else [])
    return kids


def feats(n, acc):
    acc[n.kind] += 1
    for c in all_kids(n):
        feats(c, acc)


def multi(a, progs, stores):
    """COMPILE2 tie: sequences of 2..3 programs built into ONE data object (harness DUMP2) vs `compileInto` chained"""
    rnd = random.Random(a.seed * 31 + 7)
    seqs = []
    pool = [r for _, r in progs]
    # every ordered pair of the first small programs, then random sequences
    small = pool[:min(len(pool), a.pairs)]
    for x in small:
        for y in small:
            seqs.append([x, y])
    for _ in range(a.multi):
        seqs.append([rnd.choice(pool) for _ in range(rnd.choice([2, 2, 3]))])
    dump, comp, info = [], [], {}
    for k, sq in enumerate(seqs):
        srcs = [proggen.pp(r) for r in sq]
        asts = [program_term(r) for r in sq]
        comp.append(['COMPILE2', str(k)] + asts)
        info[str(k)] = srcs
        for st in stores:
            dump.append(['DUMP2', f'{k}:{st}', st] + [vlib.esc(x) for x in srcs])
    vlib.log(f'{len(seqs)} sequences')
    impl = vlib.run_impl(dump, 'compilegen2', per_case_s=5.0)
    model = vlib.run_sharded(a.drv, comp, 'compilegen2.model', supervised=False)
    same, diffs = 0, []
    outcomes = collections.Counter()
    for k in info:
        for st in stores:
            r = impl.get(f'{k}:{st}')
            outcomes[(r or 'missing').split(' ')[0]] += 1
            if r == model.get(k):
                same += 1
            else:
                diffs.append((k, st, r, model.get(k)))
    print(f'sequences={len(seqs)} comparisons={same + len(diffs)} equal={same} different={len(diffs)} impl-outcomes={dict(outcomes)}')
    diffs.sort(key=lambda d: sum(len(x) for x in info[d[0]]))
    for k, st, r, m in diffs[:a.show]:
        print(f'--- [{st}] {info[k]!r}\n    build   {r}\n    compile {m}')
    return 1 if diffs else 0


def main():
    ap = argparse.ArgumentParser()
    ap.add_argument('--seed', type=int, default=1)
    ap.add_argument('--random', type=int, default=20000)
    ap.add_argument('--small', type=int, default=2)
    ap.add_argument('--depth', type=int, default=4)
    ap.add_argument('--drv', default=vlib.DRV)
    ap.add_argument('--store', default='basic')
    ap.add_argument('--show', type=int, default=10)
    ap.add_argument('--multi', type=int, default=0, help='COMPILE2 tie: this many random sequences of 2..3 programs in one object')
    ap.add_argument('--pairs', type=int, default=60, help='with --multi: all ordered pairs of the first N small programs')
    ap.add_argument('--absdepth', action='store_true', help='also run the verified depth analysis (suite ABSDEPTH) on the DUMP lines')
    ap.add_argument('--wf', action='store_true', help='also report how many programs satisfy WFProgram')
    a = ap.parse_args()
    rnd = random.Random(a.seed)
    progs = []
    for root in proggen.enumerate_small(a.small, SMALL_OPS):
        progs.append(('small', fix_property(root)))
    g = Gen2(rnd)
    for _ in range(a.random):
        root = proggen.fix_nodes(g.body(rnd.randint(1, a.depth)))
        progs.append(('random', root))
    stores = ['basic', 'simple'] if a.store == 'both' else [a.store]
    if a.multi:
        return multi(a, progs, stores)
    fc = collections.Counter()
    dump, comp, info = [], [], {}
    for k, (stream, root) in enumerate(progs):
        src, ast = proggen.pp(root), program_term(root)
        feats(root, fc)
        comp.append(['COMPILE', str(k), ast])
        info[str(k)] = (stream, src, ast)
        for st in stores:
            dump.append(['DUMP', f'{k}:{st}', st, vlib.esc(src)])
    vlib.log(f'{len(progs)} programs ({sum(1 for s, _ in progs if s == "small")} small); constructs: {dict(fc)}')
    impl = vlib.run_impl(dump, 'compilegen', per_case_s=5.0)
    if a.wf:
        wfc = [['WFCHECK', c[1], c[2]] for c in comp]
        wfr = vlib.run_sharded(a.drv, wfc, 'compilegen.wf', supervised=False)
        cnt = collections.Counter()
        why = collections.Counter()
        for k in info:
            r = wfr.get(k) or 'missing'
            cnt[r.split(' ')[0]] += 1
            if not r.startswith('wf=true'):
                why[' '.join(x for x in r.split(' ')[1:] if x.endswith('false'))] += 1
        print(f'WFProgram (after canonical labelling): {dict(cnt)}; failing fields: {dict(why)}')
    model = vlib.run_sharded(a.drv, comp, 'compilegen.model', supervised=False)
    if a.absdepth:
        # the verified depth analysis on the implementation's own instruction streams
        adc = [['ABSDEPTH', k, impl.get(f'{k}:{stores[0]}') or '-'] for k in info]
        adr = vlib.run_sharded(a.drv, adc, 'compilegen.absdepth', supervised=False)
        cnt = collections.Counter((adr.get(k) or 'missing').split(' ')[0] for k in info)
        print(f'ABSDEPTH on the implementation streams: {dict(cnt)}')
        if a.wf:
            bad = [k for k in info if (wfr.get(k) or '').startswith('wf=true') and not (adr.get(k) or '').startswith('balanced=true')]
            print(f'WFProgram programs that are not balanced: {len(bad)}')
            bwf = [k for k in info if 'balancedWF=true' in (wfr.get(k) or '')]
            viol = [k for k in bwf if not (adr.get(k) or '').startswith('balanced=true')]
            print(f'C06_compile_balanced: WFBalanced programs: {len(bwf)}; of these NOT balanced on the implementation stream: {len(viol)}')
            for k in viol[:a.show]:
                print('    VIOLATION', repr(info[k][1]), adr.get(k))
            for k in bad[:a.show]:
                print('   ', repr(info[k][1]), adr.get(k))
        unb = sorted((k for k in info if (adr.get(k) or '').startswith('balanced=false')), key=lambda k: len(info[k][1]))
        for k in unb[:a.show]:
            print('    unbalanced:', repr(info[k][1]), adr.get(k))
    same = 0
    diffs = []
    outcomes = collections.Counter()
    for k in info:
        m = model.get(k)
        for st in stores:
            r = impl.get(f'{k}:{st}')
            outcomes[(r or 'missing').split(' ')[0]] += 1
            if r == m:
                same += 1
            else:
                diffs.append((k, st, r, m))
    print(f'programs={len(progs)} comparisons={same + len(diffs)} equal={same} different={len(diffs)} impl-outcomes={dict(outcomes)}')
    diffs.sort(key=lambda d: len(info[d[0]][1]))
    for k, st, r, m in diffs[:a.show]:
        stream, src, ast = info[k]
        print(f'--- [{stream}/{st}] {src!r}\n    ast   {ast}\n    build   {r}\n    compile {m}')
    return 1 if diffs else 0


if __name__ == '__main__':
    sys.exit(main())
