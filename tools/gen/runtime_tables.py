"""tables read from the runtime handlers -> Garnish/Gen/RuntimeTables.lean
 - the set of data types treated as false at each of the three testing sites"""
import os, re
from gen.rsparse import fn_body
from gen.enums_tables import lean_name


def first_arm_types(body, what):
    # first match arm made only of GarnishDataType::X alternatives
    m = re.search(r'match\s+this\.get_data_type\(.*?\)\?\s*\{\s*((?:GarnishDataType::\w+\s*\|?\s*)+)=>', body)
    if not m:
        raise ValueError(f'cannot find the type match of {what}')
    return re.findall(r'GarnishDataType::(\w+)', m.group(1))


def behavioural_sites():
    """the three falsy sets read off the COMPILED handlers: one representative value of every data type under Not
    (is_true_value), JumpIfTrue and JumpIfFalse on both stores; used when the source no longer has the `match` form the
    extraction expects (a refactoring into `matches!`, a helper predicate, ...)"""
    import subprocess, tempfile
    from gen import tables_dump, opgen
    hb = tables_dump.harness_bin()
    if not os.path.exists(hb):
        return None
    rows = []
    for ty, reps in opgen.REPS.items():
        for rep in reps:
            for st in ('simple', 'basic'):
                for ins in ('Not', 'JumpIfTrue', 'JumpIfFalse'):
                    rows.append((ty, ins, f'OP\t{len(rows)}\t{st}\t{ins}\tdecline\t{rep}\t-'))
    with tempfile.NamedTemporaryFile('w', suffix='.cases', delete=False) as f:
        f.write('\n'.join(r[2] for r in rows) + '\n')
        path = f.name
    out = subprocess.run([hb, path], stdout=subprocess.PIPE, stderr=subprocess.DEVNULL, timeout=120).stdout.decode('utf-8', 'replace').split('\n')
    os.unlink(path)
    res = {}
    for line in out:
        if '\t' in line:
            i, r = line.split('\t', 1)
            res[int(i)] = r
    falsy = {'isTrueValue': set(), 'jumpIfTrue': set(), 'jumpIfFalse': set()}
    truthy = {'isTrueValue': set(), 'jumpIfTrue': set(), 'jumpIfFalse': set()}
    for k, (ty, ins, _) in enumerate(rows):
        r = res.get(k, '')
        if not r.startswith('ok '):
            continue          # the store cannot hold this representative
        if ins == 'Not':
            site, is_false = 'isTrueValue', r.startswith('ok T ')
        elif ins == 'JumpIfTrue':
            site, is_false = 'jumpIfTrue', ' next=1 ' in r
        else:
            site, is_false = 'jumpIfFalse', ' next=42 ' in r
        (falsy if is_false else truthy)[site].add(ty)
    sites = {}
    for site in falsy:
        if falsy[site] & truthy[site]:
            raise ValueError(f'{site}: a data type is classified both ways: {sorted(falsy[site] & truthy[site])}')
        sites[site] = [t for t in ('False', 'Unit') if t in falsy[site]] + sorted(falsy[site] - {'False', 'Unit'})
    return sites


def extract_sites(repo):
    logical = open(os.path.join(repo, 'runtime/src/runtime/logical.rs'), encoding='utf-8').read()
    jumps = open(os.path.join(repo, 'runtime/src/runtime/jumps.rs'), encoding='utf-8').read()
    sites = {}
    b = fn_body(logical, 'is_true_value')
    tys = first_arm_types(b, 'is_true_value')
    if not re.search(r'=>\s*false\s*,\s*_\s*=>\s*true', b):
        raise ValueError('is_true_value: expected `<types> => false, _ => true`')
    sites['isTrueValue'] = tys
    b = fn_body(jumps, 'jump_if_true')
    sites['jumpIfTrue'] = first_arm_types(b, 'jump_if_true')
    # the listed types must be the ones that do NOT jump
    arm = b[b.index('GarnishDataType::'):]
    if 'Ok(None)' not in re.split(r'\bt\s*=>', arm)[0]:
        raise ValueError('jump_if_true: first arm is expected to fall through (Ok(None))')
    b = fn_body(jumps, 'jump_if_false')
    sites['jumpIfFalse'] = first_arm_types(b, 'jump_if_false')
    arm = b[b.index('GarnishDataType::'):]
    if 'Ok(Some(point))' not in re.split(r'\bt\s*=>', arm)[0]:
        raise ValueError('jump_if_false: first arm is expected to jump (Ok(Some(point)))')
    return sites


def generate(repo):
    source = 'source text'
    try:
        sites = extract_sites(repo)
    except (ValueError, IndexError) as e:
        sites = behavioural_sites()
        if sites is None:
            raise
        source = f'compiled code (behavioural dump through the harness; the source form was not recognised: {e})'
    logical = open(os.path.join(repo, 'runtime/src/runtime/logical.rs'), encoding='utf-8').read()
    # which logical handlers go through is_true_value (informational)
    # (directly or through private helpers of the same file: transitive closure of the calls inside logical.rs)
    fns = re.findall(r'\bfn\s+([A-Za-z_0-9]+)', logical.split('#[cfg(test)]')[0])
    calls = {}
    for f in fns:
        try:
            b = fn_body(logical, f)
        except Exception:
            continue
        calls[f] = {g for g in fns if g != f and re.search(r'\b' + g + r'\s*(::<[^>]*>)?\s*\(', b)}
    reach = {f for f, cs in calls.items() if 'is_true_value' in cs}
    changed = True
    while changed:
        changed = False
        for f, cs in calls.items():
            if f not in reach and cs & reach:
                reach.add(f); changed = True
    users = [f for f in ['and', 'or', 'xor', 'not', 'tis'] if f in reach]
    out = ['/- GENERATED by tools/gen_tables.py from runtime/src/runtime/{logical,jumps}.rs — do not edit. -/',
           'import Garnish.Gen.Enums', 'namespace Garnish.Gen', '']
    for k, tys in sites.items():
        out.append(f'/-- data types classified as false at `{k}` -/')
        out.append(f'def falsy_{k} : List Ty := [' + ', '.join('.' + lean_name(t) for t in tys) + ']')
    out.append('/-- logical handlers that classify their operand through `is_true_value` -/')
    out.append('def isTrueValueUsers : List String := [' + ', '.join(f'"{u}"' for u in users) + ']')
    out.append('')
    out.append('end Garnish.Gen')
    return {'Garnish/Gen/RuntimeTables.lean': '\n'.join(out) + '\n'}, {'falsy': sites, 'isTrueValueUsers': users, 'source': source}
