"""Lexer tables -> Garnish/Gen/LexTables.lean (+ Garnish/Gen/CharRanges.lean)

LexTables.lean: the operator spellings of `Lexer::new` (the `create_operator_tree(vec![("+", TokenType::PlusSign), ...])`
call in compiler/src/lex/lexer.rs), in source order.  The Lean model builds its trie from this list with a
transliteration of `create_operator_tree`.

CharRanges.lean: range tables of the Rust std `char` predicates the lexer uses (`is_alphanumeric`, `is_numeric`, ...).
They depend on the Rust toolchain, not on the repo source, and are dumped by the harness suite `CHARCLASS`
(harness/src/lexs.rs).  generate() refreshes the file when a built harness binary is available; otherwise an
already generated CharRanges.lean is left untouched (it is an error if neither exists)."""
import os, re, subprocess, sys, tempfile
from gen.rsparse import strip_comments, fn_body
from gen.enums_tables import lean_name

LEXER_RS = 'compiler/src/lex/lexer.rs'
HERE = os.path.dirname(os.path.abspath(__file__))
VERIF = os.path.dirname(os.path.dirname(HERE))
HBIN = os.path.join(os.environ.get('VERIF_HARNESS', os.path.join(VERIF, 'harness')), 'target', 'debug', 'gharness')
LEAN = os.path.join(VERIF, 'lean')
PREDICATES = ['alphanumeric', 'numeric', 'alphabetic', 'whitespace', 'ascii_whitespace']
# documented definition of char::is_ascii_whitespace (the model hard-codes it): SP, HT, LF, FF, CR
ASCII_WS = [(0x9, 0xa), (0xc, 0xd), (0x20, 0x20)]

_RUST_ESC = {'n': '\n', 't': '\t', 'r': '\r', '0': '\0', '\\': '\\', '"': '"', "'": "'"}


def rust_str(lit):
    """value of the inside of a Rust "..." literal (simple escapes only)"""
    out = []
    i = 0
    while i < len(lit):
        c = lit[i]
        if c == '\\':
            d = lit[i + 1]
            if d in _RUST_ESC:
                out.append(_RUST_ESC[d]); i += 2
            elif d == 'x':
                out.append(chr(int(lit[i + 2:i + 4], 16))); i += 4
            elif d == 'u':
                j = lit.index('}', i)
                out.append(chr(int(lit[i + 3:j], 16))); i = j + 1
            else:
                raise ValueError(f'unsupported escape in operator literal {lit!r}')
        else:
            out.append(c); i += 1
    return ''.join(out)


def operator_list_strict(src):
    """[(spelling, TokenType variant)] of the create_operator_tree(vec![...]) call inside `Lexer::new`"""
    m = re.search(r'impl<\'a> Lexer<\'a>', src)
    if not m:
        raise ValueError('impl Lexer not found')
    body = fn_body(src[m.end():], 'new')          # comments stripped
    m = re.search(r'create_operator_tree\s*\(\s*vec!\s*\[', body)
    if not m:
        raise ValueError('create_operator_tree(vec![ ... ]) call not found in Lexer::new')
    pos = m.end()
    tup = re.compile(r'\(\s*"((?:[^"\\]|\\.)*)"\s*,\s*TokenType::([A-Za-z_][A-Za-z0-9_]*)\s*,?\s*\)')
    ops = []
    while True:
        while pos < len(body) and (body[pos].isspace() or body[pos] == ','):
            pos += 1
        if body.startswith(']', pos):
            break
        mm = tup.match(body, pos)
        if not mm:
            raise ValueError(f'cannot read operator table entry at: {body[pos:pos + 60]!r}')
        ops.append((rust_str(mm.group(1)), mm.group(2)))
        pos = mm.end()
    if not re.match(r'\]\s*\)\s*;', body[pos:]):
        raise ValueError('operator table does not end with `]);`')
    if not ops:
        raise ValueError('empty operator table')
    return ops


def operator_list(src):
    """the operator table: the `create_operator_tree(vec![...])` call of `Lexer::new` if it is written that way, otherwise
    (the list moved into a helper, a const, a different container) every `("spelling", TokenType::Variant)` tuple literal of
    the non-test code of lexer.rs, in source order — the trie does not depend on the order, spellings must be distinct"""
    try:
        ops = operator_list_strict(src)
        from gen import tables_dump
        d = tables_dump.dump()
        if d is not None and sorted(ops) != sorted(d['ops']):
            raise RuntimeError('the operator table read from the source text differs from the table of the compiled code')
        return ops
    except ValueError:
        pass
    code = strip_comments(src.split('#[cfg(test)]')[0])
    tup = re.compile(r'\(\s*"((?:[^"\\]|\\.)*)"\s*,\s*TokenType::([A-Za-z_][A-Za-z0-9_]*)\s*,?\s*\)')
    ops = [(rust_str(m.group(1)), m.group(2)) for m in tup.finditer(code)]
    ok = len(ops) >= 40 and len({a for a, _ in ops}) == len(ops)
    from gen import tables_dump
    d = tables_dump.dump()
    if d is not None:
        if ok and sorted(ops) != sorted(d['ops']):
            ok = False
        if not ok:
            return list(d['ops'])          # the table of the compiled code (TABLES dump through the garnish_verif hook)
    if not ok:
        raise ValueError(f'operator table not found: {len(ops)} ("spelling", TokenType::X) tuples in lexer.rs and no TABLES dump available')
    return ops


def lean_char(c):
    o = ord(c)
    if c == '\\':
        return "'\\\\'"
    if c == "'":
        return "'\\''"
    if c == '\n':
        return "'\\n'"
    if c == '\t':
        return "'\\t'"
    if c == '\r':
        return "'\\r'"
    if o < 0x20 or o == 0x7f:
        return "'\\x%02x'" % o
    if o > 0x7e:
        return "(Char.ofNat 0x%x)" % o
    return "'%s'" % c


def lean_str(s):
    out = []
    for c in s:
        o = ord(c)
        if c == '\\':
            out.append('\\\\')
        elif c == '"':
            out.append('\\"')
        elif c == '\n':
            out.append('\\n')
        elif c == '\t':
            out.append('\\t')
        elif c == '\r':
            out.append('\\r')
        elif o < 0x20 or o == 0x7f:
            out.append('\\x%02x' % o)
        elif o > 0x7e:
            out.append('\\u{%x}' % o)
        else:
            out.append(c)
    return '"' + ''.join(out) + '"'


def lex_tables_text(ops):
    out = ['/- GENERATED by tools/gen_tables.py (tools/gen/lex_tables.py) from the `create_operator_tree(vec![...])` call in',
           f'   `Lexer::new`, {LEXER_RS} — do not edit. -/',
           'import Garnish.Gen.Enums',
           'namespace Garnish.Gen.LexTables',
           '',
           '/-- operator spellings in source order (later entries update earlier ones, as in `create_operator_tree`) -/',
           'def operators : List (String × Garnish.Gen.TokenType) := [']
    out.append(',\n'.join(f'  ({lean_str(s)}, .{lean_name(t)})' for s, t in ops))
    out.append(']')
    out.append('')
    out.append('/-- the same table with the spellings as character lists (what the model consumes; kernel-friendly) -/')
    out.append('def operatorChars : List (List Char × Garnish.Gen.TokenType) := [')
    out.append(',\n'.join('  ([' + ', '.join(lean_char(c) for c in s) + f'], .{lean_name(t)})' for s, t in ops))
    out.append(']')
    out.append('')
    out.append('end Garnish.Gen.LexTables')
    return '\n'.join(out) + '\n'


# ------------------------------------------------------------------ char predicate ranges

def dump_ranges(hbin=HBIN):
    """{predicate: [(lo, hi)]} from the harness (CHARCLASS suite), or None if the binary is not usable"""
    if not os.path.exists(hbin):
        return None
    with tempfile.NamedTemporaryFile('w', suffix='.cases', delete=False, encoding='utf-8') as f:
        for p in PREDICATES:
            # routed through LEX so that it works whether or not CHARCLASS is registered in main.rs
            f.write(f'LEX\t{p}\t\tCHARCLASS\t{p}\n')
        path = f.name
    try:
        p = subprocess.run([hbin, path], stdout=subprocess.PIPE, stderr=subprocess.DEVNULL, timeout=120, text=True)
    except Exception:
        return None
    finally:
        os.unlink(path)
    res = {}
    for line in p.stdout.splitlines():
        parts = line.split('\t')
        if len(parts) != 2 or parts[0] not in PREDICATES:
            continue
        if not re.fullmatch(r'([0-9a-f]+-[0-9a-f]+)(,[0-9a-f]+-[0-9a-f]+)*', parts[1]):
            return None
        res[parts[0]] = [tuple(int(x, 16) for x in r.split('-')) for r in parts[1].split(',')]
    if set(res) != set(PREDICATES):
        return None
    return res


def char_ranges_text(ranges):
    if ranges['ascii_whitespace'] != ASCII_WS:
        raise ValueError(f'char::is_ascii_whitespace differs from its documented definition: {ranges["ascii_whitespace"]}')
    out = ['/- GENERATED by tools/gen/lex_tables.py from the harness suite CHARCLASS (harness/src/lexs.rs): maximal ranges of',
           '   Unicode scalar values on which the Rust std `char` predicates hold — do not edit. -/',
           'namespace Garnish.Gen.CharRanges',
           '',
           '/-- binary search in a sorted array of disjoint inclusive ranges; `fuel` bounds the halving steps -/',
           'def inRangesGo (tbl : Array (Nat × Nat)) (x : Nat) : Nat → Nat → Nat → Bool',
           '  | 0, _, _ => false',
           '  | fuel + 1, lo, hi =>',
           '    if lo < hi then',
           '      let mid := (lo + hi) / 2',
           '      match tbl[mid]? with',
           '      | none => false',
           '      | some (a, b) =>',
           '        if x < a then inRangesGo tbl x fuel lo mid',
           '        else if b < x then inRangesGo tbl x fuel (mid + 1) hi',
           '        else true',
           '    else false',
           '',
           'def inRanges (tbl : Array (Nat × Nat)) (x : Nat) : Bool := inRangesGo tbl x 64 0 tbl.size',
           '']
    names = {'alphanumeric': 'alphanumeric', 'numeric': 'numeric', 'alphabetic': 'alphabetic', 'whitespace': 'whitespace',
             'ascii_whitespace': 'asciiWhitespace'}
    for p in PREDICATES:
        n = names[p]
        rs = ranges[p]
        out.append(f'/-- `char::is_{p}` ({len(rs)} ranges) -/')
        out.append(f'def {n}Ranges : Array (Nat × Nat) := #[')
        line = []
        lines = []
        for a, b in rs:
            line.append(f'(0x{a:x}, 0x{b:x})')
            if len(line) == 8:
                lines.append('  ' + ', '.join(line)); line = []
        if line:
            lines.append('  ' + ', '.join(line))
        out.append(',\n'.join(lines))
        out.append(']')
        out.append(f'def is{n[0].upper() + n[1:]} (c : Char) : Bool := inRanges {n}Ranges c.toNat')
        out.append('')
    out.append('end Garnish.Gen.CharRanges')
    return '\n'.join(out) + '\n'


def generate(repo):
    src = open(os.path.join(repo, LEXER_RS), encoding='utf-8').read()
    ops = operator_list(src)
    files = {'Garnish/Gen/LexTables.lean': lex_tables_text(ops)}
    js = {'operators': [[s, t] for s, t in ops]}
    ranges = dump_ranges()
    if ranges is not None:
        files['Garnish/Gen/CharRanges.lean'] = char_ranges_text(ranges)
        js['char_ranges'] = {p: len(r) for p, r in ranges.items()}
        js['char_ranges_source'] = 'harness CHARCLASS'
    elif os.path.exists(os.path.join(LEAN, 'Garnish/Gen/CharRanges.lean')):
        js['char_ranges_source'] = 'kept existing file (harness binary not available)'
    else:
        raise ValueError('Garnish/Gen/CharRanges.lean missing and no harness binary to dump it: build /verif/harness first')
    return files, js


if __name__ == '__main__':
    sys.path.insert(0, os.path.dirname(HERE))
    fs, j = generate(sys.argv[1] if len(sys.argv) > 1 else '/repo')
    for k, v in fs.items():
        print('==', k, len(v))
    print(j)
