"""Reads the TABLES dump of the harness (the lexer's and parser's private tables as the COMPILED code has them, through
the garnish_verif hooks). Used by the table translators as a fallback when the source text no longer has the form their
extraction expects, and as a cross-check when it does."""
import os, subprocess, tempfile

HERE = os.path.dirname(os.path.abspath(__file__))
VERIF = os.path.dirname(os.path.dirname(HERE))


def harness_bin():
    h = os.environ.get('VERIF_HARNESS', os.path.join(VERIF, 'harness'))
    return os.path.join(h, 'target', 'debug', 'gharness')


_cache = {}


def dump():
    """dict with keys ops [(spelling, TokenType)], getdef {TokenType: (Definition, SecDef)}, prio {Definition: n},
    comp {(prev, cur, flag): rejected}, preds {name: [Definition]}, defs [Definition]; None if no harness binary / no TABLES suite"""
    hb = harness_bin()
    if hb in _cache:
        return _cache[hb]
    out = None
    if os.path.exists(hb):
        with tempfile.NamedTemporaryFile('w', suffix='.cases', delete=False) as f:
            f.write('TABLES\t1\n')
            path = f.name
        try:
            r = subprocess.run([hb, path], stdout=subprocess.PIPE, stderr=subprocess.DEVNULL, timeout=60).stdout.decode('utf-8', 'replace')
        except Exception:
            r = ''
        os.unlink(path)
        line = r.split('\n')[0]
        if '\tops=' in line:
            body = line.split('\t', 1)[1]
            sec = {}
            for part in body.split(' '):
                k, _, v = part.partition('=')
                sec[k] = v
            try:
                out = {
                    'ops': [(bytes.fromhex(x.split(':')[0]).decode('utf-8'), x.split(':')[1]) for x in sec['ops'].split(';') if x],
                    'getdef': {x.split(':')[0]: (x.split(':')[1], x.split(':')[2]) for x in sec['getdef'].split(';') if x},
                    'prio': {x.split(':')[0]: int(x.split(':')[1]) for x in sec['prio'].split(';') if x},
                    'comp': {(x.split(':')[0], x.split(':')[1], x.split(':')[2] == '1'): x.split(':')[3] == '1' for x in sec['comp'].split(';') if x},
                    'preds': {x.split(':')[0]: [d for d in x.split(':')[1].split(',') if d] for x in sec['preds'].split(';') if x},
                    'defs': [d for d in sec.get('defs', '').split(',') if d],
                }
            except Exception:
                out = None
    _cache[hb] = out
    return out
