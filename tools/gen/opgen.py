"""OP suite case generation: instruction x ordered type pair x representative values x store x host mode"""
import struct

def fb(x):
    return '(f %016x)' % struct.unpack('<Q', struct.pack('<d', x))[0]

REPS = {
    'Unit': ['U'],
    'True': ['T'],
    'False': ['F'],
    'Number': ['(i 0)', '(i 5)', '(i -3)', fb(1.5), '(i 1)'],
    'Type': ['(ty Number)', '(ty List)'],
    'Char': ['(c 97)', '(c 233)'],
    'CharList': ['(cl)', '(cl 97)', '(cl 97 98 99)'],
    'Byte': ['(b 7)', '(b 97)'],
    'ByteList': ['(bl)', '(bl 7)', '(bl 1 2 3)'],
    'Symbol': ['(s 5)', '(s 11)'],
    'SymbolList': ['(syl (s 5) (s 6))', '(syl (s 5) (s 11) (s 7))'],
    'Pair': ['(p (s 5) (i 1))', '(p (i 1) (i 2))', '(p (s 11) (l (i 1) (i 2)))'],
    'Range': ['(r (i 1) (i 4))', '(r (i 0) (i 1))'],
    'Concatenation': ['(cat (i 1) (i 2))', '(cat (l (i 1) (p (s 5) (i 2))) (i 3))'],
    'Slice': ['(sl (l (i 1) (i 2) (i 3)) (r (i 0) (i 2)))'],
    'Partial': ['(pa (e 1) (i 1))', '(pa (i 2) (i 1))'],
    'List': ['(l)', '(l (i 1))', '(l (i 1) (p (s 5) (i 2)) (cl 97))', '(l (p (s 5) (i 1)) (p (s 11) (i 2)))'],
    'Expression': ['(e 1)'],
    'External': ['(x 3)'],
}
TYPES = list(REPS.keys())
BINARY = ['Add', 'Subtract', 'Multiply', 'Divide', 'IntegerDivide', 'Power', 'Remainder', 'BitwiseAnd', 'BitwiseOr', 'BitwiseXor',
          'BitwiseShiftLeft', 'BitwiseShiftRight', 'Xor', 'TypeEqual', 'Equal', 'NotEqual', 'LessThan', 'LessThanOrEqual',
          'GreaterThan', 'GreaterThanOrEqual', 'MakePair', 'Access', 'MakeRange', 'MakeStartExclusiveRange',
          'MakeEndExclusiveRange', 'MakeExclusiveRange', 'Concat', 'PartialApply', 'Apply', 'ApplyType']
UNARY = ['Opposite', 'AbsoluteValue', 'BitwiseNot', 'Not', 'Tis', 'TypeOf', 'AccessLeftInternal', 'AccessRightInternal',
         'AccessLengthInternal', 'EmptyApply', 'And', 'Or', 'JumpIfTrue', 'JumpIfFalse']
STORES = ['simple', 'basic']
MODES = ['absent', 'decline', 'accept']


def type_of_term(t):
    for k, vs in REPS.items():
        if t in vs:
            return k
    return None


def gen_cases(instrs_bin=None, instrs_un=None, stores=STORES, modes=MODES, reps=REPS):
    cases = []
    def add(store, instr, mode, a, b):
        cases.append(['OP', str(len(cases)), store, instr, mode, a, b])
    for instr in (instrs_bin if instrs_bin is not None else BINARY):
        for lt in TYPES:
            for rt in TYPES:
                for a in reps[lt]:
                    for b in reps[rt]:
                        for st in stores:
                            for m in modes:
                                if instr == 'MakePair':
                                    add(st, instr, m, b, a)   # the builder pushes right, then left
                                else:
                                    add(st, instr, m, a, b)
    for instr in (instrs_un if instrs_un is not None else UNARY):
        for lt in TYPES:
            for a in reps[lt]:
                for st in stores:
                    for m in modes:
                        add(st, instr, m, a, '-')
    return cases
