"""OP suite case generation: instruction x ordered type pair x representative values x store x host mode"""
import struct

def fb(x):
    return '(f %016x)' % struct.unpack('<Q', struct.pack('<d', x))[0]

REPS = {
    'Unit': ['U'],
    'True': ['T'],
    'False': ['F'],
    'Number': ['(i 0)', '(i 5)', '(i -3)', fb(1.5), '(i 1)', fb(5.0)],   # 5.0 next to 5: equal magnitude, different kind (interning)
    'Type': ['(ty Number)', '(ty List)'],
    'Char': ['(c 97)', '(c 233)'],
    'CharList': ['(cl)', '(cl 97)', '(cl 97 98 99)'],
    'Byte': ['(b 7)', '(b 97)'],
    'ByteList': ['(bl)', '(bl 7)', '(bl 1 2 3)'],
    'Symbol': ['(s 5)', '(s 11)'],
    'SymbolList': ['(syl (s 5) (s 6))', '(syl (s 5) (s 11) (s 7))'],
    'Pair': ['(p (s 5) (i 1))', '(p (i 1) (i 2))', '(p (s 11) (l (i 1) (i 2)))'],
    'Range': ['(r (i 1) (i 4))', '(r (i 0) (i 1))'],
    'Concatenation': ['(cat (i 1) (i 2))', '(cat (l (i 1) (p (s 5) (i 2))) (i 3))'],
    'Slice': ['(sl (l (i 1) (i 2) (i 3)) (r (i 0) (i 2)))', '(sl (cl 97 98 99) (r (i 0) (i 1)))', '(sl (bl 1 2 3) (r (i 1) (i 2)))'],
    'Partial': ['(pa (e 1) (i 1))', '(pa (i 2) (i 1))'],
    'List': ['(l)', '(l (i 1))', '(l (i 1) (p (s 5) (i 2)) (cl 97))', '(l (p (s 5) (i 1)) (p (s 11) (i 2)))'],
    'Expression': ['(e 1)'],
    'External': ['(x 3)'],
    'Custom': ['(cu)'],        # a host value (GarnishDataType::Custom): declared after False in the enum
}
TYPES = list(REPS.keys())
BINARY = ['Add', 'Subtract', 'Multiply', 'Divide', 'IntegerDivide', 'Power', 'Remainder', 'BitwiseAnd', 'BitwiseOr', 'BitwiseXor',
          'BitwiseShiftLeft', 'BitwiseShiftRight', 'Xor', 'TypeEqual', 'Equal', 'NotEqual', 'LessThan', 'LessThanOrEqual',
          'GreaterThan', 'GreaterThanOrEqual', 'MakePair', 'Access', 'MakeRange', 'MakeStartExclusiveRange',
          'MakeEndExclusiveRange', 'MakeExclusiveRange', 'Concat', 'PartialApply', 'Apply', 'ApplyType']
UNARY = ['Opposite', 'AbsoluteValue', 'BitwiseNot', 'Not', 'Tis', 'TypeOf', 'AccessLeftInternal', 'AccessRightInternal',
         'AccessLengthInternal', 'EmptyApply', 'And', 'Or', 'JumpIfTrue', 'JumpIfFalse']
STORES = ['simple', 'basic']
MODES = ['absent', 'decline', 'accept']


# ---------------------------------------------------------------------------------------------------------
# ApplyType (casts): a matrix of its own.  Left operand = value to convert: several representatives per type
# (empty, singleton, typical, nested, multi-byte text, negative / huge / fractional numbers, descending and
# empty ranges, slices with in-range / out-of-range / descending ranges of every sequence kind).
# Right operand = the target: only its TYPE matters, so every type appears once as a `(ty T)` value and once
# as an ordinary value of that type.
def _txt(s):
    return '(cl' + ''.join(' %d' % ord(c) for c in s) + ')'

_SLICE_RANGES = ['(r (i 0) (i 2))', '(r (i 0) (i 1))', '(r (i 1) (i 2))', '(r (i 1) (i 1))', '(r (i -1) (i 1))',
                 '(r (i -1) (i 2))', '(r (i 2) (i 5))', '(r (i 3) (i 3))', '(r (i 2) (i 1))', '(r (i 5) (i 2))',
                 '(r (i 0) (i -1))', '(r (i 0) (i 0))', '(r ' + fb(0.0) + ' ' + fb(2.0) + ')', '(r ' + fb(0.5) + ' ' + fb(2.5) + ')',
                 '(r (i 0) ' + fb(1.5) + ')', '(r U U)', '(r (i 0) U)', '(r (i 2147483646) (i 2147483647))']
_SLICE_SEQS = ['(l (i 1) (i 2) (i 3))', '(l (p (s 5) (i 1)) (b 7) (l (i 1) (i 2)))', '(l)', _txt('abc'), '(cl 233 8364 128512)', '(cl)',
               '(bl 1 2 3)', '(bl)', '(cat (l (i 1) (i 2)) (i 3))', '(cat (cat (i 1) (l)) (cat (l (i 2) (i 3)) (cl 97)))',
               '(syl (s 5) (s 6) (s 7))']

CAST_REPS = {
    'Unit': ['U'],
    'True': ['T'],
    'False': ['F'],
    'Number': ['(i 0)', '(i 5)', '(i -3)', '(i 1)', '(i 97)', '(i 255)', '(i 256)', '(i 300)', '(i -1)', '(i -200)', '(i 1000000)',
               '(i 2147483647)', '(i -2147483648)', fb(1.5), fb(-0.5), fb(65.0), fb(1e300)],
    'Type': ['(ty Number)', '(ty List)', '(ty Type)', '(ty Unit)', '(ty CharList)'],
    'Char': ['(c 97)', '(c 233)', '(c 8364)', '(c 128512)', '(c 48)', '(c 58)', '(c 0)'],
    'CharList': ['(cl)', '(cl 97)', '(cl 97 98 99)', _txt('12'), _txt('-7'), _txt('+5'), _txt('007'), _txt('-0'), _txt('2147483647'),
                 _txt('2147483648'), _txt('-2147483648'), _txt('-2147483649'), _txt('99999999999999999999'), _txt(' 5'), _txt('5 '),
                 _txt('5a'), _txt('-'), _txt('+'), _txt('+-5'), _txt('1.5'), _txt('1e3'), _txt('0x10'), '(cl 1633 1634)',
                 '(cl 233 8364 128512)', _txt(':ab'), _txt('ab:'), _txt('::a:b::'), _txt(':'), '(cl 10 9)'],
    'Byte': ['(b 0)', '(b 7)', '(b 97)', '(b 255)'],
    'ByteList': ['(bl)', '(bl 7)', '(bl 1 2 3)', '(bl 255 0 128)', '(bl 1 2 3 4 5)'],
    'Symbol': ['(s 5)', '(s 11)', '(s 0)', '(s 18446744073709551615)'],
    'SymbolList': ['(syl (s 5) (s 6))', '(syl (s 5) (s 11) (s 7))', '(syl (s 5) (i 1))', '(syl (i 2) (s 5) ' + fb(1.5) + ')'],
    'Pair': ['(p (s 5) (i 1))', '(p (i 1) (i 2))', '(p (s 11) (l (i 1) (i 2)))', '(p (i 1) (b 7))', '(p (p (i 1) (i 2)) (c 97))',
             '(p (cl 97) (p T (p F U)))', '(p (i 0) (sl (cl 97 98 99) (r (i 1) (i 2))))', '(p (sl (l (i 1) (i 2)) (r (i 0) (i 5))) (syl (s 5) (s 6)))'],
    'Range': ['(r (i 1) (i 4))', '(r (i 0) (i 1))', '(r (i 5) (i 5))', '(r (i 5) (i 2))', '(r (i 3) (i 2))', '(r (i -2) (i 2))',
              '(r (i 2147483645) (i 2147483647))', '(r (i -2147483648) (i 2147483647))', '(r (i -2147483648) (i -2147483646))',
              '(r (i 0) (i 999))', '(r ' + fb(0.5) + ' ' + fb(2.5) + ')', '(r (i 0) ' + fb(2.5) + ')', '(r ' + fb(0.5) + ' (i 3))',
              '(r ' + fb(2.5) + ' ' + fb(0.5) + ')', '(r U U)', '(r (i 1) U)', '(r (cl 97) (i 1))',
              # float ranges (1.5 .. 3.2 is stored with end 4.2), increments absorbed by the float (former hang, /repo 5455df2),
              # ends at i32::MAX
              '(r ' + fb(1.5) + ' ' + fb(4.2) + ')', '(r ' + fb(1.5) + ' ' + fb(3.2) + ')', '(r ' + fb(-1.25) + ' ' + fb(1.0) + ')',
              '(r ' + fb(9007199254740992.0) + ' ' + fb(9007199254740992.0) + ')', '(r ' + fb(9007199254740992.0) + ' ' + fb(9007199254740994.0) + ')',
              '(r ' + fb(1e300) + ' ' + fb(1e300) + ')', '(r (i 2147483647) (i 2147483647))', '(r (i 2147483646) (i 2147483647))',
              '(r ' + fb(2147483645.5) + ' (i 2147483647))', '(r (i 2147483645) ' + fb(2147483647.0) + ')', '(r (i 2147483640) (i 2147483647))'],
    'Concatenation': ['(cat (i 1) (i 2))', '(cat (l (i 1) (p (s 5) (i 2))) (i 3))', '(cat (cat (i 1) (l)) (cat (l (i 2) (i 3)) (cl 97)))',
                      '(cat (l) (l))', '(cat (b 7) (i 1))', '(cat (cl 97 98) (cl 99))',
                      '(cat (sl (cat (i 1) (i 2)) (r (i 0) (i 1))) (i 9))', '(cat (p (i 1) (i 2)) (l (l (i 3))))'],
    'Slice': (['(sl %s %s)' % (v, r) for v in _SLICE_SEQS for r in _SLICE_RANGES] +
              ['(sl (i 5) (r (i 0) (i 1)))', '(sl (sl (l (i 1) (i 2) (i 3)) (r (i 0) (i 2))) (r (i 0) (i 1)))',
               '(sl (l (i 1)) (i 0))', '(sl (l (i 1)) U)', '(sl U (r (i 0) (i 0)))', '(sl (bl 1 2 3) (r (i 0) (i 2147483647)))']),
    'Partial': ['(pa (e 1) (i 1))', '(pa (i 2) (i 1))'],
    'List': ['(l)', '(l (i 1))', '(l (i 1) (p (s 5) (i 2)) (cl 97))', '(l (p (s 5) (i 1)) (p (s 11) (i 2)))',
             '(l (l (i 1) (i 2)) (l) (l (l (i 3))))', '(l (i 1) (b 7) (i 2))', '(l T F U)', '(l (bl 1 2) (syl (s 5) (s 6)) (r (i 1) (i 2)))',
             '(l (sl (l (i 1) (i 2) (i 3)) (r (i 0) (i 1))) (i 9))', '(l (cat (i 1) (i 2)) (pa (i 1) (i 2)) (e 1) (x 2) (ty Number) T)',
             '(l (sl (i 5) (r (i 0) (i 1))) (sl (cl 97 98) (r (i 0) (i 1))) (sl (cat (i 1) (l (i 2) (i 3))) (r (i 1) (i 2))))',
             '(l (l (l (l (l (i 1) (i 2)) (i 3)) (i 4)) (i 5)) (p (p (p (i 1) (i 2)) (i 3)) (i 4)))'],
    'Expression': ['(e 1)', '(e 0)'],
    'External': ['(x 3)'],
}
# target types without values of their own are reachable through `(ty T)` only
CAST_TARGET_TYPES = ['Unit', 'Number', 'Type', 'Char', 'CharList', 'Byte', 'ByteList', 'Symbol', 'SymbolList', 'Pair', 'Range',
                     'Concatenation', 'Slice', 'Partial', 'List', 'Expression', 'External', 'True', 'False', 'Custom', 'Invalid']
CAST_TARGET_VALUE = {'Unit': 'U', 'True': 'T', 'False': 'F', 'Number': '(i 5)', 'Type': None, 'Char': '(c 97)', 'CharList': '(cl 97)',
                     'Byte': '(b 7)', 'ByteList': '(bl 7)', 'Symbol': '(s 5)', 'SymbolList': '(syl (s 5) (s 6))', 'Pair': '(p (i 1) (i 2))',
                     'Range': '(r (i 1) (i 4))', 'Concatenation': '(cat (i 1) (i 2))', 'Slice': '(sl (l (i 1) (i 2) (i 3)) (r (i 0) (i 2)))',
                     'Partial': '(pa (i 2) (i 1))', 'List': '(l (i 1))', 'Expression': '(e 1)', 'External': '(x 3)'}

# Reproducers of candidate defects that hang or exhaust memory; NOT part of the default matrix (the no-hang oracles of
# C07/C08 would trip on them): tools/gen/castgen.py --hazards runs them on their own.
CAST_HAZARDS = [
    # (the float ranges of length 1 whose end absorbs the increment are repaired by /repo 5455df2 and now part of the matrix)
    # absorbed increment AND a huge announced length: `added < len && count <= end` holds for 2^64 rounds on Simple
    ('simple', '(r ' + fb(1e300) + ' ' + fb(2e300) + ')', '(ty List)'),
    ('basic', '(r ' + fb(1e300) + ' ' + fb(2e300) + ')', '(ty List)'),
    # list length announced from the range: allocation of 2 x len cells (Basic), len items (Simple)
    ('basic', '(r (i 0) (i 2147483646))', '(ty List)'),
    ('simple', '(r (i 0) (i 2147483646))', '(ty List)'),
    ('basic', '(r (i 0) ' + fb(1e15) + ')', '(ty List)'),
    # `for i in start..=end` over a slice in SimpleGarnishData's text conversion: 2^31 look-ups
    ('simple', '(sl (l (i 1)) (r (i 0) (i 2147483646)))', '(ty CharList)'),
    ('simple', '(sl (l (i 1)) (r (i 0) (i 2147483646)))', '(ty List)'),
]


PATH_LISTS = ['(l (p (s 5) (l (i 10) (i 20) (i 30))) (p (s 6) (i 5)) (i 77))',
              '(l (i 1) (p (s 5) (l (p (s 6) (l (i 7) (i 8))) (i 9))) (i 88) (i 99))',
              '(l (p (s 5) (cl 97 98 99)) (p (s 6) (p (s 7) (i 1))))',
              '(l (p (s 5) (l)))']
PATH_PATHS = ['(syl (s 5) (i 1))', '(syl (s 5) (i 5))', '(syl (s 5) (i 3))', '(syl (s 5) (i -1))', '(syl (s 6) (i 0))', '(syl (i 0) (s 5))', '(syl (i 1) (s 6) (i 1))',
              '(syl (s 9) (i 0))', '(syl (i 2) (i 0))', '(syl (s 5) (s 6))', '(syl (s 5) (s 6) (i 1))', '(syl (s 5) (s 6) (i 2))', '(syl (s 6) (s 7))', '(syl (s 5) (s 9))']


def cast_targets():
    out = []
    for t in CAST_TARGET_TYPES:
        out.append('(ty %s)' % t)
        if CAST_TARGET_VALUE.get(t):
            out.append(CAST_TARGET_VALUE[t])
    return out


def cast_pairs():
    """(left term, right term) for ApplyType: every left representative x every target"""
    ts = cast_targets()
    return [(a, b) for lt in CAST_REPS for a in CAST_REPS[lt] for b in ts]


def target_type_of_term(t):
    """the type an ApplyType right operand asks for"""
    if t.startswith('(ty '):
        return t[4:-1]
    return type_of_term(t)


def type_of_term(t):
    for k, vs in REPS.items():
        if t in vs:
            return k
    for k, vs in CAST_REPS.items():
        if t in vs:
            return k
    if t.startswith('(ty '):
        return 'Type'
    # structural fallback for terms outside the representative tables
    HEADS = {'U': 'Unit', 'T': 'True', 'F': 'False', '(i': 'Number', '(f': 'Number', '(c': 'Char', '(b': 'Byte', '(s': 'Symbol', '(cl': 'CharList', '(cl)': 'CharList',
             '(bl': 'ByteList', '(bl)': 'ByteList', '(syl': 'SymbolList', '(p': 'Pair', '(l': 'List', '(l)': 'List', '(cat': 'Concatenation', '(r': 'Range', '(sl': 'Slice',
             '(pa': 'Partial', '(e': 'Expression', '(x': 'External', '(cu)': 'Custom'}
    return HEADS.get(t.split(' ', 1)[0])


def gen_cases(instrs_bin=None, instrs_un=None, stores=STORES, modes=MODES, reps=REPS):
    cases = []
    def add(store, instr, mode, a, b):
        cases.append(['OP', str(len(cases)), store, instr, mode, a, b])
    for instr in (instrs_bin if instrs_bin is not None else BINARY):
        if instr == 'ApplyType' and reps is REPS:
            for a, b in cast_pairs():
                for st in stores:
                    for m in modes:
                        add(st, instr, m, a, b)
            continue
        for lt in TYPES:
            for rt in TYPES:
                for a in reps[lt]:
                    for b in reps[rt]:
                        for st in stores:
                            for m in modes:
                                if instr == 'MakePair':
                                    add(st, instr, m, b, a)   # the builder pushes right, then left
                                else:
                                    add(st, instr, m, a, b)
    # symbol-list paths into nested keyed lists (`list <~ (:a . 1)`): keys present / missing, indexes in and out of range of the
    # value reached, a step that reaches a value which cannot be looked into; BasicGarnishData only where the path holds a
    # number (SimpleGarnishData symbol lists cannot hold numbers)
    if reps is REPS:
        for instr in (instrs_bin if instrs_bin is not None else BINARY):
            if instr not in ('Apply', 'Access'):
                continue
            for lst in PATH_LISTS:
                for path in PATH_PATHS:
                    for st in stores:
                        if st == 'simple' and '(i ' in path:
                            continue
                        for m in modes:
                            add(st, instr, m, lst, path)
    for instr in (instrs_un if instrs_un is not None else UNARY):
        for lt in TYPES:
            for a in reps[lt]:
                for st in stores:
                    for m in modes:
                        add(st, instr, m, a, '-')
    return cases
