"""LIST suite (C16): case generation, an oracle that is independent of the Lean model, and a compare script.

Case:   LIST \t id \t store \t term \t queries
Result: `len=… items=[…] nth(-1)=… sym(5)=… acc(1)=… accs(5)=… app(1)=… apps(5)=…`   (see harness/src/lists.rs)

Streams (first letter of the id):
  e  exhaustive: every list up to length 4 (quick) / 5 (thorough) over the six item kinds
     {number, text, symbol, pair keyed by symbol, pair keyed by non-symbol, nested list}, several symbol assignments
     per shape (all keys congruent modulo n, consecutive, extreme values), every key present + absent keys
  r  random larger lists (5..40 items) with adversarial symbols, unit/true/false items, repeated items
  c  concatenations of two / three such lists and of lists with single values (flattened keys distinct)
  d  duplicate keys (outside the property: model comparison at the data level only, no oracle on the duplicated keys)
  x  concatenations whose operands share keys (outside the property: model comparison, no oracle on the shared keys)

`python3 listgen.py [--tier quick|thorough] [--seed N]... [--hbin path]` runs implementation and model on the cases
and reports (a) model disagreements, (b) oracle failures = answers of the real code that differ from the property.
"""
import itertools, os, random, sys, time

sys.path.insert(0, os.path.dirname(os.path.dirname(os.path.abspath(__file__))))

U64 = (1 << 64) - 1
STORES = ['simple', 'basic']
KINDS = ['num', 'text', 'sym', 'kpair', 'npair', 'list']

# ---------------------------------------------------------------- values (python side): nested tuples
#   ('U',) ('T',) ('F',) ('i', n) ('cl', (cp…)) ('s', n) ('p', l, r) ('l', (items…)) ('cat', l, r)


def term(v):
    t = v[0]
    if t in 'UTF':
        return t
    if t == 'i':
        return '(i %d)' % v[1]
    if t == 's':
        return '(s %d)' % v[1]
    if t == 'cl':
        return '(cl' + ''.join(' %d' % c for c in v[1]) + ')'
    if t == 'p':
        return '(p %s %s)' % (term(v[1]), term(v[2]))
    if t == 'l':
        return '(l' + ''.join(' ' + term(x) for x in v[1]) + ')'
    if t == 'cat':
        return '(cat %s %s)' % (term(v[1]), term(v[2]))
    raise ValueError(v)


def key_of(v):
    """symbol key of an item that is a pair keyed by a symbol"""
    if v[0] == 'p' and v[1][0] == 's':
        return v[1][1]
    return None


def flat(v):
    if v[0] == 'l':
        return list(v[1])
    if v[0] == 'cat':
        return flat(v[1]) + flat(v[2])
    return [v]


# ---------------------------------------------------------------- the oracle (property C16, from the item list only)

def oracle(v, queries):
    """expected answer per query, or None where the property says nothing"""
    is_list = v[0] == 'l'
    items = flat(v)
    n = len(items)
    keys = [key_of(x) for x in items]
    out = []
    for q in queries:
        name, _, arg = q.partition(':')
        if name == 'len':
            out.append('len=%d' % n if is_list else None)
        elif name == 'items':
            out.append('items=[%s]' % ','.join(term(x) for x in items))
        elif name == 'nth':
            k = int(arg)
            if not is_list:
                out.append(None)
            else:
                out.append('nth(%d)=%s' % (k, term(items[k]) if 0 <= k < n else 'none'))
        elif name in ('sym', 'accs', 'apps'):
            s = int(arg)
            hits = [items[i][2] for i in range(n) if keys[i] == s]
            if len(hits) > 1 or (name == 'sym' and not is_list) or (name == 'apps' and not is_list):
                out.append(None)          # duplicated key / not a list: outside the property
            elif name == 'sym':
                out.append('sym(%d)=%s' % (s, term(hits[0]) if hits else 'none'))
            else:
                out.append('%s(%d)=%s' % (name, s, term(hits[0]) if hits else 'U'))
        elif name in ('acc', 'app'):
            k = int(arg)
            if name == 'app' and not is_list:
                out.append(None)
            else:
                out.append('%s(%d)=%s' % (name, k, term(items[k]) if 0 <= k < n else 'U'))
        else:
            raise ValueError(q)
    return out


def split_result(line, queries):
    """cut a result line into one segment per query"""
    prefixes = []
    for q in queries:
        name, _, arg = q.partition(':')
        prefixes.append(name + '=' if name in ('len', 'items') else '%s(%s)=' % (name, arg))
    segs = []
    pos = 0
    if line is None or not line.startswith(prefixes[0]) if prefixes else False:
        return None
    for i in range(len(prefixes)):
        if i + 1 < len(prefixes):
            j = line.find(' ' + prefixes[i + 1], pos)
            if j < 0:
                return None
            segs.append(line[pos:j])
            pos = j + 1
        else:
            segs.append(line[pos:])
    return segs


# ---------------------------------------------------------------- generation

def make_item(kind, key, j, rng, depth=0):
    """item of the given kind; `key` is the symbol (keyed pair) / a number that imitates a key elsewhere"""
    if kind == 'num':
        return ('i', rng.choice([0, 1, j, -j, key % 1000 if key is not None else 7]))
    if kind == 'text':
        return ('cl', tuple(rng.choice([97, 98, 233]) for _ in range(rng.randrange(0, 3))))
    if kind == 'sym':
        return ('s', key)                               # an unkeyed symbol item, possibly equal to a key looked up
    if kind == 'kpair':
        val = rng.choice([('i', 100 + j), ('s', key), ('p', ('s', key), ('i', 100 + j)), ('l', (('i', j),)), ('cl', (97 + j % 26,)), ('U',)])
        return ('p', ('s', key), val)
    if kind == 'npair':
        left = rng.choice([('i', key % (1 << 31)), ('cl', (97,)), ('p', ('s', key), ('i', 1)), ('U',)])
        return ('p', left, ('i', 200 + j))
    if kind == 'list':
        inner = rng.choice([(), (('i', j),), (('p', ('s', key), ('i', 300 + j)),), (('i', 1), ('p', ('s', key), ('i', 300 + j)), ('s', key))])
        return ('l', inner)
    if kind == 'unit':
        return rng.choice([('U',), ('T',), ('F',)])
    raise ValueError(kind)


def key_schemes(n, count, rng):
    """`count` distinct symbols, several adversarial ways"""
    n = max(n, 1)
    c = rng.randrange(0, n)
    base = rng.choice([0, 1, 5, 1 << 32, (1 << 63) - 3 * n, U64 - 4 * n * (count + 2)])
    schemes = {
        'consec': [1 + i for i in range(count)],
        'modn': [c + n * (i + 1) for i in range(count)],                       # all congruent modulo n
        'modn_big': [base - base % n + c + n * i for i in range(count)],
        'extreme': ([0, U64, 1, U64 - 1, 1 << 63, (1 << 63) - 1, 1 << 32, (1 << 32) - 1] + [U64 - 2 - i for i in range(count)])[:count],
    }
    return schemes


def absent_keys(n, keys, rng):
    n = max(n, 1)
    cand = [0, U64, 7, n, 2 * n]
    for k in keys[:3]:
        cand += [k + n, k + 1, k ^ (1 << 63), k - 1 if k > 0 else 3]
    cand.append(rng.randrange(0, U64))
    out = []
    for k in cand:
        k &= U64
        if k not in keys and k not in out:
            out.append(k)
    return out[:6]


def list_queries(v, rng, extra_absent=()):
    items = flat(v)
    n = len(items)
    keys = [k for k in (key_of(x) for x in items) if k is not None]
    other = []
    for x in items:                                           # symbols that occur, but not as keys of items
        if x[0] == 's':
            other.append(x[1])
        if x[0] == 'l':
            other += [key_of(y) for y in x[1] if key_of(y) is not None]
    absent = [k for k in absent_keys(n, keys, rng) + other + list(extra_absent) if k not in keys]
    absent = list(dict.fromkeys(absent))
    idx = list(range(-1, n + 2)) if n <= 8 else [-1, 0, 1, n // 2, n - 1, n, n + 1, -(1 << 31), (1 << 31) - 1]
    if n <= 8:
        idx += [-(1 << 31), (1 << 31) - 1]
    qs = ['len', 'items'] + ['nth:%d' % i for i in idx]
    sk = keys if len(keys) <= 12 else rng.sample(keys, 12)
    qs += ['sym:%d' % k for k in sk + absent]
    qs += ['acc:%d' % i for i in idx]
    qs += ['accs:%d' % k for k in sk + absent]
    qs += ['app:%d' % i for i in (idx if n <= 4 else idx[:5])]
    qs += ['apps:%d' % k for k in (sk + absent)[:6]]
    return qs


def dedup_keys_ok(v):
    ks = [key_of(x) for x in flat(v) if key_of(x) is not None]
    return len(ks) == len(set(ks))


def gen_exhaustive(rng, maxlen, add):
    for n in range(0, maxlen + 1):
        for shape in itertools.product(KINDS, repeat=n):
            nk = n  # one symbol per position (used as key for keyed pairs, as look-alike elsewhere)
            schemes = key_schemes(n, nk, rng)
            names = ['modn', rng.choice(['consec', 'modn_big']), 'extreme'] if n else ['consec']
            for sname in names:
                keys = list(schemes[sname])
                real = [keys[j] for j, kind in enumerate(shape) if kind == 'kpair']
                for j, kind in enumerate(shape):
                    # look-alikes: an unkeyed symbol / a number-keyed pair / a nested association that carries
                    # the very symbol that keys another item (they are not keys of the list, so distinctness holds)
                    if kind != 'kpair' and real and rng.random() < 0.5:
                        keys[j] = rng.choice(real)
                items = tuple(make_item(kind, keys[j], j, rng) for j, kind in enumerate(shape))
                v = ('l', items)
                add('e', v, list_queries(v, rng))


def adversarial_keys(n, count, rng):
    mode = rng.choice(['modn', 'modn_big', 'extreme', 'sorted', 'revsorted', 'near', 'random'])
    sch = key_schemes(n, count, rng)
    if mode in sch:
        ks = sch[mode]
    elif mode in ('sorted', 'revsorted'):
        ks = sorted(rng.sample(range(0, 10 * count + 10), count))
        if rng.random() < 0.5:
            ks = [k * max(n, 1) for k in ks]
        if mode == 'revsorted':
            ks.reverse()
    elif mode == 'near':
        b = rng.choice([0, 1 << 62, U64 - 4 * count - 8, rng.randrange(0, U64 >> 1)])
        ks = []
        i = 0
        while len(ks) < count:
            for k in (b + i, (b + i) ^ (1 << 63), (b + i) ^ (1 << 32)):
                if k not in ks and len(ks) < count and 0 <= k <= U64:
                    ks.append(k)
            i += 1
    else:
        ks = []
        while len(ks) < count:
            k = rng.randrange(0, U64 + 1)
            if k not in ks:
                ks.append(k)
    ks = [k & U64 for k in ks]
    if len(set(ks)) != count:                       # wrap-around made two equal: fall back
        ks = [1 + i for i in range(count)]
    if mode not in ('sorted', 'revsorted') and rng.random() < 0.5:
        rng.shuffle(ks)
    return ks


def random_list(rng, lo, hi):
    n = rng.randrange(lo, hi + 1)
    keys = adversarial_keys(n, n, rng)
    pk = rng.choice([0.2, 0.5, 0.9, 1.0])
    items = []
    for j in range(n):
        r = rng.random()
        if r < pk:
            kind = 'kpair'
        else:
            kind = rng.choice(['num', 'text', 'sym', 'npair', 'list', 'unit', 'unit', 'num'])
        items.append(make_item(kind, keys[j], j, rng))
    if rng.random() < 0.3 and n > 1:                # repeated non-keyed items (same address on Simple)
        for _ in range(rng.randrange(1, 4)):
            a, b = rng.randrange(n), rng.randrange(n)
            if key_of(items[a]) is None and key_of(items[b]) is None:
                items[b] = items[a]
    return ('l', tuple(items)), keys


def gen_random(rng, count, add):
    for _ in range(count):
        v, keys = random_list(rng, 5, 40)
        add('r', v, list_queries(v, rng))


def rekey(v, used, rng):
    """make the keys of list v disjoint from `used` (flattened keys of a concatenation must be distinct)"""
    items = []
    for x in v[1]:
        k = key_of(x)
        if k is not None and k in used:
            nk = k
            while nk in used:
                nk = (nk + rng.choice([1, len(v[1]) or 1, 1 << 32])) & U64
            x = ('p', ('s', nk), x[2])
            k = nk
        if k is not None:
            used.add(k)
        items.append(x)
    return ('l', tuple(items))


def gen_concat(rng, count, add, share=False):
    """share=True: the same symbol may key items of different operands (stream x, outside the property:
    the rightmost operand that has the key answers); inside one list the keys stay distinct"""
    for _ in range(count):
        used = set()
        parts = []
        for _ in range(rng.choice([2, 2, 3])):
            r = rng.random()
            if r < 0.7:
                v, _ = random_list(rng, 0, rng.choice([3, 6, 12]))
                if share:
                    pool = sorted(used)
                    its = list(v[1])
                    mine = set(key_of(x) for x in its if key_of(x) is not None)
                    for j, x in enumerate(its):
                        if key_of(x) is not None and pool and rng.random() < 0.5:
                            k = rng.choice(pool)
                            if k not in mine:
                                mine.discard(key_of(x)); mine.add(k)
                                its[j] = ('p', ('s', k), x[2])
                    used |= mine
                    parts.append(('l', tuple(its)))
                else:
                    parts.append(rekey(v, used, rng))
            else:                                     # a single value
                k = rng.randrange(0, 50)
                while k in used and not (share and rng.random() < 0.5):
                    k += 1
                x = make_item(rng.choice(['num', 'text', 'sym', 'kpair', 'npair', 'unit']), k, len(parts), rng)
                if key_of(x) is not None:
                    used.add(k)
                parts.append(x)
        if len(parts) == 2:
            v = ('cat', parts[0], parts[1])
        elif rng.random() < 0.5:
            v = ('cat', ('cat', parts[0], parts[1]), parts[2])
        else:
            v = ('cat', parts[0], ('cat', parts[1], parts[2]))
        items = flat(v)
        n = len(items)
        keys = [key_of(x) for x in items if key_of(x) is not None]
        absent = absent_keys(n, keys, rng)
        idx = list(range(-1, n + 2)) if n <= 10 else [-1, 0, 1, n // 2, n - 1, n, n + 1]
        sk = keys if len(keys) <= 10 else rng.sample(keys, 10)
        qs = ['len', 'items', 'nth:0'] + ['sym:%d' % k for k in sk[:1]]
        qs += ['acc:%d' % i for i in idx] + ['accs:%d' % k for k in sk + absent]
        qs += ['app:0'] + ['apps:%d' % k for k in sk[:1]]
        add('x' if share else 'c', v, qs)


def gen_dups(rng, count, add):
    """duplicate keys: what each store answers is whatever its layout gives; data level only"""
    for _ in range(count):
        v, keys = random_list(rng, 2, 12)
        items = list(v[1])
        kp = [i for i, x in enumerate(items) if key_of(x) is not None]
        if len(kp) < 2:
            continue
        for _ in range(rng.randrange(1, 3)):
            a, b = rng.sample(kp, 2)
            items[b] = ('p', ('s', key_of(items[a])), items[b][2])
        v = ('l', tuple(items))
        n = len(items)
        ks = list(dict.fromkeys(key_of(x) for x in items if key_of(x) is not None))
        qs = ['len', 'items'] + ['nth:%d' % i for i in range(-1, n + 1)] + ['sym:%d' % k for k in ks + absent_keys(n, ks, rng)[:2]]
        add('d', v, qs)


def gen_cases(seed, tier='quick'):
    """returns (cases, meta): cases = [['LIST', id, store, term, queries]], meta[id] = (value, query list)"""
    rng = random.Random(seed * 7919 + 16)
    cases = []
    meta = {}

    def add(stream, v, qs):
        if stream not in 'dx' and not dedup_keys_ok(v):
            return
        t = term(v)
        for st in STORES:
            cid = '%s%d' % (stream, len(cases))
            cases.append(['LIST', cid, st, t, ' '.join(qs)])
            meta[cid] = (v, qs)

    maxlen = 4 if tier == 'quick' else 5
    gen_exhaustive(rng, maxlen, add)
    nrand = 1500 if tier == 'quick' else 6000
    gen_random(rng, nrand, add)
    gen_concat(rng, nrand, add)
    gen_dups(rng, nrand // 3, add)
    gen_concat(rng, nrand // 3, add, share=True)
    return cases, meta


# ---------------------------------------------------------------- compare script

def check(cases, meta, impl, model):
    """returns (model_disagreements, oracle_failures, n_queries_checked)"""
    dis, ofail = [], []
    nq = 0
    for c in cases:
        cid = c[1]
        ri, rm = impl.get(cid), model.get(cid)
        if ri is None or ri != rm:
            dis.append((c, ri, rm))
        v, qs = meta[cid]
        exp = oracle(v, qs)
        segs = split_result(ri, qs) if ri is not None else None
        if segs is None:
            ofail.append((c, '<whole line>', 'parsable result', ri))
            continue
        for q, e, s in zip(qs, exp, segs):
            if e is None:
                continue
            nq += 1
            if e != s:
                ofail.append((c, q, e, s))
    return dis, ofail, nq


def classify(f):
    """triage class of an oracle failure (store, query kind, what happened)"""
    c, q, e, s = f
    name = q.partition(':')[0]
    got = s.split('=', 1)[1] if '=' in s else s
    exp = e.split('=', 1)[1] if '=' in e else e
    if got == 'err':
        what = 'error'
    elif exp in ('none', 'U'):
        what = 'item-where-none'
    elif got in ('none', 'U'):
        what = 'none-where-item'
    else:
        what = 'wrong-item'
    rng = ''
    if name in ('nth', 'acc', 'app'):
        k = int(q.partition(':')[2])
        n = len(flat(meta_value(c)))
        rng = 'neg' if k < 0 else ('beyond' if k >= n else 'inrange')
    return '%s %s %s %s' % (c[2], name, rng, what)


_META = {}


def meta_value(c):
    return _META[c[1]][0]


def main():
    import vlib
    a = sys.argv[1:]
    tier = 'quick'
    seeds = []
    i = 0
    while i < len(a):
        if a[i] == '--tier':
            tier = a[i + 1]; i += 1
        elif a[i] == '--seed':
            seeds.append(int(a[i + 1])); i += 1
        elif a[i] == '--hbin':
            vlib.HBIN = a[i + 1]; i += 1
        i += 1
    seeds = seeds or [0]
    total = tq = 0
    all_dis, all_of = [], []
    classes = {}
    for seed in seeds:
        t0 = time.time()
        cases, meta = gen_cases(seed, tier)
        _META.clear(); _META.update(meta)
        t1 = time.time()
        impl = vlib.run_impl(cases, f'list{seed}')
        t2 = time.time()
        model = vlib.run_model(cases, f'list{seed}')
        t3 = time.time()
        dis, ofail, nq = check(cases, meta, impl, model)
        total += len(cases); tq += nq
        streams = {}
        for c in cases:
            streams[c[1][0]] = streams.get(c[1][0], 0) + 1
        for f in ofail:
            k = classify(f) if f[1] != '<whole line>' else '%s whole-line %s' % (f[0][2], (f[3] or 'missing').split(' ')[0])
            classes.setdefault(k, []).append((seed, f))
        print(f'seed {seed}: {len(cases)} cases ({", ".join(f"{k}={v}" for k, v in sorted(streams.items()))}), '
              f'{len(dis)} model disagreements, {len(ofail)} oracle failures on {nq} checked answers; '
              f'gen {t1 - t0:.1f}s impl {t2 - t1:.1f}s model {t3 - t2:.1f}s')
        all_dis += [(seed,) + d for d in dis]
        all_of += ofail
    print(f'cases: {total}   oracle-checked answers: {tq}')
    print(f'model disagreements: {len(all_dis)}')
    for seed, c, ri, rm in sorted(all_dis, key=lambda d: len(d[1][3]))[:8]:
        print(f'  seed={seed} id={c[1]} store={c[2]} term={c[3]} queries={c[4]}\n    impl : {ri}\n    model: {rm}')
    print(f'oracle failures: {len(all_of)}')
    for k, fs in sorted(classes.items()):
        seed, (c, q, e, s) = min(fs, key=lambda x: len(x[1][0][3]))
        print(f'  [{len(fs)}] {k}: shortest  LIST {c[2]} {c[3]}  {q}: expected {e}, got {s}')
    sys.exit(1 if all_dis else 0)


if __name__ == '__main__':
    main()
