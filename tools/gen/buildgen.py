#!/usr/bin/env python3
"""Case generators for the BUILD / LIT / SYM correspondence suites
(builder model vs garnish_lang_compiler::build::build, literal parsers, symbol_value).

gen_cases(seed, tier) -> rows
  ['BUILD', id, store, n_pre, tok, ...]   tok = `TypeName,<escaped text>` (as in the PARSE suite)
  ['LIT', id, kind, <escaped text>]        kind = number | charlist | bytelist | symbol
  ['SYM', id, <escaped name>]
Streams (id prefix):
  g   random well-formed programs over the whole core language, pretty-printed directly to token lists
      (every program on both stores and n_pre = 0, 1, 2)
  gm  the same programs with small random damage (one store / n_pre each)
  x   hand-written shapes: known hangs / panics / dropped nodes / terminator-skip shapes
  e p w s   parsegen.py's streams (exhaustive short sequences, operator pairs, well-formed-looking, soups) with
      literal token texts replaced by varied spellings; one (store, n_pre) per row, rotating
  ln lc lb ls   literal stress (numbers, char lists, byte lists, symbols)
  y   symbol names
__main__: generates, runs the Rust harness and the Lean driver, prints case count, disagreements, first 20.
   usage: buildgen.py [seed ...] [--tier quick|thorough] [--streams g,x,...] [--drv PATH]
A result pair agrees when the strings are equal, or impl `HANG`/`ABORT..` with model `FUELOUT`, or both `PANIC ..`.
"""
import itertools
import os
import random
import sys

HERE = os.path.dirname(os.path.abspath(__file__))
sys.path.insert(0, os.path.dirname(HERE))
import vlib  # noqa: E402
from gen import parsegen  # noqa: E402
from gen.parsegen import TEXT  # noqa: E402

STORES = ('simple', 'basic')


def tk(ty, text=None):
    return ty + ',' + vlib.esc(TEXT[ty] if text is None else text)


# ------------------------------------------------------------------ literal spellings

def rand_int_text(rng):
    r = rng.random()
    if r < 0.45:
        return str(rng.randint(0, 20))
    if r < 0.6:
        return str(rng.choice((2147483647, 2147483648, 2147483646, 4294967295, 4294967296, 999999999999, 0, 1, 255, 256)))
    if r < 0.7:
        s = str(rng.randint(0, 10 ** rng.randint(1, 12)))
        # visual separators
        out = []
        for ch in s:
            out.append(ch)
            if rng.random() < 0.3:
                out.append('_')
        return ''.join(out)
    if r < 0.8:
        return '0' * rng.randint(1, 3) + str(rng.randint(0, 999))
    return str(rng.randint(0, 2 ** 31))


DIGITS36 = '0123456789abcdefghijklmnopqrstuvwxyz'


def in_radix(n, radix, rng):
    if n == 0:
        return '0'
    out = []
    while n:
        d = DIGITS36[n % radix]
        out.append(d.upper() if rng.random() < 0.5 else d)
        n //= radix
    return ''.join(reversed(out))


def rand_radix_text(rng):
    radix = rng.choice((2, 8, 16, 36, 3, 7, 10, 20, 30, 12, 1, 37, 0, rng.randint(2, 36)))
    n = rng.choice((0, 1, 255, 2 ** 31 - 1, 2 ** 31, rng.randint(0, 2 ** 16), rng.randint(0, 2 ** 32)))
    body = in_radix(n, max(2, min(36, radix)), rng)
    if rng.random() < 0.3 and len(body) > 1:
        i = rng.randrange(1, len(body))
        body = body[:i] + '_' + body[i:]
    lead = '0' * rng.choice((1, 1, 1, 2, 0))
    return f'{lead}{radix}_{body}'


def rand_float_text(rng):
    r = rng.random()
    if r < 0.4:
        return f'{rng.randint(0, 999)}.{rng.randint(0, 999)}'
    if r < 0.5:
        return f'{rng.randint(0, 9)}.{"".join(rng.choice("0123456789") for _ in range(rng.randint(1, 25)))}'
    if r < 0.6:
        return f'{rng.randint(1, 99)}e{rng.randint(0, 30)}'
    if r < 0.7:
        return f'{rng.randint(0, 99)}.{rng.randint(0, 99)}e{rng.choice(("", "-", "+"))}{rng.randint(0, 320)}'
    if r < 0.75:
        return '.' + str(rng.randint(0, 999))
    if r < 0.8:
        return str(rng.randint(0, 999)) + '.'
    if r < 0.9:
        return ''.join(rng.choice('0123456789') for _ in range(rng.randint(10, 40)))
    return f'{rng.randint(0, 9)}_{rng.randint(0, 9)}.{rng.randint(0, 9)}_{rng.randint(0, 9)}'


def rand_number_text(rng):
    r = rng.random()
    if r < 0.6:
        return rand_int_text(rng)
    if r < 0.8:
        return rand_radix_text(rng)
    return rand_float_text(rng)


CHAR_POOL = ['a', 'b', ' ', 'z', '0', '1', 'n', 't', 'u', '{', '}', '4', '1', 'é', '€', '😀', '\n', '\t', '\\', '"', "'", '_', ':']


def rand_body(rng, quote, maxlen=8):
    out = []
    for _ in range(rng.randint(0, maxlen)):
        r = rng.random()
        if r < 0.12:
            out.append('\\' + rng.choice(('n', 't', 'r', '0', '\\', quote, 'x', 'q', 'u{41}', 'u{1F600}', 'u{d800}', 'u{110000}', 'u{}')))
        else:
            out.append(rng.choice(CHAR_POOL))
    return ''.join(out)


def rand_charlist_text(rng, wild=False):
    q = rng.choice((1, 1, 1, 1, 3, 3, 4, 2))
    if q == 2:
        return '""'
    body = rand_body(rng, '"')
    if q == 1:
        # an unescaped quote would end a 1-quote literal in the lexer; keep it only when wild
        if not wild:
            body = body.replace('\\"', '\0').replace('"', 'q').replace('\0', '\\"')
    if wild and rng.random() < 0.3:
        return '"' * q + body + '"' * rng.randint(0, 5)
    return '"' * q + body + '"' * q


def rand_bytelist_text(rng, wild=False):
    r = rng.random()
    if r < 0.5:
        body = rand_body(rng, "'")
        if not wild:
            body = body.replace("\\'", '\0').replace("'", 'q').replace('\0', "\\'")
        return "'" + body + "'"
    if r < 0.55:
        return "''"
    q = rng.choice((2, 2, 3, 4))
    if r < 0.9:
        nums = [str(rng.choice((0, 1, 255, 256, 10, rng.randint(0, 300)))) for _ in range(rng.randint(0, 5))]
        sep = ' ' if rng.random() < 0.8 else rng.choice(('  ', ',', '_', ' _'))
        body = sep.join(nums)
        if rng.random() < 0.15:
            body = ' ' + body
        if rng.random() < 0.15:
            body = body + ' '
        if rng.random() < 0.1:
            body = rand_radix_text(rng)
    else:
        body = rand_body(rng, "'")
    if wild and rng.random() < 0.3:
        return "'" * q + body + "'" * rng.randint(0, 5)
    return "'" * q + body + "'" * q


IDENT_POOL = ['a', 'b', 'c', 'x', 'value', 'my_value', 'x1', 'foo', 'a:b', 'é', '_a', 'a_', 'List', 'n']


def rand_ident(rng):
    return rng.choice(IDENT_POOL)


def rand_symbol_text(rng):
    r = rng.random()
    if r < 0.85:
        return ':' + rand_ident(rng)
    return rng.choice((':', '::a', ':a:', ':a::b', ':1', ':_'))


def literal_text(rng, ty, wild=False):
    if ty == 'Number':
        return rand_number_text(rng)
    if ty == 'CharList':
        return rand_charlist_text(rng, wild)
    if ty == 'ByteList':
        return rand_bytelist_text(rng, wild)
    if ty == 'Symbol':
        return rand_symbol_text(rng)
    if ty == 'Identifier':
        return rand_ident(rng)
    if ty == 'PrefixIdentifier':
        return rand_ident(rng) + '`'
    if ty == 'SuffixIdentifier':
        return '`' + rand_ident(rng)
    if ty == 'InfixIdentifier':
        return '`' + rand_ident(rng) + '`'
    return TEXT[ty]


# ------------------------------------------------------------------ stream g: pretty-printed programs

BINARY = ['PlusSign', 'Subtraction', 'MultiplicationSign', 'Division', 'IntegerDivision', 'ExponentialSign', 'Remainder',
          'BitwiseAnd', 'BitwiseOr', 'BitwiseXor', 'BitwiseLeftShift', 'BitwiseRightShift', 'Xor', 'Equality', 'Inequality',
          'LessThan', 'LessThanOrEqual', 'GreaterThan', 'GreaterThanOrEqual', 'TypeCast', 'TypeEqual', 'Range',
          'StartExclusiveRange', 'EndExclusiveRange', 'ExclusiveRange', 'Concatenation', 'PartialApply']
PREFIX = ['AbsoluteValue', 'Opposite', 'BitwiseNot', 'Not', 'Tis', 'TypeOf', 'LeftInternal']
SUFFIX = ['EmptyApply', 'RightInternal', 'LengthInternal']
ATOMS = ['Number', 'Number', 'Number', 'Identifier', 'Identifier', 'Symbol', 'UnitLiteral', 'Value', 'CharList', 'ByteList',
         'True', 'False']


class ProgGen:
    """random programs as token lists; `lit(ty)` chooses the spelling of literal tokens"""

    def __init__(self, rng):
        self.rng = rng

    def t(self, ty):
        return tk(ty, literal_text(self.rng, ty))

    def sp(self, p=0.8):
        if self.rng.random() < p:
            return [tk('Whitespace', self.rng.choice((' ', ' ', ' ', '  ', '\t', '\n')))]
        return []

    def side_effect(self, depth):
        body = self.seq(depth - 1) if self.rng.random() < 0.9 else []
        return [tk('StartSideEffect')] + self.sp(0.3) + body + self.sp(0.3) + [tk('EndSideEffect')]

    def atom(self, depth):
        r = self.rng.random()
        if depth > 0:
            if r < 0.10:
                inner = self.seq(depth - 1) if self.rng.random() < 0.9 else []
                return [tk('StartGroup')] + self.sp(0.2) + inner + self.sp(0.2) + [tk('EndGroup')]
            if r < 0.20:
                inner = self.seq(depth - 1) if self.rng.random() < 0.9 else []
                return [tk('StartExpression')] + self.sp(0.4) + inner + self.sp(0.4) + [tk('EndExpression')]
        if r < 0.27:
            out = [self.t('Identifier')]
            for _ in range(self.rng.randint(1, 3)):
                out += [tk('Period'), self.t(self.rng.choice(('Identifier', 'Identifier', 'Number', 'Symbol')))]
            return out
        if r < 0.274:
            return [tk('ExpressionTerminator')]
        return [self.t(self.rng.choice(ATOMS))]

    def term(self, depth):
        out = []
        if depth > 0 and self.rng.random() < 0.07:
            out += self.side_effect(depth) + self.sp(0.7)
            if self.rng.random() < 0.3:
                out += self.side_effect(depth) + self.sp(0.7)
        r = self.rng.random()
        if r < 0.04:
            out += [self.t('PrefixIdentifier')] + self.sp(0.3)
        elif r < 0.07 and depth > 0:
            out += [tk('Reapply')] + self.sp(0.6)
        while self.rng.random() < 0.12:
            out += [tk(self.rng.choice(PREFIX))] + self.sp(0.3)
        out += self.atom(depth)
        while self.rng.random() < 0.10:
            out += self.sp(0.3) + [tk(self.rng.choice(SUFFIX))]
        if self.rng.random() < 0.04:
            out += self.sp(0.5) + [self.t('SuffixIdentifier')]
        if depth > 0 and self.rng.random() < 0.08:
            out += self.sp(0.7) + self.side_effect(depth)
            if self.rng.random() < 0.35:
                out += self.sp(0.7) + self.side_effect(depth)
        return out

    def operation(self, depth):
        out = self.term(depth)
        for _ in range(self.rng.choice((0, 0, 1, 1, 2, 3))):
            r = self.rng.random()
            if r < 0.55:
                op = [tk(self.rng.choice(BINARY))]
            elif r < 0.65:
                op = [tk('Pair')]
            elif r < 0.73:
                op = [tk('Apply')]
            elif r < 0.81:
                op = [tk('ApplyTo')]
            elif r < 0.88:
                op = [tk(self.rng.choice(('And', 'Or')))]
            elif r < 0.94:
                op = [self.t('InfixIdentifier')]
            else:
                op = [tk('Period')]
            out += self.sp() + op + self.sp() + self.term(depth)
        return out

    def listy(self, depth):
        r = self.rng.random()
        if r < 0.7:
            return self.operation(depth)
        out = self.operation(depth)
        kind = self.rng.random()
        for _ in range(self.rng.randint(1, 4)):
            if kind < 0.4 or (kind > 0.8 and self.rng.random() < 0.5):
                out += [tk('Whitespace', ' ')]
            else:
                out += self.sp(0.3) + [tk('Comma')] + self.sp(0.7)
            out += self.operation(depth)
        if self.rng.random() < 0.1:
            out += self.sp(0.2) + [tk('Comma')]
        return out

    def cond(self, depth):
        r = self.rng.random()
        if depth <= 0 or r < 0.8:
            return self.listy(depth)
        jump = lambda: tk(self.rng.choice(('JumpIfTrue', 'JumpIfTrue', 'JumpIfFalse')))  # noqa: E731
        out = self.listy(depth - 1) + self.sp() + [jump()] + self.sp() + self.listy(depth - 1)
        while self.rng.random() < 0.5:
            out += self.sp() + [tk('ElseJump')] + self.sp() + self.listy(depth - 1)
            if self.rng.random() < 0.65:
                out += self.sp() + [jump()] + self.sp() + self.listy(depth - 1)
        return out

    def seq(self, depth):
        out = self.cond(depth)
        while self.rng.random() < 0.25:
            r = self.rng.random()
            if r < 0.45:
                out += [tk('Subexpression', self.rng.choice(('\n\n', '\n\n\n', '\n \n')))]
            elif r < 0.985:
                out += self.sp(0.4) + [tk('ExpressionSeparator')] + self.sp(0.5)
            else:
                out += self.sp(0.4) + [tk('ExpressionTerminator')] + self.sp(0.4)
            out += self.cond(depth)
        return out

    def program(self):
        toks = self.seq(self.rng.choice((1, 2, 2, 3)))
        if self.rng.random() < 0.1:
            toks = [tk('Whitespace', '\n')] + toks
        if self.rng.random() < 0.1:
            toks = toks + [tk(self.rng.choice(('Whitespace', 'Subexpression')))]
        if self.rng.random() < 0.05:
            toks = [tk('LineAnnotation')] + toks
        return toks


ALL_TYPES = list(TEXT.keys())


def mutate(rng, toks):
    toks = list(toks)
    for _ in range(rng.choice((1, 1, 2, 3))):
        if not toks:
            break
        i = rng.randrange(len(toks))
        r = rng.random()
        if r < 0.35:
            del toks[i]
        elif r < 0.7:
            ty = rng.choice(ALL_TYPES)
            toks.insert(i, tk(ty, literal_text(rng, ty, wild=True)))
        elif r < 0.85:
            ty = rng.choice(ALL_TYPES)
            toks[i] = tk(ty, literal_text(rng, ty, wild=True))
        else:
            j = rng.randrange(len(toks))
            toks[i], toks[j] = toks[j], toks[i]
    return toks


def gen_programs(seed, tier):
    rng = random.Random(seed * 7368787 + 29)
    g = ProgGen(rng)
    count = 60000 if tier == 'thorough' else 14000
    rows = []
    n = 0
    while n < count:
        toks = g.program()
        if len(toks) > 60:
            continue
        for store in STORES:
            for n_pre in (0, 1, 2):
                rows.append(['BUILD', f'g{n}.{store[0]}{n_pre}', store, str(n_pre), *toks])
        if rng.random() < 0.5:
            m = mutate(rng, toks)
            rows.append(['BUILD', f'gm{n}', rng.choice(STORES), str(rng.choice((0, 1, 2))), *m])
        n += 1
    return rows


# ------------------------------------------------------------------ stream x: fixed shapes

def lex_simple(src):
    """tiny tokenizer for the hand-written shapes below: space separated words"""
    table = {v: k for k, v in TEXT.items() if v and k not in ('Number', 'Identifier', 'Symbol', 'CharList', 'ByteList')}
    out = []
    words = src.split(' ')
    for i, w in enumerate(words):
        if i > 0:
            out.append(tk('Whitespace', ' '))
        if w == '':
            continue
        if w == '\\n\\n':
            out.append(tk('Subexpression', '\n\n'))
        elif w in table:
            out.append(tk(table[w]))
        elif w[0].isdigit():
            out.append(tk('Number', w))
        elif w[0] == ':':
            out.append(tk('Symbol', w))
        elif w[0] == '"':
            out.append(tk('CharList', w))
        elif w[0] == "'":
            out.append(tk('ByteList', w))
        elif w.endswith('`') and w.startswith('`'):
            out.append(tk('InfixIdentifier', w))
        elif w.endswith('`'):
            out.append(tk('PrefixIdentifier', w))
        elif w.startswith('`'):
            out.append(tk('SuffixIdentifier', w))
        else:
            out.append(tk('Identifier', w))
    return out


SHAPES = [
    '', '5', '5 + 5', '5 + + 5', '5 ;; 6', '5 + @a', '1 [ 2 ] [ 3 ]', '[ 1 ] 2', '[ 1 ] [ 2 ] 3', '1 [ 2 ]', '[ 1 ]', '[ ]',
    '{ }', '{ 5 }', '{ { } }', '{ } { }', '( )', '( ) ( )', '{ ( ) }', '1 ?> 2', '1 ?> 2 |> 3', '1 ?> 2 |> 3 ?> 4',
    '1 ?> 2 |> 3 ?> 4 |> 5', '1 !> ( )', '1 ?> ( ) |> 2 ?> ( )', '1 && 2', '1 || 2', '1 && ( )', '1 ?> 2 && 3', '1 && 2 ?> 3',
    '( 1 ?> 2 ) && 3', '1 ?> 2 |> 3 && 4', '^~ 1', '{ ^~ 1 }', '^~', 'a . b', 'a . b . c', 'a . 1', '1 2 3', '1 , 2 , 3',
    '1 2 , 3 4', '( 1 2 ) 3', '1 ,', ', 1', 'f` 1', '1 `f', '1 `f` 2', '1 = 2', '1 = 2 = 3', '1 ~> 2', '1 <~ 2', '1 ~~',
    '_. 1', '1 ._', '1 .|', '1 ; 2', '1 \\n\\n 2', '1 ; 2 ; 3', ';; 1', '1 ;;', '{ 1 ; }', '{ ; 1 }', '$', '$? $!', '( ) 1',
    '{ 1 } ~~', '{ 1 ?> 2 }', '{ 1 && 2 }', '1 ?> { 2 }', '{ 1 } { 2 }', '1 ?> 2 ; 3', '1 ; 2 ?> 3', '1 ?> ;; |> 2',
    '1 ?> 2 |> ;;', '1 && ;;', ';;', ';; ;;', '{ ;; }', '( ;; )', '1 ?> ( ;; )', '1 && ( ;; )',
    # repo commit df89d39: an empty nested expression inside an out-of-line root names the containing expression
    '1 ?> { }', '1 !> { }', '1 ?> { } |> 2', '1 ?> 2 |> { }', '1 ?> { } |> { }', '1 ?> 2 |> 3 ?> { }', '1 && { }', '1 || { }',
    '1 && 2 && { }', '1 && { } || { }', '{ 1 ?> { } }', '{ 1 && { } }', '{ 1 || { } }', '{ 1 ?> 2 |> { } }',
    '{ $ == 1 ?> { } } ~ 1', '( { $ == 1 ?> { } } ~ 1 ) ~ 0', '{ 1 ?> { { } } }', '{ 1 ?> { 2 ?> { } } }', '1 ?> ( { } )',
    '1 ?> { } + 1', '1 ?> 1 + { }', '1 ?> { } { }', '1 ?> { } , { }', '{ } ?> { }', '{ } && { }', '{ { } ?> { } }',
    '{ 1 ?> { } |> 3 ?> { } |> { } }', '1 ?> [ { } ] 2', '{ 1 ?> ^~ { } }', '1 ?> { } ; { }', '{ 1 ; 2 ?> { } ; { } }',
    '{ { 1 && { } } ?> { } }', '1 ?> { 2 && { } }',
]


def gen_shapes(seed, tier):
    rows = []
    for i, src in enumerate(SHAPES):
        toks = lex_simple(src)
        for store in STORES:
            for n_pre in (0, 1, 2):
                rows.append(['BUILD', f'x{i}.{store[0]}{n_pre}', store, str(n_pre), *toks])
    # one-token programs of every token type, with odd literal texts
    n = 0
    for ty in ALL_TYPES:
        for text in (TEXT[ty], '', 'é', ':', '`', '"', "'"):
            rows.append(['BUILD', f'xo{n}', STORES[n % 2], str(n % 3), tk(ty, text)])
            n += 1
    return rows


# ------------------------------------------------------------------ parsegen streams with literal texts

def retext(rng, field):
    ty, _, _ = field.partition(',')
    if ty in ('Number', 'CharList', 'ByteList', 'Symbol', 'Identifier', 'PrefixIdentifier', 'SuffixIdentifier', 'InfixIdentifier') \
            and rng.random() < 0.6:
        return tk(ty, literal_text(rng, ty, wild=rng.random() < 0.1))
    return field


def gen_from_parsegen(stream):
    def fn(seed, tier):
        rng = random.Random(seed * 99991 + ord(stream))
        rows = []
        src = parsegen.gen_cases(seed, tier, streams=[stream])
        # the quick tier samples the big streams
        cap = {'e': 20000, 's': 30000}.get(stream, 60000)
        if tier != 'thorough' and len(src) > cap:
            src = rng.sample(src, cap)
        for k, row in enumerate(src):
            toks = [retext(rng, f) for f in row[2:]]
            rows.append(['BUILD', row[1], STORES[k % 2], str((k // 2) % 3), *toks])
        return rows
    return fn


# ------------------------------------------------------------------ literal stress

def gen_lit_numbers(seed, tier):
    rng = random.Random(seed * 1299709 + 1)
    texts = ['', '0', '00', '010_5', '020_11', '030_11', '016_ff', '016_FF', '02_1010101', '036_C7R', '01_1010101', '037_1', '0_1',
             '00_1', '1_', '_1', '_', '__', '1__2', '2147483647', '2147483648', '-2147483648', '-2147483649', '+5', '-5', '+', '-',
             '+-5', '1.5', '.5', '5.', '.', '1e5', '1E5', '1e', '1e+', '1e-5', '1.5e300', '1e400', '1e-400', 'inf', '-inf', 'Infinity',
             'infinity', 'nan', 'NaN', '-nan', 'infx', '0x10', '1.5.2', '1..2', '1 ', ' 1', '٣', '1٣', '0٣_1', '0+16_ff', '0-16_ff',
             '016_-ff', '016_+ff', '016__f_f', '010_1.5', '016_1.5', '1_000.5', '1_0e1_0', '9007199254740993', '9007199254740992.5',
             '0.1', '0.30000000000000004', '123456789012345678901234567890', '4.9e-324', '2.4703282292062327e-324',
             '2.4703282292062328e-324', '1.7976931348623157e308', '1.7976931348623159e308', '1e309', '2.2250738585072011e-308',
             '2.2250738585072014e-308', '8.98846567431158e307', '0e999999999999', '1e99999999999999999999', '1e-99999999999999999999',
             '036_zzzzzz', '036_zzzzzzz', '02_' + '1' * 31, '02_' + '1' * 32, '-02_1', '02_-1', '00016_ff', '0160_ff', '016', '0016_f']
    count = 60000 if tier == 'thorough' else 25000
    alphabet = '0123456789' * 3 + '__+-..eEafzFZ x'
    while len(texts) < count:
        r = rng.random()
        if r < 0.25:
            texts.append(rand_number_text(rng))
        elif r < 0.5:
            # random decimal strings: significant digits and exponents of every size
            nd = rng.randint(1, 30)
            digits = ''.join(rng.choice('0123456789') for _ in range(nd))
            if rng.random() < 0.7:
                i = rng.randint(0, nd)
                digits = digits[:i] + '.' + digits[i:]
            if rng.random() < 0.6:
                digits += rng.choice('eE') + rng.choice(('', '-', '+')) + str(rng.randint(0, rng.choice((5, 30, 330, 400))))
            texts.append(rng.choice(('', '', '-', '+')) + digits)
        elif r < 0.6:
            # halfway cases: exact decimal expansion of (2k+1)/2 ulp
            import fractions
            e = rng.randint(-40, 40)
            m = rng.randint(2 ** 52, 2 ** 53 - 1) * 2 + 1
            v = fractions.Fraction(m) * fractions.Fraction(2) ** (e - 1)
            if v.denominator == 1:
                s = str(v.numerator)
            else:
                k = (v.denominator.bit_length() - 1)
                num = v.numerator * 5 ** k
                s = str(num).rjust(k + 1, '0')
                s = s[:-k] + '.' + s[-k:]
            if rng.random() < 0.5:
                s = s[:-1] + str((int(s[-1]) + rng.choice((1, 9))) % 10) if s[-1].isdigit() else s
            texts.append(s)
        elif r < 0.75:
            texts.append(''.join(rng.choice(alphabet) for _ in range(rng.randint(0, 10))))
        elif r < 0.85:
            texts.append(rand_radix_text(rng))
        else:
            import struct
            bits = rng.getrandbits(64)
            f = struct.unpack('<d', struct.pack('<Q', bits))[0]
            if f != f or f in (float('inf'), float('-inf')):
                continue
            f = abs(f)
            texts.append(repr(f) if rng.random() < 0.5 else '%.*e' % (rng.randint(0, 25), f))
    return [['LIT', f'ln{i}', 'number', vlib.esc(t)] for i, t in enumerate(texts)]


def gen_lit_charlists(seed, tier):
    rng = random.Random(seed * 15485867 + 2)
    texts = []
    small = ['a', '"', '\\', '\n', 'é', '€', '😀', 'n', 'u', '{', '}', '4', '1', ' ']
    for k in range(0, 4):
        for combo in itertools.product(small[:9] if k == 3 else small, repeat=k):
            body = ''.join(combo)
            for q in (0, 1, 2, 3, 4):
                texts.append('"' * q + body + '"' * q)
    texts += ['"\\u{41}"', '"\\u{1F600}"', '"\\u{d800}"', '"\\u{110000}"', '"\\u{}"', '"\\u{-1}"', '"\\u{02_1}"', '"\\u{0_1}"',
              '"\\u{41"', '"\\u41}"', '"\\u{{41}}"', '"\\u{ffffffff}"', '"\\u{7fffffff}"', '"\\u{80000000}"', '"\\u{1.5}"',
              '"a\\', '"\\"', '"""a"b"""', '"""a""b"""', '""""a""""', '"a', 'a"', '"', '""', '"""', '""""', '"""""', '""a', '""a"',
              '"\\u{010_65}"', '"\\u{016_41}"', '"\\u{+41}"', '"tab\there"', '"""tab\there"""', '"\\r\\0"']
    count = 20000 if tier == 'thorough' else 8000
    while len(texts) < count:
        texts.append(rand_charlist_text(rng, wild=rng.random() < 0.3))
    return [['LIT', f'lc{i}', 'charlist', vlib.esc(t)] for i, t in enumerate(texts)]


def gen_lit_bytelists(seed, tier):
    rng = random.Random(seed * 32452843 + 3)
    texts = []
    small = ['a', "'", '\\', '\n', 'é', '😀', 'n', '1', ' ', '_', '٣']
    for k in range(0, 4):
        for combo in itertools.product(small[:8] if k == 3 else small, repeat=k):
            body = ''.join(combo)
            for q in (0, 1, 2, 3):
                texts.append("'" * q + body + "'" * q)
    texts += ["''1 2 3''", "''255''", "''256''", "''-1''", "''1.5''", "''016_ff''", "''1  2''", "'' 1''", "''1 ''", "''1,2''", "''''",
              "'", "''", "'''", "''1é'", "''é1''", "''1 é''", "'''1 2'''", "''1_0''", "''_''", "''1e2''", "''0''", "''00 01''",
              "'\\x'", "'\\''", "'a\\", "''٣''", "''1٣''", "''½''", "''1 2", "1 2''"]
    count = 20000 if tier == 'thorough' else 8000
    while len(texts) < count:
        texts.append(rand_bytelist_text(rng, wild=rng.random() < 0.3))
    return [['LIT', f'lb{i}', 'bytelist', vlib.esc(t)] for i, t in enumerate(texts)]


def rand_name(rng):
    n = rng.choice((0, 1, 2, 3, 5, 6, 7, 8, 9, 14, 15, 16, 17, 23, 24, 25, rng.randint(0, 70)))
    pool = 'abcdefghijklmnopqrstuvwxyzABCXYZ0123456789_:' + 'éß€😀 '
    return ''.join(rng.choice(pool) for _ in range(n))


def gen_lit_symbols(seed, tier):
    rng = random.Random(seed * 49979687 + 4)
    texts = ['', ':', '::', ':a', 'a', ':a:', '::a::', 'é', ':é', '😀a', ':a b', ':my_symbol', 'my_symbol:', ':a:b']
    while len(texts) < 4000:
        r = rng.random()
        texts.append((':' if r < 0.8 else rng.choice(('', 'x', '::', 'é'))) + rand_name(rng))
    return [['LIT', f'ls{i}', 'symbol', vlib.esc(t)] for i, t in enumerate(texts)]


def gen_sym(seed, tier):
    rng = random.Random(seed * 67867967 + 5)
    names = ['', 'a', 'my_symbol', 'number', ':', 'é']
    for n in range(0, 40):
        names.append('a' * n)
    while len(names) < 10000:
        names.append(rand_name(rng))
    return [['SYM', f'y{i}', vlib.esc(t)] for i, t in enumerate(names)]


STREAMS = [('g', gen_programs), ('x', gen_shapes), ('e', gen_from_parsegen('e')), ('p', gen_from_parsegen('p')),
           ('w', gen_from_parsegen('w')), ('s', gen_from_parsegen('s')), ('ln', gen_lit_numbers), ('lc', gen_lit_charlists),
           ('lb', gen_lit_bytelists), ('ls', gen_lit_symbols), ('y', gen_sym)]


def gen_cases(seed, tier='quick', streams=None):
    rows = []
    for name, fn in STREAMS:
        if streams and name not in streams:
            continue
        rows += fn(seed, tier)
    return rows


# ------------------------------------------------------------------ comparison

def norm_impl(r):
    if r is None:
        return 'MISSING'
    if r == 'HANG' or r.startswith('ABORT'):
        return 'FUELOUT'
    if r.startswith('PANIC'):
        return 'PANIC'
    return r


def norm_model(r):
    if r is None:
        return 'MISSING'
    if r.startswith('PANIC'):
        return 'PANIC'
    return r


def compare(cases, impl, model):
    bad = []
    for c in cases:
        a, b = norm_impl(impl.get(c[1])), norm_model(model.get(c[1]))
        if a != b:
            bad.append((c, impl.get(c[1]), model.get(c[1])))
    return bad


def main():
    args = sys.argv[1:]
    tier, streams, drv, seeds = 'quick', None, os.environ.get('BUILD_DRV', vlib.DRV), []
    i = 0
    while i < len(args):
        if args[i] == '--tier':
            tier = args[i + 1]; i += 2
        elif args[i] == '--streams':
            streams = args[i + 1].split(','); i += 2
        elif args[i] == '--drv':
            drv = args[i + 1]; i += 2
        else:
            seeds.append(int(args[i])); i += 1
    seeds = seeds or [1]
    total = 0
    total_bad = 0
    for seed in seeds:
        cases = gen_cases(seed, tier, streams)
        for c in cases:
            c[1] = f'{seed}.{c[1]}'
        # balance the shards: hang-prone streams would otherwise sit in a few shards
        random.Random(seed).shuffle(cases)
        impl = vlib.run_sharded(vlib.HBIN, cases, 'build.impl', per_case_s=2.0, supervised=True, extra_env={'GH_FLUSH': '1'})
        model = vlib.run_sharded(drv, cases, 'build.model', supervised=False)
        bad = compare(cases, impl, model)
        from collections import Counter
        per = Counter()
        kinds = Counter()
        for c in cases:
            stream = c[1].split('.')[1].rstrip('0123456789')
            key = c[0] + ':' + stream + (':' + c[2] if c[0] == 'BUILD' else '')
            per[key] += 1
            r = norm_impl(impl.get(c[1]))
            kinds[c[0] + ':' + ((r.split(' ')[0] if r else '') if c[0] != 'SYM' else 'value')] += 1
        print(f'seed {seed}: {len(cases)} cases, {len(bad)} disagreements')
        print('  per stream:', dict(sorted(per.items())))
        print('  impl outcomes:', dict(sorted(kinds.items())))
        for c, a, b in bad[:20]:
            print('  CASE ', '\t'.join(c)[:400])
            print('   impl ', (a or '')[:400])
            print('   model', (b or '')[:400])
        total += len(cases)
        total_bad += len(bad)
    print(f'TOTAL {total} cases, {total_bad} disagreements')
    sys.exit(1 if total_bad else 0)


if __name__ == '__main__':
    main()
