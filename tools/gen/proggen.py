"""Core-language program generator: random / small-exhaustive ASTs, printed with minimal parentheses according to
the LANGUAGE's operator table (spec copy below, reviewed against the pinned source; deliberately NOT the regenerated
table: a mutant that edits the table must not drag the printer along), plus the AST as an s-expression for the
reference evaluator."""
import random, struct
from gen.siphash import symbol_value

# ---- language table (priority: lower = tighter) -------------------------------------------------------------
PRIO = {
    'atom': 10, 'group': 20, 'nested': 20, 'access': 30, 'emptyapply': 40, 'leftinternal': 50, 'rightinternal': 60,
    'lengthinternal': 60, 'typeof': 69, 'unary75': 75, 'pow': 80, 'mul': 90, 'add': 100, 'shift': 110, 'band': 111, 'bxor': 112,
    'bor': 113, 'range': 200, 'pair': 210, 'slist': 220, 'partial': 230, 'concat': 240, 'cmp': 300, 'eq': 400, 'not': 400,
    'and': 410, 'xor': 420, 'or': 430, 'apply': 550, 'reapply': 600, 'cond': 700, 'else': 800, 'clist': 900, 'seq': 990,
}
BINOPS = {  # spelling -> (Instruction, priority class)
    '+': ('Add', 'add'), '-': ('Subtract', 'add'), '*': ('Multiply', 'mul'), '/': ('Divide', 'mul'), '//': ('IntegerDivide', 'mul'),
    '%': ('Remainder', 'mul'), '**': ('Power', 'pow'), '&': ('BitwiseAnd', 'band'), '|': ('BitwiseOr', 'bor'), '^': ('BitwiseXor', 'bxor'),
    '<<': ('BitwiseShiftLeft', 'shift'), '>>': ('BitwiseShiftRight', 'shift'), '^^': ('Xor', 'xor'),
    '==': ('Equal', 'eq'), '!=': ('NotEqual', 'eq'), '#=': ('TypeEqual', 'eq'),
    '<': ('LessThan', 'cmp'), '<=': ('LessThanOrEqual', 'cmp'), '>': ('GreaterThan', 'cmp'), '>=': ('GreaterThanOrEqual', 'cmp'),
    '<>': ('Concat', 'concat'), '..': ('MakeRange', 'range'), '<~': ('Apply', 'apply'), '.': ('Access', 'access'),
    '~': ('PartialApply', 'partial'),
}
PREFIX = {'--': ('Opposite', 'unary75'), '++': ('AbsoluteValue', 'unary75'), '!': ('BitwiseNot', 'unary75'), '!!': ('Not', 'not'),
          '??': ('Tis', 'not'), '#': ('TypeOf', 'typeof'), '_.': ('AccessLeftInternal', 'leftinternal')}
SUFFIX = {'._': ('AccessRightInternal', 'rightinternal'), '.|': ('AccessLengthInternal', 'lengthinternal'), '~~': ('EmptyApply', 'emptyapply')}

IDENTS = ['a', 'b', 'x', 'count', 'name']


def fterm(x):
    return '(f %016x)' % struct.unpack('<Q', struct.pack('<d', x))[0]


class Node:
    __slots__ = ('kind', 'a', 'kids', 'pc')

    def __init__(self, kind, a=None, kids=(), pc='atom'):
        self.kind, self.a, self.kids, self.pc = kind, a, list(kids), pc

    def prio(self):
        return PRIO[self.pc]


def lit_int(n): return Node('lit', (f'(i {n})', str(n)))
def lit_float(x): return Node('lit', (fterm(x), repr(x)))
def lit_text(s): return Node('lit', ('(cl' + ''.join(f' {ord(c)}' for c in s) + ')', '"' + s + '"'))
def lit_sym(name): return Node('lit', (f'(s {symbol_value(name)})', ':' + name))
UNIT = lambda: Node('lit', ('U', '()'))
TRUE = lambda: Node('lit', ('T', '$?'))
FALSE = lambda: Node('lit', ('F', '$!'))
INPUT = lambda: Node('in')


def binop(sp, l, r):
    ins, pc = BINOPS[sp]
    return Node('bin', (ins, sp), [l, r], pc)


def prefix(sp, e):
    ins, pc = PREFIX[sp]
    return Node('pre', (ins, sp), [e], pc)


def suffix(sp, e):
    ins, pc = SUFFIX[sp]
    return Node('suf', (ins, sp), [e], pc)


def is_prefix(n): return n.kind in ('pre', 'reapply')


def ends_with_suffix_op(n):
    """does the printed form end in a suffix operator? (a value that follows one directly is swallowed by the parser —
    recorded as a C04 finding; the generator keeps such items grouped)"""
    if n.kind == 'suf': return True
    if n.kind in ('bin', 'pair', 'applyto', 'and', 'or', 'cond', 'pre', 'reapply') and n.kids:
        return ends_with_suffix_op(n.kids[-1])
    if n.kind in ('slist', 'clist') and n.kids:
        return ends_with_suffix_op(n.kids[-1])
    if n.kind == 'chain':
        arms, final = n.a
        return ends_with_suffix_op(final if final is not None else arms[-1])
    return False


# ---- printer --------------------------------------------------------------------------------------------------

def wrap(s): return '(' + s + ')'


def pp(n, extra_parens=None):
    """source text with minimal parentheses; extra_parens(rnd) may add redundant groups (never changes meaning)"""
    def child(c, need):
        s = pp(c, extra_parens)
        is_property = c.kind == 'lit' and c.a[1][:1].isalpha()      # `a . name`: the name is not an operand expression
        if need or (extra_parens is not None and c.kind not in ('seq',) and not is_property and extra_parens.random() < 0.08):
            return wrap(s)
        return s
    k = n.kind
    P = n.prio()
    if k == 'lit': return n.a[1]
    if k == 'in': return '$'
    if k == 'id': return n.a
    if k == 'bin':
        l, r = n.kids
        ls = child(l, l.prio() > P)
        rs = child(r, r.prio() >= P)
        return f'{ls} {n.a[1]} {rs}'
    if k == 'pair':            # right to left
        l, r = n.kids
        return f'{child(l, l.prio() >= P)} = {child(r, r.prio() > P)}'
    if k == 'applyto':
        x, f = n.kids
        return f'{child(x, x.prio() > P)} ~> {child(f, f.prio() >= P)}'
    if k == 'pre':
        e = n.kids[0]
        need = e.prio() > P or (e.prio() == P and not is_prefix(e))
        return f'{n.a[1]} {child(e, need)}'
    if k == 'suf':
        e = n.kids[0]
        return f'{child(e, e.prio() > P)} {n.a[1]}'
    if k == 'slist':
        # prefix / suffix operator expressions are grouped when they are items of a space list: what the parser does
        # with a value that follows a suffix operator (or a list after a prefix operator) is C02/C04's business
        return ' '.join(child(c, c.prio() >= P or c.kind in ('pre', 'suf', 'reapply') or ends_with_suffix_op(c)) for c in n.kids)
    if k == 'clist':
        if len(n.kids) == 1:
            return child(n.kids[0], n.kids[0].prio() >= P) + ','
        return ', '.join(child(c, c.prio() >= P) for c in n.kids)
    if k == 'cond':
        c, t = n.kids
        op = '?>' if n.a else '!>'
        return f'{child(c, c.prio() >= P)} {op} {child(t, t.prio() >= P)}'
    if k == 'chain':
        arms, final = n.a
        parts = [pp(a, extra_parens) for a in arms]
        if final is not None:
            parts.append(child(final, final.prio() >= PRIO['cond']))
        return ' |> '.join(parts)
    if k in ('and', 'or'):
        l, r = n.kids
        op = '&&' if k == 'and' else '||'
        return f'{child(l, l.prio() > P)} {op} {child(r, r.prio() >= P)}'
    if k == 'seq':
        a, b = n.kids
        sep = n.a or ' ; '
        return f'{pp(a, extra_parens)}{sep}{pp(b, extra_parens)}'
    if k == 'seafter':
        e, body = n.kids
        es = child(e, e.prio() > PRIO['group'])
        return f'{es} [{pp(body, extra_parens)}]'
    if k == 'sebefore':
        # a side-effect block written in front of the operand it belongs to (only used after an operator or a comma)
        e, body = n.kids
        es = child(e, e.prio() > PRIO['group'])
        return f'[{pp(body, extra_parens)}] {es}'
    if k == 'nested':
        return '{ ' + pp(n.kids[0], extra_parens) + ' }'
    if k == 'reapply':
        e = n.kids[0]
        return f'^~ {child(e, e.prio() >= P)}'
    raise ValueError(k)


# ---- AST term for the Lean side ---------------------------------------------------------------------------------

class Numbering:
    def __init__(self):
        self.bodies = []        # (id, node)

    def term(self, n):
        k = n.kind
        t = self.term
        if k == 'lit': return f'(lit {n.a[0]})'
        if k == 'in': return 'in'
        if k == 'id': return f'(id {symbol_value(n.a)})'
        if k == 'bin':
            return f'(bin {n.a[0]} {t(n.kids[0])} {t(n.kids[1])})'
        if k == 'pair': return f'(pair {t(n.kids[0])} {t(n.kids[1])})'
        if k == 'applyto': return f'(applyto {t(n.kids[0])} {t(n.kids[1])})'
        if k in ('pre', 'suf'): return f'(un {n.a[0]} {t(n.kids[0])})'
        if k in ('slist', 'clist'): return '(list' + ''.join(' ' + t(c) for c in n.kids) + ')'
        if k == 'cond': return f'(cond {"T" if n.a else "F"} {t(n.kids[0])} {t(n.kids[1])})'
        if k == 'chain':
            arms, final = n.a
            s = '(chain' + ''.join(f' (arm {"T" if a.a else "F"} {t(a.kids[0])} {t(a.kids[1])})' for a in arms)
            if final is not None:
                s += f' (else {t(final)})'
            return s + ')'
        if k == 'and': return f'(and {t(n.kids[0])} {t(n.kids[1])})'
        if k == 'or': return f'(or {t(n.kids[0])} {t(n.kids[1])})'
        if k == 'seq': return f'(seq {t(n.kids[0])} {t(n.kids[1])})'
        if k == 'seafter': return f'(seafter {t(n.kids[0])} {t(n.kids[1])})'
        if k == 'nested':
            i = len(self.bodies) + 1
            self.bodies.append(None)
            body = t(n.kids[0])
            self.bodies[i - 1] = (i, body)
            return f'(nested {i})'
        if k == 'reapply': return f'(reapply {t(n.kids[0])})'
        raise ValueError(k)


def program_term(root):
    nb = Numbering()
    main = nb.term(root)
    return '(prog ' + main + ''.join(f' (body {i} {b})' for i, b in nb.bodies) + ')'


# ---- random generation ------------------------------------------------------------------------------------------

class Gen:
    def __init__(self, rnd, features=None):
        self.rnd = rnd
        self.f = features or {}

    def atom(self):
        r = self.rnd
        k = r.random()
        if k < 0.30: return lit_int(r.choice([0, 1, 2, 3, 5, 7, 10, 100, 2147483647, 65536]))
        if k < 0.36: return lit_float(r.choice([1.5, 0.5, 2.0, 10.25]))
        if k < 0.46: return lit_text(r.choice(['', 'a', 'ab', 'abc', 'hello world']))
        if k < 0.54: return lit_sym(r.choice(IDENTS))
        if k < 0.60: return UNIT()
        if k < 0.64: return TRUE()
        if k < 0.68: return FALSE()
        if k < 0.84: return INPUT()
        return Node('id', r.choice(IDENTS))

    def expr(self, d):
        r = self.rnd
        if d <= 0 or r.random() < 0.22:
            return self.atom()
        k = r.random()
        if k < 0.34:
            sp = r.choice(['+', '-', '*', '/', '//', '%', '**', '&', '|', '^', '<<', '>>', '^^', '==', '!=', '<', '<=', '>', '>=', '#=', '<>'])
            return binop(sp, self.expr(d - 1), self.expr(d - 1))
        if k < 0.42:
            return prefix(r.choice(list(PREFIX)), self.expr(d - 1))
        if k < 0.46:
            return suffix(r.choice(['._', '.|']), self.expr(d - 1))
        if k < 0.52:
            return Node('pair', None, [self.key_or_expr(d - 1), self.expr(d - 1)], 'pair')
        if k < 0.60:
            n = r.randint(2, 4)
            items = [self.expr(d - 1) for _ in range(n)]
            return self.mklist(items)
        if k < 0.66:
            # access by property or index
            obj = self.expr(d - 1)
            if r.random() < 0.6:
                return binop('.', obj, Node('prop', r.choice(IDENTS)))
            return binop('.', obj, lit_int(r.choice([0, 1, 2, 5])))
        if k < 0.74:
            return Node('cond', r.random() < 0.7, [self.expr(d - 1), self.expr(d - 1)], 'cond')
        if k < 0.80:
            n = r.randint(1, 3)
            arms = [Node('cond', r.random() < 0.7, [self.expr(d - 1), self.expr(d - 1)], 'cond') for _ in range(n)]
            final = self.expr(d - 1)
            while final.kind in ('cond', 'chain'):
                final = self.expr(d - 2)
            return Node('chain', (arms, final), [], 'else')
        if k < 0.86:
            return Node(r.choice(['and', 'or']), None, [self.expr(d - 1), self.expr(d - 1)], None)
        if k < 0.90:
            return Node('seafter', None, [self.atom(), self.expr(d - 1)], 'atom')
        if k < 0.97:
            body = self.body(d - 1)
            f = Node('nested', None, [body], 'nested')
            c = r.random()
            if c < 0.45: return binop('<~', f, self.expr(d - 1))
            if c < 0.75: return Node('applyto', None, [self.expr(d - 1), f], 'apply')
            if c < 0.9: return suffix('~~', f)
            return f
        return binop('..', lit_int(r.randint(0, 3)), lit_int(r.randint(3, 6)))

    def mklist(self, items):
        if self.rnd.random() < 0.5:
            return Node('slist', None, items, 'slist')
        return Node('clist', None, items, 'clist')

    def key_or_expr(self, d):
        if self.rnd.random() < 0.7:
            return lit_sym(self.rnd.choice(IDENTS))
        return self.expr(d)

    def body(self, d, allow_loop=True):
        """body of a nested expression (or the program): may sequence with `;`, or be a bounded reapply loop
        (a loop after `a ;` would restart at `a` and never end, so loops are whole bodies)"""
        r = self.rnd
        k = r.random()
        if k < 0.15 and d > 0 and allow_loop:
            # bounded loop: { $ > N ?> $ |> ^~ $ + 1 }
            n = r.randint(0, 6)
            # `!! ($ < n)`: a non-number input ends the loop at once (foreign comparisons are false)
            test = prefix('!!', binop('<', INPUT(), lit_int(n)))
            arm = Node('cond', True, [test, self.expr(d - 1)], 'cond')
            again = Node('reapply', None, [binop('+', INPUT(), lit_int(r.choice([1, 2])))], 'reapply')
            return Node('chain', ([arm], again), [], 'else')
        if k < 0.40 and d > 0:
            return Node('seq', r.choice([' ; ', '\n\n', ' ;\n']), [self.expr(d - 1), self.body(d - 1, allow_loop=False)], 'seq')
        return self.expr(d)


def fix_nodes(n):
    """post-process: `and`/`or` priority classes, property nodes"""
    if n.kind == 'and': n.pc = 'and'
    if n.kind == 'or': n.pc = 'or'
    if n.kind == 'prop':
        name = n.a
        n.kind = 'lit'; n.a = (f'(s {symbol_value(name)})', name); n.pc = 'atom'
    if n.kind == 'bin' and n.a[1] == '.' and len(n.kids) == 2 and n.kids[1].kind == 'id':
        # `x . a`: a bare identifier after `.` is a Property (a symbol constant), not an identifier look-up
        name = n.kids[1].a
        n.kids[1] = Node('lit', (f'(s {symbol_value(name)})', name))
    if n.kind in ('slist', 'clist'):
        # two pairs with the same symbol key in one list: which one a look-up finds is not defined by the language (C16 leaves
        # duplicate keys out; the two stores use different search structures) — later duplicates get a key of their own
        seen = set()
        for c in n.kids:
            if c.kind == 'pair' and c.kids and c.kids[0].kind == 'lit' and c.kids[0].a[1].startswith(':'):
                name = c.kids[0].a[1][1:]
                if name in seen:
                    k = 2
                    while f'{name}{k}' in seen:
                        k += 1
                    name = f'{name}{k}'
                    c.kids[0] = lit_sym(name)
                seen.add(name)
    kids = list(n.kids)
    if n.kind == 'chain':
        arms, final = n.a
        kids = list(arms) + ([final] if final is not None else [])
    for c in kids:
        fix_nodes(c)
    return n


INPUTS = ['-', '(i 0)', '(i 5)',
          f'(l (p (s {symbol_value("a")}) (i 1)) (p (s {symbol_value("b")}) (cl 120)) (i 7))',
          f'(p (s {symbol_value("x")}) (i 9))', '(cl 104 105)', '(p (i 1) (i -5))',
          # identifiers that ARE in the input value but bound to a false / unit value: found, so the host must not be asked
          f'(l (p (s {symbol_value("a")}) U) (p (s {symbol_value("x")}) F) (p (s {symbol_value("b")}) (i 2)))',
          # a list whose FIRST items are not symbol-keyed (a number-keyed pair, a unit item, a text-keyed pair) in front of the keyed ones
          f'(l (p (i 1) (i 2)) (p (s {symbol_value("a")}) (i 3)) U (p (cl 120) (i 5)) (p (s {symbol_value("b")}) (i 4)) (p (s {symbol_value("x")}) (i 6)))',
          # a concatenation of three parts in which one key is bound twice inside the inner concatenation
          f'(cat (cat (p (s {symbol_value("x")}) (i 1)) (p (s {symbol_value("x")}) (i 2))) (p (s {symbol_value("a")}) (i 3)))',
          f'(cat (p (s {symbol_value("b")}) (i 1)) (cat (p (s {symbol_value("a")}) (i 2)) (p (s {symbol_value("a")}) (i 3))))']


def gen_program(rnd, depth):
    g = Gen(rnd)
    root = fix_nodes(g.body(depth))
    return root


def count_ops(n):
    kids = list(n.kids)
    if n.kind == 'chain':
        arms, final = n.a
        kids = list(arms) + ([final] if final is not None else [])
    return (0 if n.kind in ('lit', 'in', 'id') else 1) + sum(count_ops(c) for c in kids)


def features(n, acc=None):
    acc = acc if acc is not None else {}
    acc[n.kind if n.kind != 'bin' else 'bin:' + n.a[0]] = acc.get(n.kind if n.kind != 'bin' else 'bin:' + n.a[0], 0) + 1
    kids = list(n.kids)
    if n.kind == 'chain':
        arms, final = n.a
        kids = list(arms) + ([final] if final is not None else [])
    for c in kids:
        features(c, acc)
    return acc


# ---- small-exhaustive enumeration -------------------------------------------------------------------------------

def _cond(test, body, on_true=True): return Node('cond', on_true, [test, body], 'cond')
def _chain(arms, final): return Node('chain', (list(arms), final), [], 'else')
def _and(l, r): return Node('and', None, [l, r], 'and')
def _or(l, r): return Node('or', None, [l, r], 'or')
def _nested(e): return Node('nested', None, [e], 'nested')


def logic_shapes():
    """logical operators, conditionals and else-chains whose out-of-line operands / arms END in every kind of
    instruction (atom, `??`, `!!`, arithmetic, the re-join of an inner else-chain or logical operator, a call, a list):
    the code that decides which terminator (Tis / JumpTo / EndExpression) a separately emitted root still needs sees every
    combination of (outer construct, last instruction of the operand) once, with left operands that select either side"""
    def tails():
        yield 'atom', lambda: lit_int(20)
        yield 'tis', lambda: prefix('??', lit_int(20))
        yield 'not', lambda: prefix('!!', lit_int(20))
        yield 'arith', lambda: binop('+', INPUT(), lit_int(1))
        yield 'chain-arm', lambda: _chain([_cond(lit_int(10), lit_int(20))], lit_int(30))
        yield 'chain-arm/final-tis', lambda: _chain([_cond(lit_int(10), lit_int(20))], prefix('??', lit_int(30)))
        yield 'chain-final-tis', lambda: _chain([_cond(FALSE(), lit_int(20))], prefix('??', lit_int(30)))
        yield 'chain-arm-tis/final', lambda: _chain([_cond(lit_int(10), prefix('??', lit_int(20)))], lit_int(30))
        yield 'chain-final', lambda: _chain([_cond(UNIT(), lit_int(20))], lit_int(30))
        yield 'chain3', lambda: _chain([_cond(FALSE(), lit_int(1)), _cond(lit_int(2), lit_int(20), False), _cond(lit_int(3), lit_int(21))], prefix('!!', lit_int(30)))
        yield 'and', lambda: _and(lit_int(5), lit_int(20))
        yield 'or', lambda: _or(FALSE(), lit_int(20))
        yield 'and-tis', lambda: _and(lit_int(5), prefix('??', lit_int(20)))
        yield 'cond', lambda: _cond(lit_int(10), lit_int(20))
        yield 'cond-false', lambda: _cond(FALSE(), lit_int(20))
        yield 'unless', lambda: _cond(FALSE(), lit_int(20), False)
        yield 'call', lambda: suffix('~~', _nested(lit_int(20)))
        yield 'slist', lambda: Node('slist', None, [lit_int(1), lit_int(2)], 'slist')
        yield 'pair', lambda: Node('pair', None, [lit_int(1), lit_int(2)], 'pair')
        yield 'ident', lambda: Node('id', 'x')          # its evaluation is a host call: seen in the trace iff it is evaluated
        # bare literals of every kind as the whole operand / arm: a builder that treats "a literal that is already a boolean"
        # specially must not include unit, and must still normalise every other literal
        yield 'lit-unit', UNIT
        yield 'lit-true', TRUE
        yield 'lit-false', FALSE
        yield 'lit-symbol', lambda: lit_sym('s')
        yield 'lit-text', lambda: lit_text('t')
        yield 'lit-empty-text', lambda: lit_text('')
        yield 'lit-float', lambda: lit_float(0.0)
        yield 'lit-zero', lambda: lit_int(0)
        yield 'input', INPUT
        yield 'group-unit', lambda: Node('slist', None, [UNIT()], 'slist') if False else prefix('??', UNIT())
        yield 'ident-arith', lambda: binop('+', Node('id', 'count'), lit_int(1))
    lefts = [('truthy', lambda: lit_int(5)), ('false', FALSE), ('unit', UNIT), ('input', INPUT)]
    for tn, tk in tails():
        for ln, lk in lefts:
            yield f'and/{ln}/{tn}', fix_nodes(_and(lk(), tk()))
            yield f'or/{ln}/{tn}', fix_nodes(_or(lk(), tk()))
            yield f'if/{ln}/{tn}', fix_nodes(_cond(lk(), tk()))
            yield f'unless/{ln}/{tn}', fix_nodes(_cond(lk(), tk(), False))
            yield f'chain-arm/{ln}/{tn}', fix_nodes(_chain([_cond(lk(), tk())], lit_int(7)))
            yield f'chain-final/{ln}/{tn}', fix_nodes(_chain([_cond(lk(), lit_int(7))], tk()))
            yield f'chain-mid/{ln}/{tn}', fix_nodes(_chain([_cond(FALSE(), lit_int(6)), _cond(lk(), tk())], lit_int(9)))
        yield f'and-or/{tn}', fix_nodes(_and(lit_int(5), _or(FALSE(), tk())))
        yield f'or-and/{tn}', fix_nodes(_or(FALSE(), _and(lit_int(5), tk())))
        yield f'if-and/{tn}', fix_nodes(_cond(lit_int(5), _and(lit_int(5), tk())))
        yield f'and-if/{tn}', fix_nodes(_and(lit_int(5), _cond(lit_int(5), tk())))
        yield f'list-of/{tn}', fix_nodes(Node('clist', None, [_and(lit_int(5), tk()), _or(FALSE(), tk())], 'clist'))
        yield f'body/{tn}', fix_nodes(binop('<~', _nested(_and(INPUT(), tk())), lit_int(3)))


def tester_shapes():
    """every testing construct (`??`, `!!`, `?>`, `!>`, `&&`, `||`, `^^`, the test of an else-chain arm) applied, WITHOUT
    parentheses wherever the language's table allows it, to a value written with an operator: a range, a pair, a space list, a
    concatenation, arithmetic, a comparison, an access, prefix and suffix operators — true values of every composite type and
    the false / unit results of operators. All constructs must classify the whole operand the same way; which operand a tester
    sees is decided by the operator priorities, so this is also where a changed priority of a tester shows."""
    def operands():
        yield 'range', lambda: binop('..', lit_int(1), lit_int(2))
        yield 'pair', lambda: Node('pair', None, [lit_int(1), lit_int(2)], 'pair')
        yield 'pair-unit', lambda: Node('pair', None, [lit_sym('k'), UNIT()], 'pair')
        yield 'slist', lambda: Node('slist', None, [lit_int(1), lit_int(2)], 'slist')
        yield 'slist-false', lambda: Node('slist', None, [FALSE(), FALSE()], 'slist')
        yield 'concat', lambda: binop('<>', lit_int(1), lit_int(2))
        yield 'concat-text', lambda: binop('<>', lit_text('a'), lit_text(''))
        yield 'add', lambda: binop('+', lit_int(1), lit_int(2))
        yield 'add-undefined', lambda: binop('+', lit_int(1), lit_text('a'))        # unit unless the host answers
        yield 'sub-zero', lambda: binop('-', lit_int(1), lit_int(1))               # the number 0 is true
        yield 'lt-true', lambda: binop('<', lit_int(1), lit_int(2))
        yield 'lt-false', lambda: binop('<', lit_int(2), lit_int(1))
        yield 'eq-false', lambda: binop('==', lit_int(2), lit_int(1))
        yield 'access-hit', lambda: binop('.', Node('slist', None, [lit_int(7), lit_int(8)], 'slist'), lit_int(0))
        yield 'access-miss', lambda: binop('.', Node('slist', None, [lit_int(7), lit_int(8)], 'slist'), lit_int(5))
        yield 'opposite', lambda: prefix('--', lit_int(3))
        yield 'typeof', lambda: prefix('#', UNIT())
        yield 'length', lambda: suffix('.|', Node('slist', None, [lit_int(7), lit_int(8)], 'slist'))
        yield 'call', lambda: suffix('~~', _nested(FALSE()))
        yield 'apply', lambda: binop('<~', _nested(INPUT()), UNIT())
        yield 'partial', lambda: binop('~', _nested(INPUT()), lit_int(1))
        yield 'xor', lambda: binop('^^', lit_int(1), UNIT())
        yield 'and', lambda: _and(lit_int(1), UNIT())
        yield 'or', lambda: _or(UNIT(), FALSE())
        yield 'not', lambda: prefix('!!', UNIT())
        yield 'tis', lambda: prefix('??', FALSE())
    for on, ok in operands():
        yield f'tis/{on}', fix_nodes(prefix('??', ok()))
        yield f'not/{on}', fix_nodes(prefix('!!', ok()))
        yield f'if/{on}', fix_nodes(_chain([_cond(ok(), lit_int(1))], lit_int(2)))
        yield f'unless/{on}', fix_nodes(_chain([_cond(ok(), lit_int(1), False)], lit_int(2)))
        yield f'and-left/{on}', fix_nodes(_and(ok(), lit_int(1)))
        yield f'or-left/{on}', fix_nodes(_or(ok(), lit_int(1)))
        yield f'and-right/{on}', fix_nodes(_and(lit_int(1), ok()))
        yield f'or-right/{on}', fix_nodes(_or(UNIT(), ok()))
        yield f'xor-left/{on}', fix_nodes(binop('^^', ok(), FALSE()))
        yield f'xor-right/{on}', fix_nodes(binop('^^', FALSE(), ok()))
        yield f'chain-mid/{on}', fix_nodes(_chain([_cond(FALSE(), lit_int(6)), _cond(ok(), lit_int(1))], lit_int(2)))
        yield f'tis-tis/{on}', fix_nodes(prefix('??', prefix('??', ok())))
        yield f'not-in-list/{on}', fix_nodes(Node('clist', None, [prefix('!!', ok()), prefix('??', ok())], 'clist'))


def equality_shapes():
    """`==` / `!=` between structured values of equal and of different shape (lists of different lengths, a list against its
    prefix, nested lists, pairs, concatenations that flatten to the same / a longer / a shorter sequence, text, ranges), each
    placed where earlier results are pending around it: as a later item of a list, as right operand of an arithmetic operator,
    inside a pair, as the test of a conditional, as right operand of `&&`. Structural equality walks both values with the
    operand stack as its work list and must leave exactly one boolean, whatever it found and wherever it stopped."""
    def sl(*xs): return Node('slist', None, [lit_int(x) if isinstance(x, int) else x for x in xs], 'slist')
    def vals():
        yield 'l12', lambda: sl(1, 2)
        yield 'l123', lambda: sl(1, 2, 3)
        yield 'l13', lambda: sl(1, 3)
        yield 'l1234', lambda: sl(1, 2, 3, 4)
        yield 'nested', lambda: sl(sl(1, 2), 3)
        yield 'nested-long', lambda: sl(sl(1, 2, 3), 3)
        yield 'pair', lambda: Node('pair', None, [lit_int(1), lit_int(2)], 'pair')
        yield 'pair-list', lambda: Node('pair', None, [lit_int(1), sl(2, 3)], 'pair')
        yield 'cat12', lambda: binop('<>', lit_int(1), lit_int(2))
        yield 'cat-list', lambda: binop('<>', sl(1, 2), lit_int(3))
        yield 'cat-nested', lambda: binop('<>', sl(sl(1, 2)), lit_int(3)) if False else binop('<>', sl(sl(1, 2), 9), lit_int(3))
        yield 'text', lambda: lit_text('ab')
        yield 'range', lambda: binop('..', lit_int(1), lit_int(3))
        yield 'int', lambda: lit_int(1)
    vs = list(vals())
    k = 0
    for an, ak in vs:
        for bn, bk in vs:
            k += 1
            op = '==' if k % 2 else '!='
            eq = lambda: binop(op, ak(), bk())
            yield f'eq/alone/{an}/{bn}', fix_nodes(eq())
            yield f'eq/later-item/{an}/{bn}', fix_nodes(Node('clist', None, [lit_int(5), eq()], 'clist'))
            yield f'eq/both-sides/{an}/{bn}', fix_nodes(Node('clist', None, [lit_int(5), eq(), lit_int(6)], 'clist'))
            yield f'eq/right-of-add/{an}/{bn}', fix_nodes(binop('+', lit_int(5), _chain([_cond(eq(), lit_int(1))], lit_int(2))))
            yield f'eq/in-pair/{an}/{bn}', fix_nodes(Node('pair', None, [lit_int(5), eq()], 'pair'))
            yield f'eq/and-right/{an}/{bn}', fix_nodes(Node('clist', None, [lit_int(7), _and(lit_int(5), eq())], 'clist'))


def loop_shapes():
    """bounded reapply loops whose `^~` sits in every nesting of tail positions up to depth 3 (arm of a conditional, arm /
    final arm of an else-chain, right operand of `&&` / `||`), at top level and inside a nested body; every guard is monotone
    in `$`, so each loop ends after at most a dozen iterations. Which expression a `^~` restarts is decided by the jump
    entry its root was given: a wrong entry shows as a different value or as a loop that does not end."""
    def lt(k): return binop('<', INPUT(), lit_int(k))
    def ge(k): return binop('>=', INPUT(), lit_int(k))
    again = lambda: Node('reapply', None, [binop('+', INPUT(), lit_int(1))], 'reapply')
    ctxs = [
        ('if', lambda t, k: _cond(lt(k), t)),
        ('chain-arm', lambda t, k: _chain([_cond(lt(k), t)], binop('*', INPUT(), lit_int(2)))),
        ('chain-final', lambda t, k: _chain([_cond(ge(k), binop('*', INPUT(), lit_int(3)))], t)),
        ('chain-mid', lambda t, k: _chain([_cond(ge(k + 20), lit_int(1)), _cond(lt(k), t)], lit_int(0))),
        ('and', lambda t, k: _and(lt(k), t)),
        ('or', lambda t, k: _or(ge(k), t)),
    ]
    def nest(depth, ks):
        if depth == 0:
            yield '', again()
            return
        for name, mk in ctxs:
            for sub, t in nest(depth - 1, ks[1:]):
                yield name + ('>' + sub if sub else ''), mk(t, ks[0])
    for depth, ks in ((1, [6]), (2, [9, 12]), (2, [12, 9]), (3, [9, 12, 7])):
        for name, t in nest(depth, ks):
            yield f'loop/{name}/{ks}', fix_nodes(t)
            yield f'loop-body/{name}/{ks}', fix_nodes(binop('<~', _nested(t), lit_int(4)))
            yield f'loop-in-list/{name}/{ks}', fix_nodes(Node('clist', None, [lit_int(1), binop('<~', _nested(t), lit_int(5))], 'clist'))


LOOP_INPUTS = ['(i 0)', '(i 5)', '(i 7)', '(i 8)', '(i 11)', '(i 13)']


def operator_pairs():
    """every ordered pair (outer operator, inner operator) of the core language with the inner one in every operand
    position of the outer one, atoms elsewhere; printed with minimal parentheses this exercises every precedence and
    associativity decision between two operators once"""
    two = [(sp, (lambda l, r, sp=sp: binop(sp, l, r))) for sp in BINOPS]
    two += [('pair', lambda l, r: Node('pair', None, [l, r], 'pair')), ('slist', lambda l, r: Node('slist', None, [l, r], 'slist')),
            ('clist', lambda l, r: Node('clist', None, [l, r], 'clist')), ('cond', lambda l, r: Node('cond', True, [l, r], 'cond')),
            ('and', lambda l, r: Node('and', None, [l, r], 'and')), ('or', lambda l, r: Node('or', None, [l, r], 'or'))]
    one = [(sp, (lambda e, sp=sp: prefix(sp, e))) for sp in PREFIX] + [(sp, (lambda e, sp=sp: suffix(sp, e))) for sp in SUFFIX]
    def inner_nodes():
        for name, mk in two:
            yield name, (lambda mk=mk: mk(INPUT(), lit_int(2)))
        for name, mk in one:
            yield name, (lambda mk=mk: mk(INPUT()))
    for oname, omk in two:
        for iname, imk in inner_nodes():
            yield f'{oname}/{iname}/L', fix_nodes(omk(imk(), lit_int(3)))
            yield f'{oname}/{iname}/R', fix_nodes(omk(lit_int(3), imk()))
    for oname, omk in one:
        for iname, imk in inner_nodes():
            yield f'{oname}/{iname}', fix_nodes(omk(imk()))


def enumerate_small(max_ops, ops):
    """all ASTs with <= max_ops operator nodes over a reduced constructor set"""
    atoms = [lambda: lit_int(2), lambda: lit_int(5), INPUT, UNIT, lambda: Node('id', 'a'), lambda: lit_text('ab')]
    memo = {}
    def go(k):
        if k in memo:
            return memo[k]
        out = []
        if k == 0:
            out = [('atom', i) for i in range(len(atoms))]
        else:
            for sp in ops.get('pre', []):
                for e in go(k - 1):
                    out.append(('pre', sp, e))
            for i in range(k):
                for l in go(i):
                    for r in go(k - 1 - i):
                        for sp in ops.get('bin', []):
                            out.append(('bin', sp, l, r))
                        for kind in ops.get('other', []):
                            out.append((kind, l, r))
        memo[k] = out
        return out
    def build(t):
        if t[0] == 'atom': return atoms[t[1]]()
        if t[0] == 'pre': return prefix(t[1], build(t[2]))
        if t[0] == 'bin': return binop(t[1], build(t[2]), build(t[3]))
        l, r = build(t[1]), build(t[2])
        if t[0] == 'pair': return Node('pair', None, [l, r], 'pair')
        if t[0] == 'slist': return Node('slist', None, [l, r], 'slist')
        if t[0] == 'clist': return Node('clist', None, [l, r], 'clist')
        if t[0] == 'cond': return Node('cond', True, [l, r], 'cond')
        if t[0] == 'else':
            return Node('chain', ([Node('cond', True, [l, build(('atom', 1))], 'cond')], r), [], 'else')
        if t[0] == 'and': return Node('and', None, [l, r], 'and')
        if t[0] == 'or': return Node('or', None, [l, r], 'or')
        if t[0] == 'apply': return binop('<~', Node('nested', None, [l], 'nested'), r)
        raise ValueError(t)
    for k in range(0, max_ops + 1):
        for t in go(k):
            yield fix_nodes(build(t))
