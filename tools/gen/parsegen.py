#!/usr/bin/env python3
"""Case generator for the PARSE correspondence suite (parser model vs garnish_lang_compiler::parse::parse).

gen_cases(seed, tier) -> rows ['PARSE', id, tok, tok, ...]; each tok is `TypeName,<escaped text>`.
Streams (id prefix):
  e  exhaustive sequences over a ~20-class alphabet (length <= 4 quick / <= 5 thorough, alphabet rotated by the seed)
  p  every ordered pair (thorough: triple) of operator token types around atoms, with and without Whitespace tokens
  w  random well-formed-looking expressions (groups, nested expressions, side effects, conditionals, lists, access chains)
  s  random token soups over ALL TokenType variants (uniform, and guided by the composition table so they survive longer)
__main__: generates, runs the Rust harness and the Lean driver, prints the number of cases / disagreements.
  --trees: C04 / C02 checks instead: `gen_wellformed` (stream p + unmutated stream w inputs that the real `parse` accepts),
  `check_trees` (implementation node dump -> verified checker TREECHK, tree compared with the reference parser REFPARSE).
  --trivia: C18 parser half: `gen_trivia_pairs` (accepted input, same input with extra trivia), `same_tree`, `check_trivia`.
"""
import itertools
import os
import random
import sys

HERE = os.path.dirname(os.path.abspath(__file__))
sys.path.insert(0, os.path.dirname(HERE))
import vlib  # noqa: E402
from gen import parse_tables  # noqa: E402

# realistic token texts (as produced by the Rust `lex`); the parser never looks at the text
TEXT = {
    'Unknown': '', 'UnitLiteral': '()', 'PlusSign': '+', 'Subtraction': '-', 'Division': '/', 'MultiplicationSign': '*',
    'ExponentialSign': '**', 'IntegerDivision': '//', 'Remainder': '%', 'AbsoluteValue': '++', 'Opposite': '--',
    'BitwiseNot': '!', 'BitwiseAnd': '&', 'BitwiseOr': '|', 'BitwiseXor': '^', 'BitwiseLeftShift': '<<',
    'BitwiseRightShift': '>>', 'And': '&&', 'Or': '||', 'Xor': '^^', 'Not': '!!', 'Tis': '??', 'StartExpression': '{',
    'EndExpression': '}', 'StartGroup': '(', 'EndGroup': ')', 'StartSideEffect': '[', 'EndSideEffect': ']', 'Value': '$',
    'Comma': ',', 'Symbol': ':s', 'Number': '5', 'Identifier': 'a', 'CharList': '"x"', 'ByteList': "'x'",
    'Whitespace': ' ', 'Subexpression': '\n\n', 'ExpressionTerminator': ';;', 'ExpressionSeparator': ';',
    'Annotation': '@a', 'LineAnnotation': '@@ note', 'JumpIfFalse': '!>', 'JumpIfTrue': '?>', 'ElseJump': '|>',
    'TypeOf': '#', 'Apply': '<~', 'ApplyTo': '~>', 'PartialApply': '~', 'Reapply': '^~', 'EmptyApply': '~~',
    'TypeCast': '~#', 'TypeEqual': '#=', 'Equality': '==', 'Inequality': '!=', 'LessThan': '<', 'LessThanOrEqual': '<=',
    'GreaterThan': '>', 'GreaterThanOrEqual': '>=', 'Period': '.', 'LeftInternal': '_.', 'RightInternal': '._',
    'LengthInternal': '.|', 'Pair': '=', 'Concatenation': '<>', 'Range': '..', 'StartExclusiveRange': '>..',
    'EndExclusiveRange': '..<', 'ExclusiveRange': '>..<', 'False': '$!', 'True': '$?', 'PrefixIdentifier': 'f`',
    'SuffixIdentifier': '`f', 'InfixIdentifier': '`f`',
}

_TABLES = None


def tables():
    global _TABLES
    if _TABLES is None:
        _, js = parse_tables.generate(vlib.REPO)
        missing = [t for t in js['get_definition'] if t not in TEXT]
        if missing:
            raise ValueError(f'parsegen: no token text for TokenType variants {missing}')
        _TABLES = js
    return _TABLES


def tok(ty, text=None):
    return ty + ',' + vlib.esc(TEXT[ty] if text is None else text)


WS = ('Whitespace', ' ')

# ------------------------------------------------------------------ stream e: exhaustive

CORE = ['Number', 'Identifier', 'PlusSign', 'Comma', 'Whitespace', 'Subexpression', 'StartGroup', 'EndGroup',
        'StartExpression', 'EndExpression', 'StartSideEffect', 'EndSideEffect']
ROTATING = ['Symbol', 'UnitLiteral', 'Value', 'CharList', 'MultiplicationSign', 'Pair', 'Opposite', 'Not', 'EmptyApply',
            'Annotation', 'JumpIfTrue', 'ElseJump', 'Period', 'Reapply', 'ApplyTo', 'ExpressionTerminator',
            'ExpressionSeparator', 'PrefixIdentifier', 'InfixIdentifier', 'SuffixIdentifier']


def alphabet(seed, size):
    rng = random.Random(1000003 * seed + 17)
    extra = rng.sample(ROTATING, max(0, size - len(CORE)))
    return CORE + extra


def gen_exhaustive(seed, tier):
    if tier == 'thorough':
        alpha, maxlen = alphabet(seed, 17), 5      # 17^5 = 1.4M
    else:
        alpha, maxlen = alphabet(seed, 20), 4      # 20^4 = 160k
    toks = [tok(t) for t in alpha]
    rows = []
    n = 0
    for k in range(0, maxlen + 1):
        for combo in itertools.product(toks, repeat=k):
            rows.append(['PARSE', f'e{n}', *combo])
            n += 1
    return rows


# ------------------------------------------------------------------ stream p: operator pairs / triples

def operator_types():
    gd = tables()['get_definition']
    kinds = ('BinaryLeftToRight', 'BinaryRightToLeft', 'OptionalBinaryLeftToRight', 'UnaryPrefix', 'UnarySuffix')
    return [t for t, (_, s) in gd.items() if s in kinds]


def priority_classes():
    """one representative operator token type per (secondary definition, priority)"""
    js = tables()
    seen = {}
    for t in operator_types():
        d, s = js['get_definition'][t]
        key = (s, js['priority'].get(d))
        seen.setdefault(key, t)
    return list(seen.values())


PAIR_TEMPLATES = ['aXbYc', 'XaYb', 'aXYb', 'aXbY', 'XYa', 'aXY', 'XaY']
TRIPLE_TEMPLATES = ['aXbYcZd', 'XaYbZc', 'aXbYZc', 'aXYbZ']


def fill(template, ops, spaced):
    atoms = {'a': 'Identifier', 'b': 'Number', 'c': 'Identifier', 'd': 'Number'}
    slot = dict(zip('XYZ', ops))
    out = []
    for i, ch in enumerate(template):
        if spaced and i > 0:
            out.append(tok('Whitespace'))
        out.append(tok(atoms[ch]) if ch in atoms else tok(slot[ch]))
    return out


def gen_pairs(seed, tier):
    rows = []
    n = 0
    ops = operator_types()
    for x in ops:
        for y in ops:
            for t in PAIR_TEMPLATES:
                for spaced in (False, True):
                    rows.append(['PARSE', f'p{n}', *fill(t, (x, y), spaced)])
                    n += 1
    if tier == 'thorough':
        reps = priority_classes()
        for x in reps:
            for y in reps:
                for z in reps:
                    for t in TRIPLE_TEMPLATES:
                        for spaced in (False, True):
                            rows.append(['PARSE', f'p{n}', *fill(t, (x, y, z), spaced)])
                            n += 1
    else:
        # a random sample of triples
        rng = random.Random(seed * 7919 + 3)
        for _ in range(6000):
            x, y, z = rng.choice(ops), rng.choice(ops), rng.choice(ops)
            rows.append(['PARSE', f'p{n}', *fill(rng.choice(TRIPLE_TEMPLATES), (x, y, z), rng.random() < 0.5)])
            n += 1
    return rows


# ------------------------------------------------------------------ stream w: well-formed-looking expressions

class ExprGen:
    def __init__(self, rng):
        self.rng = rng
        gd = tables()['get_definition']
        self.binary = [t for t, (d, s) in gd.items() if s in ('BinaryLeftToRight', 'BinaryRightToLeft')
                       and t not in ('JumpIfTrue', 'JumpIfFalse', 'ElseJump', 'Period')]
        self.prefix = [t for t, (_, s) in gd.items() if s == 'UnaryPrefix']
        self.suffix = [t for t, (_, s) in gd.items() if s == 'UnarySuffix']
        self.atoms = ['Number', 'Identifier', 'Symbol', 'UnitLiteral', 'Value', 'CharList', 'ByteList', 'True', 'False']

    def ws(self, p=0.7):
        r = self.rng.random()
        if r < p:
            return [tok('Whitespace', ' ' * self.rng.choice((1, 1, 1, 2, 4)))]
        if r < p + 0.03:
            return [tok('Whitespace', '\n')]
        if r < p + 0.05:
            return [tok('Annotation')] + ([tok('Whitespace')] if self.rng.random() < 0.5 else [])
        return []

    def atom(self, depth):
        r = self.rng.random()
        if depth > 0 and r < 0.12:
            return [tok('StartGroup')] + self.ws(0.2) + self.expr(depth - 1) + self.ws(0.2) + [tok('EndGroup')]
        if depth > 0 and r < 0.20:
            return [tok('StartExpression')] + self.ws(0.3) + self.block(depth - 1) + self.ws(0.3) + [tok('EndExpression')]
        if r < 0.28:
            # access chain
            out = [tok('Identifier')]
            for _ in range(self.rng.randint(1, 3)):
                out += [tok('Period'), tok(self.rng.choice(('Identifier', 'Identifier', 'Number', 'Symbol')))]
            return out
        if r < 0.30:
            return [tok('ExpressionTerminator')]
        return [tok(self.rng.choice(self.atoms))]

    def term(self, depth):
        out = []
        while self.rng.random() < 0.15:
            out += [tok(self.rng.choice(self.prefix))] + self.ws(0.3)
        out += self.atom(depth)
        while self.rng.random() < 0.12:
            out += self.ws(0.3) + [tok(self.rng.choice(self.suffix))]
        if depth > 0 and self.rng.random() < 0.08:
            # side effect after a term
            out += self.ws(0.5) + [tok('StartSideEffect')] + self.ws(0.2) + self.expr(depth - 1) + self.ws(0.2) + [tok('EndSideEffect')]
        return out

    def expr(self, depth):
        r = self.rng.random()
        if depth > 0 and r < 0.12:
            # conditional with else chain
            out = self.expr(depth - 1) + self.ws() + [tok(self.rng.choice(('JumpIfTrue', 'JumpIfFalse')))] + self.ws() + self.expr(depth - 1)
            while self.rng.random() < 0.5:
                out += self.ws() + [tok('ElseJump')] + self.ws() + self.expr(depth - 1)
                if self.rng.random() < 0.6:
                    out += self.ws() + [tok(self.rng.choice(('JumpIfTrue', 'JumpIfFalse')))] + self.ws() + self.expr(depth - 1)
            return out
        if r < 0.27:
            # list with commas and/or spaces
            out = self.term(depth)
            for _ in range(self.rng.randint(1, 4)):
                q = self.rng.random()
                if q < 0.45:
                    out += [tok('Whitespace')]
                elif q < 0.8:
                    out += self.ws(0.3) + [tok('Comma')] + self.ws(0.6)
                else:
                    out += self.ws(0.6) + [tok('InfixIdentifier')] + self.ws(0.6)
                out += self.term(depth)
            if self.rng.random() < 0.15:
                out += self.ws(0.2) + [tok('Comma')]
            return out
        out = self.term(depth)
        for _ in range(self.rng.choice((0, 1, 1, 2, 2, 3, 4))):
            out += self.ws() + [tok(self.rng.choice(self.binary))] + self.ws() + self.term(depth)
        return out

    def block(self, depth):
        out = self.expr(depth)
        while self.rng.random() < 0.3:
            sep = self.rng.random()
            if sep < 0.6:
                out += [tok('Subexpression', self.rng.choice(('\n\n', '\n\n\n', '\n \n')))]
            elif sep < 0.85:
                out += self.ws(0.4) + [tok('ExpressionSeparator')] + self.ws(0.4)
            else:
                out += self.ws(0.4) + [tok('ExpressionTerminator')] + self.ws(0.4)
            out += self.expr(depth)
        if self.rng.random() < 0.1:
            out += [tok('Subexpression')]
        return out


def mutate(rng, toks, all_types):
    """small random damage so that near-well-formed inputs are covered as well"""
    toks = list(toks)
    for _ in range(rng.choice((1, 1, 2, 3))):
        if not toks:
            break
        i = rng.randrange(len(toks))
        r = rng.random()
        if r < 0.35:
            del toks[i]
        elif r < 0.7:
            toks.insert(i, tok(rng.choice(all_types)))
        elif r < 0.85:
            toks[i] = tok(rng.choice(all_types))
        else:
            j = rng.randrange(len(toks))
            toks[i], toks[j] = toks[j], toks[i]
    return toks


def gen_expressions(seed, tier, mutated=True):
    rng = random.Random(seed * 104729 + 11)
    g = ExprGen(rng)
    all_types = list(tables()['get_definition'].keys())
    count = 200000 if tier == 'thorough' else 50000
    rows = []
    n = 0
    while n < count:
        toks = g.block(rng.choice((1, 2, 2, 3)))
        if len(toks) < 5 or len(toks) > 40:
            continue
        if rng.random() < 0.15:
            toks = ([tok('Whitespace')] if rng.random() < 0.5 else [tok('Subexpression')]) + toks
        if rng.random() < 0.15:
            toks = toks + ([tok('Whitespace')] if rng.random() < 0.5 else [tok('Subexpression')])
        if mutated and rng.random() < 0.35:
            toks = mutate(rng, toks, all_types)
        rows.append(['PARSE', f'w{n}', *toks])
        n += 1
    return rows


# ------------------------------------------------------------------ stream s: token soups

def gen_soups(seed, tier):
    rng = random.Random(seed * 15485863 + 5)
    js = tables()
    gd = js['get_definition']
    all_types = list(gd.keys())
    forbidden = set()
    for arm in js['composition_arms']:
        if not arm['allowed']:
            for p, c in arm['pairs']:
                forbidden.add((p, c))
    closers = {'Group': 'EndGroup', 'NestedExpression': 'EndExpression', 'SideEffect': 'EndSideEffect'}
    count = 240000 if tier == 'thorough' else 60000
    rows = []
    for n in range(count):
        length = rng.randint(5, 60)
        if n % 6 == 0:
            # uniform soup
            toks = [rng.choice(all_types) for _ in range(length)]
        else:
            # guided soup: mostly avoid pairs rejected by check_composition, mostly close what was opened
            prev = 'None'
            stack = []
            toks = []
            careful = rng.choice((0.8, 0.95, 1.0))
            while len(toks) < length:
                t = rng.choice(all_types)
                r = rng.random()
                if r < 0.18:
                    t = 'Whitespace'
                elif r < 0.30:
                    t = rng.choice(('Number', 'Identifier'))
                elif r < 0.36 and stack:
                    t = closers[stack[-1]]
                d, s = gd[t]
                if s in ('EndGrouping', 'EndSideEffect') and rng.random() < careful:
                    if not stack or closers[stack[-1]] != t:
                        continue
                if t == 'Unknown' and rng.random() < 0.98:
                    continue
                if (prev, s) in forbidden and rng.random() < careful:
                    continue
                toks.append(t)
                prev = s
                if s in ('StartGrouping', 'StartSideEffect'):
                    stack.append(d)
                elif s in ('EndGrouping', 'EndSideEffect') and stack:
                    stack.pop()
            if rng.random() < 0.7:
                while stack:
                    if rng.random() < 0.3:
                        toks.append(rng.choice(('Number', 'Identifier', 'Whitespace')))
                    toks.append(closers[stack.pop()])
        rows.append(['PARSE', f's{n}', *[tok(t) for t in toks]])
    return rows


STREAMS = [('e', gen_exhaustive), ('p', gen_pairs), ('w', gen_expressions), ('s', gen_soups)]


def gen_cases(seed, tier='quick', streams=None):
    rows = []
    for name, fn in STREAMS:
        if streams and name not in streams:
            continue
        rows += fn(seed, tier)
    return rows


# ------------------------------------------------------------------ accepted inputs + C04 / C02 checks

def gen_wellformed(seed, tier='quick'):
    """stream p (operator pairs / triples around atoms) and unmutated stream w expressions that the real `parse`
    accepts (rows ['PARSE', id, tok..])"""
    rows = gen_pairs(seed, tier) + gen_expressions(seed, tier, mutated=False)
    impl = vlib.run_impl(rows, 'parsewf')
    return [c for c in rows if impl.get(c[1], '').startswith('ok')]


def check_trees(cases, build=True):
    """C04 / C02 on the real implementation: run PARSE (`!tokidx`) on the implementation, feed its own node dump to the
    verified checker (TREECHK) and compare `toTree(impl)` with the reference parser (REFPARSE).
    Returns (classes: dict name -> list of (case, detail)), counts)."""
    tagged = [c[:2] + ['!tokidx'] + c[2:] for c in cases]
    impl = vlib.run_impl(tagged, 'trees')
    chk, ref, bld = [], [], []
    for c in cases:
        r = impl.get(c[1], '')
        if not r.startswith('ok root='):
            continue
        parts = r.split('\t')
        root = parts[0][len('ok root='):]
        chk.append(['PARSE', c[1], '!treechk', root, str(len(parts) - 1)] + parts[1:] + c[2:])
        ref.append(['PARSE', c[1], '!refparse'] + c[2:])
        bld.append(['BUILD', c[1], 'simple', '0'] + c[2:])
    chkres = vlib.run_model(chk, 'treechk')
    refres = vlib.run_model(ref, 'refparse')
    classes = {}

    def add(k, c, detail):
        classes.setdefault(k, []).append((c, detail))
    need_build = []
    for c in cases:
        i = c[1]
        if i not in chkres:
            add('impl-rejects', c, impl.get(i))
            continue
        fields = dict(kv.split('=', 1) for kv in chkres[i].split(' ', 5) if '=' in kv)
        rr = refres[i]
        if fields.get('proper') != 'true':
            add('C04:improper', c, impl[i])
            need_build.append(c)
            continue
        if fields.get('inorder_sorted') != 'true':
            add('C04:inorder-not-in-source-order', c, chkres[i])
        if fields.get('covers_significant') != 'true':
            add('C04:coverage', c, chkres[i])
        if rr.startswith('ok '):
            if rr[3:] == fields.get('tree'):
                add('C02:agree', c, '')
            else:
                add('C02:tree-differs', c, 'impl=' + fields.get('tree', '') + ' ref=' + rr[3:])
        else:
            add('C02:ref-' + rr.replace(' ', '-'), c, 'impl=' + fields.get('tree', ''))
    if build and need_build:
        # does `build` accept an improper tree? (cyclic ones hang: short deadline)
        rows = [['BUILD', c[1], 'simple', '0'] + c[2:] for c in need_build[:400]]
        b = vlib.run_impl(rows, 'treesbuild', per_case_s=1.0)
        for c in need_build[:400]:
            add('C04:improper/build=' + b.get(c[1], '?').split(' ')[0].split('\t')[0], c, '')
    return classes


# ------------------------------------------------------------------ C18 (parser half): trivia insensitivity

TRIVIA = ('Whitespace', 'Annotation', 'LineAnnotation')


def _ty(field):
    return field.split(',', 1)[0]


def trivia_positions(toks):
    """insertion points i (insert before toks[i], 0 < i < len) where an extra trivia token must not change the tree:
    next to an existing Whitespace token, directly after a binary operator, or between a value and a binary operator"""
    gd = tables()['get_definition']
    out = []
    for i in range(1, len(toks)):
        before, after = _ty(toks[i - 1]), _ty(toks[i])
        sb, sa = gd[before][1], gd[after][1]
        if before == 'Whitespace' or after == 'Whitespace':
            out.append((i, 'ws-adjacent'))
        elif sb in ('BinaryLeftToRight', 'BinaryRightToLeft') and sa in ('Value', 'Identifier', 'UnaryPrefix', 'StartGrouping'):
            out.append((i, 'after-binop'))
        elif sb in ('Value', 'Identifier') and sa in ('BinaryLeftToRight', 'BinaryRightToLeft'):
            out.append((i, 'before-binop'))
    return out


def gen_trivia_pairs(seed, tier='quick'):
    """pairs (row_a, row_b, kind): row_a an input the real `parse` accepts, row_b the same token list with 1-3 extra trivia
    tokens inserted at `trivia_positions`; both rows are ['PARSE', id, tok..] with ids `<id>a` / `<id>b`"""
    rng = random.Random(seed * 2654435761 % (1 << 31) + 7)
    base = gen_wellformed(seed, tier)
    pairs = []
    for c in base:
        toks = c[2:]
        pos = trivia_positions(toks)
        if not pos:
            continue
        new = list(toks)
        kinds = set()
        for i, kind in sorted(rng.sample(pos, min(len(pos), rng.choice((1, 1, 2, 3)))), reverse=True):
            # inside the leading / trailing run of Whitespace / Subexpression tokens only Whitespace is neutral: an annotation
            # there shields the run from `trim_tokens` (finding: `5 \n\n @a` keeps the trailing separator, dangling link)
            edge = all(_ty(x) in ('Whitespace', 'Subexpression') for x in toks[i:]) or \
                all(_ty(x) in ('Whitespace', 'Subexpression') for x in toks[:i])
            if edge:
                t = 'Whitespace'
            elif kind == 'ws-adjacent':
                t = rng.choice(TRIVIA)
            else:
                t = rng.choice(('Whitespace', 'Whitespace', 'Annotation'))
            text = ' ' * rng.choice((1, 2, 3)) if t == 'Whitespace' else None
            new.insert(i, tok(t, text))
            kinds.add(kind + ':' + t)
        pairs.append((['PARSE', c[1] + 'a'] + toks, ['PARSE', c[1] + 'b'] + new, '+'.join(sorted(kinds))))
    return pairs


def same_tree(res_a, res_b):
    """two PARSE result lines describe the same tree: same outcome class, same root, and node for node the same
    definition / secondary definition / parent / left / right (trivia tokens create no nodes, so node ids are the same);
    token text and position are ignored, the token type too for synthesized List nodes (cloned from the previous token)"""
    ha, hb = res_a.split('\t'), res_b.split('\t')
    if not ha[0].startswith('ok root=') or not hb[0].startswith('ok root='):
        return ha[0].split(' ')[0] == hb[0].split(' ')[0] and not ha[0].startswith('ok') and not hb[0].startswith('ok')
    if ha[0] != hb[0] or len(ha) != len(hb):
        return False
    for na, nb in zip(ha[1:], hb[1:]):
        fa, fb = na.split(',', 5), nb.split(',', 5)
        if fa[:4] != fb[:4]:
            return False
        if not fa[0].startswith('List/') and fa[4] != fb[4]:
            return False
    return True


def check_trivia(pairs, runner=None):
    """run both rows of every pair (default: on the real implementation), return the pairs whose trees differ"""
    runner = runner or (lambda rows: vlib.run_impl(rows, 'trivia'))
    rows = [r for a, b, _ in pairs for r in (a, b)]
    res = runner(rows)
    return [(a, b, k, res.get(a[1]), res.get(b[1])) for a, b, k in pairs if not same_tree(res.get(a[1], '?'), res.get(b[1], '?'))]


def analyse(result, case=None):
    """classification of a result: err class / improper features of the part of an `ok` node array that is
    reachable from the root through left/right (for reporting only)"""
    if not result.startswith('ok root='):
        k = result.split('\t')[0].replace(' ', '-')
        if k == 'err-implementation' and case is not None and not any(f.startswith('Unknown,') for f in case[2:]):
            k += '(no-Unknown-token)'
        return k
    parts = result.split('\t')
    root = int(parts[0][len('ok root='):])
    nodes = [p.split(',', 5) for p in parts[1:]]
    n = len(nodes)
    if n == 0:
        return 'ok-empty'
    flags = set()
    link = lambda x: None if x == '-' else int(x)
    par = [link(p[1]) for p in nodes]
    kids = [[link(p[2]), link(p[3])] for p in nodes]
    # reachability / cycles from the root through left/right
    seen = set()
    stack = [(root, False)]
    onpath = set()
    while stack:
        i, leaving = stack.pop()
        if leaving:
            onpath.discard(i)
            continue
        if i in seen:
            continue
        seen.add(i)
        onpath.add(i)
        stack.append((i, True))
        for k in kids[i]:
            if k is not None and k < n:
                if k in onpath:
                    flags.add('cycle')
                else:
                    stack.append((k, False))
    owner = {}
    for i in sorted(seen):
        for k in kids[i]:
            if k is None:
                continue
            if k >= n:
                flags.add('out-of-range')
                continue
            if k in owner:
                flags.add('shared-child')
            owner[k] = i
            if par[k] != i:
                flags.add('parent-mismatch')
    if len(seen) < n:
        flags.add('unreachable-nodes')
    if par[root] is not None:
        flags.add('root-has-parent')
    return 'ok' + ('!' + '+'.join(sorted(flags)) if flags else '')


def main():
    import argparse
    import time
    ap = argparse.ArgumentParser()
    ap.add_argument('--seed', type=int, default=1)
    ap.add_argument('--tier', default='quick')
    ap.add_argument('--streams', default='')
    ap.add_argument('--show', type=int, default=20)
    ap.add_argument('--examples-n', dest='examples_n', type=int, default=3)
    ap.add_argument('--drv', default='', help='path of the Lean driver binary (default: the lake build of /verif/lean)')
    ap.add_argument('--trivia', action='store_true', help='C18 parser half: trivia insertion pairs on the implementation and the model')
    ap.add_argument('--trees', action='store_true', help='C04 / C02 checks on accepted inputs instead of the PARSE comparison')
    ap.add_argument('--errclass', action='store_true', help='compare the error class (syntax / implementation) as well')
    ap.add_argument('--tokidx', action='store_true', help='PARSE comparison in `!tokidx` mode (nodes carry @<token position>)')
    ap.add_argument('--examples', action='store_true', help='print the shortest token list of every result class')
    a = ap.parse_args()
    if a.drv:
        vlib.DRV = a.drv
    if a.trivia:
        pairs = gen_trivia_pairs(a.seed, a.tier)
        for name, runner in (('impl', None), ('model', lambda rows: vlib.run_model(rows, 'trivia'))):
            bad = check_trivia(pairs, runner)
            per = {}
            for _, _, k, _, _ in bad:
                per[k] = per.get(k, 0) + 1
            print(f'trivia pairs={len(pairs)} on {name}: different trees={len(bad)} {per}')
            seen = set()
            for x, y, k, rx, ry in sorted(bad, key=lambda z: len(z[1])):
                if k in seen:
                    continue
                seen.add(k)
                print(f'   [{k}] {" ".join(x[2:])}  ->  {" ".join(y[2:])}')
                print(f'        a: {str(rx)[:300]}')
                print(f'        b: {str(ry)[:300]}')
                if len(seen) >= a.show:
                    break
        return
    if a.trees:
        cases = gen_wellformed(a.seed, a.tier)
        classes = check_trees(cases)
        print(f'accepted inputs={len(cases)} seed={a.seed} tier={a.tier}')
        for k in sorted(classes):
            items = classes[k]
            per = {}
            for c, _ in items:
                per[c[1][0]] = per.get(c[1][0], 0) + 1
            print(f'  {k}: {len(items)} {per}')
            seen = set()
            for c, detail in sorted(items, key=lambda x: len(x[0])):
                sig = tuple(f.split(',', 1)[0] for f in c[2:] if not f.startswith('Whitespace,'))
                if sig in seen:
                    continue
                seen.add(sig)
                print(f'      {" ".join(c[2:])}   {detail[:a.show * 30]}')
                if len(seen) >= a.examples_n:
                    break
        return
    t0 = time.time()
    cases = gen_cases(a.seed, a.tier, set(a.streams) if a.streams else None)
    if a.errclass:
        cases = [c[:2] + ['!errclass'] + c[2:] for c in cases]
    if a.tokidx:
        cases = [c[:2] + ['!tokidx'] + c[2:] for c in cases]
    t1 = time.time()
    impl = vlib.run_impl(cases, 'parse')
    t2 = time.time()
    model = vlib.run_model(cases, 'parse')
    t3 = time.time()
    per_stream = {}
    bad = []
    kinds = {}
    shortest = {}
    for c in cases:
        i = c[1]
        per_stream.setdefault(i[0], [0, 0])
        per_stream[i[0]][0] += 1
        ri, rm = impl.get(i), model.get(i)
        k = analyse(ri or 'MISSING', c)
        kinds[(i[0], k)] = kinds.get((i[0], k), 0) + 1
        if k not in shortest or len(c) < len(shortest[k][0]):
            shortest[k] = (c, ri)
        if ri != rm:
            per_stream[i[0]][1] += 1
            bad.append((c, ri, rm))
    print(f'cases={len(cases)} disagreements={len(bad)} seed={a.seed} tier={a.tier} '
          f'gen={t1 - t0:.1f}s impl={t2 - t1:.1f}s model={t3 - t2:.1f}s')
    for s, (n, d) in sorted(per_stream.items()):
        ks = ' '.join(f'{k}={v}' for (ss, k), v in sorted(kinds.items()) if ss == s)
        print(f'  stream {s}: cases={n} disagreements={d}  impl results: {ks}')
    for c, ri, rm in bad[:a.show]:
        print('DISAGREE', '\t'.join(c))
        print('   impl :', ri)
        print('   model:', rm)
    if a.examples:
        for k, (c, ri) in sorted(shortest.items()):
            print('EXAMPLE', k, '|', ' '.join(c[2:]), '=>', ri)
    sys.exit(1 if bad else 0)


if __name__ == '__main__':
    main()
