"""Rust's DefaultHasher (SipHash-1-3, zero keys) on `str::hash` input (bytes + 0xff) = garnish symbol_value"""
M = (1 << 64) - 1


def _rotl(x, b):
    return ((x << b) | (x >> (64 - b))) & M


def siphash13(data: bytes, k0=0, k1=0):
    v0 = k0 ^ 0x736f6d6570736575
    v1 = k1 ^ 0x646f72616e646f6d
    v2 = k0 ^ 0x6c7967656e657261
    v3 = k1 ^ 0x7465646279746573

    def rnd():
        nonlocal v0, v1, v2, v3
        v0 = (v0 + v1) & M; v1 = _rotl(v1, 13); v1 ^= v0; v0 = _rotl(v0, 32)
        v2 = (v2 + v3) & M; v3 = _rotl(v3, 16); v3 ^= v2
        v0 = (v0 + v3) & M; v3 = _rotl(v3, 21); v3 ^= v0
        v2 = (v2 + v1) & M; v1 = _rotl(v1, 17); v1 ^= v2; v2 = _rotl(v2, 32)

    n = len(data)
    i = 0
    while i + 8 <= n:
        m = int.from_bytes(data[i:i + 8], 'little')
        v3 ^= m
        rnd()
        v0 ^= m
        i += 8
    b = (n & 0xff) << 56
    b |= int.from_bytes(data[i:] + b'\x00' * (8 - (n - i)), 'little') & ((1 << 56) - 1)
    v3 ^= b
    rnd()
    v0 ^= b
    v2 ^= 0xff
    rnd(); rnd(); rnd()
    return (v0 ^ v1 ^ v2 ^ v3) & M


def symbol_value(name: str) -> int:
    return siphash13(name.encode('utf-8') + b'\xff')


if __name__ == '__main__':
    print(symbol_value('x'), symbol_value('a'), symbol_value('b'))
