#!/usr/bin/env python3
"""LEX correspondence cases: the Rust lexer (harness suite LEX) against the Lean model (Garnish.Model.Lexer).

gen_cases(seed, tier) -> rows ['LEX', id, escaped_text]; ids start with the stream letter:
  x…  exhaustive: ALL strings up to length 4 (quick) / 5 (thorough) over an 18-symbol alphabet: one representative
      per character class (fixed core) plus 7 symbols rotated by seed (operator characters, exotic whitespace, unicode)
  p…  every ordered pair of operator spellings (and a few other token spellings), adjacent and separated by a space
  r…  random longer strings (5–60 chars) mixing tokens of all kinds

usage: lexgen.py [--tier quick|thorough] [--seed N]... [--hbin PATH] [--oracle]
       --hbin: harness binary to use (default /verif/harness/target/debug/gharness)
       --oracle: instead of comparing with the model, check the C13 oracle on the implementation's results
       runs both binaries on the cases of every seed and prints case counts, disagreements and the first 20 of them."""
import itertools, os, random, sys, time
HERE = os.path.dirname(os.path.abspath(__file__))
TOOLS = os.path.dirname(HERE)
sys.path.insert(0, TOOLS)
import vlib                                     # noqa: E402
from gen import lex_tables                      # noqa: E402

CORE = ['a', '1', '_', ':', '.', '"', "'", '`', '@', ' ', '\n']
THEMES = [
    ['>', '<', '=', '~', '\t', '\r', '€'],
    ['+', '-', '|', '?', '!', '\\', 'é'],
    ['#', '$', '(', ')', '=', '\x0c', '😀'],
    ['{', '}', '[', ']', ';', ',', '\0'],
    ['*', '/', '%', '&', '^', '~', '٣'],
    ['>', '<', '!', '?', '$', '|', '\r'],
    ['~', '#', '=', '!', '>', '\t', 'Ⅷ'],
    ['+', '*', '/', '(', ')', '²', '\x7f'],
    # whitespace for char::is_whitespace but not for char::is_ascii_whitespace: must be rejected outside literals
    ['\u00a0', '\u2003', '\u3000', '\x85', '\x0b', '+', '\t'],
]
POOL = sorted(set(sum(THEMES, [])) | {'\x0b', '\x1c', '\x85', '\u00a0', '\u2003', '\u3000', '\u1680', '\u2028', 'ǅ', '\u0301', '０'})


def alphabet(seed):
    if seed < len(THEMES):
        extra = THEMES[seed]
    else:
        extra = random.Random(seed * 7919 + 13).sample(POOL, 7)
    return CORE + extra


def operator_spellings():
    src = open(os.path.join(vlib.REPO, lex_tables.LEXER_RS), encoding='utf-8').read()
    try:
        return [s for s, _ in lex_tables.operator_list(src)]
    except RuntimeError:
        # the table as written and the table of the compiled code differ (reported by the translator obligation): the cases are
        # still generated — from the table as written, plus every spelling the compiled code accepts — so that a concrete input shows
        ops = lex_tables.operator_list_strict(src)
        from gen import tables_dump
        d = tables_dump.dump() or {'ops': []}
        return sorted({s for s, _ in ops} | {s for s, _ in d['ops']})


def stream_exhaustive(seed, tier):
    alpha = alphabet(seed)
    maxlen = 5 if tier == 'thorough' else 4
    n = 0
    for length in range(0, maxlen + 1):
        for tup in itertools.product(alpha, repeat=length):
            yield ['LEX', f'x{n}', vlib.esc(''.join(tup))]
            n += 1


PAIR_EXTRA = ['a', '1', '.5', '1.5', '_', ':', ':a', '_a', '"s"', "'b'", '@x', '`f', 'f`', '\n', '\t', '€', '٣']


def stream_pairs(seed, tier):
    sp = operator_spellings() + PAIR_EXTRA
    n = 0
    for a in sp:
        for b in sp:
            yield ['LEX', f'p{n}', vlib.esc(a + b)]
            yield ['LEX', f'p{n + 1}', vlib.esc(a + ' ' + b)]
            n += 2


LETTERS = 'abcxyzEFXO_' + 'éßλЖ中ǅ'
DIGITS = '0123456789' + '٣٠²Ⅷ½０'
MARKS = '́ͅ'


def r_ident(r):
    s = r.choice(LETTERS + ':')
    for _ in range(r.randint(0, 5)):
        s += r.choice(LETTERS + DIGITS + ':_' + MARKS)
    return s


def r_number(r):
    k = r.random()
    d = lambda n=3: ''.join(r.choice('0123456789_' if r.random() < 0.3 else '0123456789') for _ in range(r.randint(1, n)))
    if k < 0.25:
        return d(5)
    if k < 0.35:
        return r.choice(['0x', '0b', '0o', '16r', '2r', '36r']) + ''.join(r.choice('0123456789abcdefABCDEFzZ_') for _ in range(r.randint(0, 4)))
    if k < 0.5:
        return d() + '.' + d()
    if k < 0.58:
        return '.' + d()
    if k < 0.66:
        return d() + '..' + d()
    if k < 0.72:
        return d() + '.'
    if k < 0.78:
        return d() + '.' + d() + '.' + d()
    if k < 0.84:
        return d() + r.choice(['>..', '..<', '>..<', '...', '.|', '._', '_.']) + d()
    if k < 0.9:
        return r.choice(DIGITS) + d()
    if k < 0.95:
        return d() + 'e' + r.choice(['', '-', '+']) + d()
    return d() + r.choice(LETTERS)


def r_quoted(r, q, clean=False):
    n = r.choice([1, 1, 1, 3, 3, 4]) if clean else r.choice([1, 1, 1, 2, 3, 3, 4])
    body = ''
    if clean:
        other = "'" if q == '"' else '"'
        for _ in range(r.randint(0 if n == 1 else 1, 6)):
            body += r.choice(['a', ' ', '\\n', '\\\\', '1', '\n', 'é', '\t', '.', '€', other, q if n > 1 else 'b', 'c'])
        if n > 1 and (body.startswith(q) or body.endswith(q)):
            body = 'x' + body + 'x'
        return q * n + body + q * n
    for _ in range(r.randint(0, 6)):
        body += r.choice(['a', ' ', '\\n', '\\' + q, '\\\\', q, q * 2, '1', '\n', 'é', '\t', '.', '€', '\0', "'", '"'])
    close = r.choice([n, n, n, n, max(1, n - 1), n + 1, 0])
    return q * n + body + q * close


def r_space(r):
    k = r.random()
    if k < 0.5:
        return ' ' * r.randint(1, 3)
    if k < 0.6:
        return r.choice(['\t', ' \t', '\r', '\r\n', ' \r'])
    if k < 0.8:
        return r.choice(['\n', ' \n', '\n ', ' \n ', '\t\n\t'])
    if k < 0.95:
        return r.choice(['\n\n', ' \n\n', '\n \n', '\n\n ', ' \n \n ', '\n\n\n', '\n\t\n\n', ' \n\r\n', '\n\x0c', '\x0c', '\x0c\n', ' \x0c\x0c'])
    return r.choice(['\x0b', '\u00a0', '\u2003', '\u3000', '\x85', '\x1c', '\u1680', '\u2028'])


def r_token(r, ops, clean=False):
    k = r.random()
    if k < 0.2:
        return r.choice(ops)
    if k < 0.35:
        return r_ident(r) + ('a' if clean else '')
    if k < 0.5:
        return r_number(r)
    if k < 0.62:
        return r_space(r)
    if k < 0.68:
        if clean:
            return r.choice(['::', ':a', '::a', ':a:b', 'a:', ':1', ':_', '__', '_1', '_.', '._', '_:'])
        return r.choice([':', '::', ':a', '::a', ':a:b', 'a:', ':1', ':_', '_', '__', '_1', '_.', '._', '_:', ':.'])
    if k < 0.74:
        return r_quoted(r, '"', clean)
    if k < 0.8:
        return r_quoted(r, "'", clean)
    if k < 0.85:
        return r.choice(['@', '@x', '@x_1', '@@', '@@ note\n', '@@x', '@@\n', '@ x', '@@ a @b\n', '@é', '@1'])
    if k < 0.91:
        if clean:
            return r.choice(['`f', 'f`', '`f`', '`f g', 'a`b', '`:a', ':a`', '`_a', '_a`', '`1', '1`'])
        return r.choice(['`f', 'f`', '`f`', '``', '`', '`f g', 'a`b', '`a`b`', '`:a', ':a`', '`_', '_`', '`1', '1`'])
    if k < 0.95 and not clean:
        return r.choice(['€', '\\', '\0', '\x01', '\x7f', '😀', '́', '→', '\x1b'])
    return r.choice(['$', '$?', '$!', '$.1', 'a.1', 'a.1.2', '"s".1', '1 .5', 'a .5', '$ .5', ').5', ')..5', 'a..5'])


def stream_random(seed, tier):
    r = random.Random(seed * 1000003 + 17)
    ops = operator_spellings()
    count = 300000 if tier == 'thorough' else 40000
    for n in range(count):
        target = r.randint(5, 60)
        dirt = r.choice([0.0, 0.0, 0.0, 0.1, 1.0])     # share of tokens drawn from the "anything goes" generators
        s = ''
        while len(s) < target:
            s += r_token(r, ops, clean=not (r.random() < dirt))
            if r.random() < 0.35:
                s += ' '
        if dirt > 0 and r.random() < 0.2:
            s = s[:target]
        elif dirt == 0.0:
            s += r.choice(['', ' ', '\n', '\n\n'])  # avoid most "unterminated" endings
        yield ['LEX', f'r{n}', vlib.esc(s)]


STREAMS = [('x', 'exhaustive', stream_exhaustive), ('p', 'operator pairs', stream_pairs), ('r', 'random long', stream_random)]


def gen_cases(seed, tier):
    cases = []
    for _, _, fn in STREAMS:
        cases.extend(fn(seed, tier))
    return cases


# ------------------------------------------------------------------ direct oracle for property C13 (implementation side only)

FOREIGN = set('€\\\0\x01\x7f😀→\x1b\x0b\x1c\x85\u00a0\u2003\u3000\u1680\u2028\u0301')
LITERALS = {'CharList', 'ByteList', 'LineAnnotation'}


def pos_of(prefix):
    i = prefix.rfind('\n')
    return prefix.count('\n'), len(prefix) - (i + 1)


def parse_tokens(result):
    toks = []
    for f in result.split('\t')[1:]:
        ty, row, col, text = f.split(',', 3)
        toks.append((ty, int(row), int(col), vlib.unesc(text)))
    return toks


_TABLE = []
def _table():
    """(set of (spelling, type), set of types) of the token table as WRITTEN in lexer.rs (the language's table)"""
    if not _TABLE:
        try:
            src = open(os.path.join(vlib.REPO, lex_tables.LEXER_RS), encoding='utf-8').read()
            try:
                ops = lex_tables.operator_list_strict(src)
            except ValueError:
                ops = lex_tables.operator_list(src)
            _TABLE.append((set(ops), {t for _, t in ops}))
        except Exception:
            _TABLE.append(None)
    return _TABLE[0]


def oracle(text, result):
    """list of C13 violation classes of the implementation's result on `text` ([] = fine)"""
    if not result.startswith('ok'):
        return [] if result == 'err' else ['crash:' + result.split(' ')[0]]
    toks = parse_tokens(result)
    bad = []
    if ''.join(t[3] for t in toks) != text:
        bad.append('concat')
    if any(t[3] == '' for t in toks):
        bad.append('empty-token')
    if bad:
        return bad
    off = 0
    spans = []
    for ty, row, col, tx in toks:
        if '\r' not in text and '\x0c' not in text and (row, col) != pos_of(text[:off]):
            bad.append('position')
        if '\x0c' in text and '\r' not in text and (row, col) != pos_of(text[:off]):
            bad.append('position-formfeed')
        if ty not in LITERALS and any(c in FOREIGN for c in tx):
            bad.append('foreign-char-in-' + ty)
        # a quoted literal is classified by the table: opened by a run of n quotes it ends at the FIRST run of n quotes; for the
        # common forms (n = 1, n = 3) the body therefore holds no run of n quotes and does not end in a quote
        if ty in ('CharList', 'ByteList') and tx:
            q = tx[0]
            n = len(tx) - len(tx.lstrip(q))
            if n in (1, 3) and len(tx) > 2 * n and tx.endswith(q * n):
                body = tx[n:len(tx) - n]
                if q * n in body or body.endswith(q):
                    bad.append('literal-runs-past-its-closing-quotes')
        # operators are classified against the language's token table: a token whose type is one of the table's types carries
        # exactly a spelling the table gives that type (a partial spelling such as `>.` of `>..` is not a token)
        tbl = _table()
        if tbl and ty in tbl[1] and (tx, ty) not in tbl[0]:
            bad.append('operator-token-not-in-table')
        spans.append((off, off + len(tx), ty))
        off += len(tx)
    # blank line: a run of spaces/tabs/newlines made only of Whitespace/Subexpression tokens with >= 2 newlines
    i = 0
    while i < len(spans):
        if spans[i][2] in ('Whitespace', 'Subexpression'):
            j = i
            while j < len(spans) and spans[j][2] in ('Whitespace', 'Subexpression'):
                j += 1
            run = text[spans[i][0]:spans[j - 1][1]]
            if '\r' not in run and '\x0c' not in run and run.count('\n') >= 2 and all(sp[2] != 'Subexpression' for sp in spans[i:j]):
                bad.append('blank-line-not-subexpression')
            i = j
        else:
            i += 1
    return sorted(set(bad))


def run_oracle(seeds, tier):
    classes = {}
    total = 0
    for seed in seeds:
        cases = gen_cases(seed, tier)
        impl = vlib.run_impl(cases, f'lexo{seed}')
        total += len(cases)
        for c in cases:
            text = vlib.unesc(c[2])
            for k in oracle(text, impl.get(c[1]) or 'crash:None'):
                e = classes.setdefault(k, [0, None])
                e[0] += 1
                if e[1] is None or len(text) < len(e[1][0]):
                    e[1] = (text, impl.get(c[1]))
    print(f'oracle: {total} cases, violation classes: {len(classes)}')
    for k, (n, (text, res)) in sorted(classes.items()):
        print(f'  {k}: {n} cases; shortest: {vlib.esc(text)!r} -> {res}')
    return classes


def main():
    tier = 'quick'
    seeds = []
    a = sys.argv[1:]
    i = 0
    do_oracle = False
    while i < len(a):
        if a[i] == '--tier':
            tier = a[i + 1]; i += 1
        elif a[i] == '--seed':
            seeds.append(int(a[i + 1])); i += 1
        elif a[i] == '--hbin':
            vlib.HBIN = a[i + 1]; i += 1
        elif a[i] == '--oracle':
            do_oracle = True
        i += 1
    seeds = seeds or [0]
    if do_oracle:
        sys.exit(1 if run_oracle(seeds, tier) else 0)
    total = 0
    bad = []
    counts = {}
    for seed in seeds:
        t0 = time.time()
        cases = gen_cases(seed, tier)
        t1 = time.time()
        impl = vlib.run_impl(cases, f'lex{seed}')
        t2 = time.time()
        model = vlib.run_model(cases, f'lex{seed}')
        t3 = time.time()
        nbad = 0
        for c in cases:
            counts[c[1][0]] = counts.get(c[1][0], 0) + 1
            ri, rm = impl.get(c[1]), model.get(c[1])
            if ri != rm or ri is None:
                nbad += 1
                bad.append((seed, c, ri, rm))
        total += len(cases)
        print(f'seed {seed}: {len(cases)} cases, {nbad} disagreements (alphabet {"".join(vlib.esc(x) for x in alphabet(seed))}) '
              f'gen {t1 - t0:.1f}s impl {t2 - t1:.1f}s model {t3 - t2:.1f}s')
        special = {}
        for c in cases:
            r0 = (impl.get(c[1]) or '').split('\t')[0].split(' ')[0]
            special[r0] = special.get(r0, 0) + 1
        print('  impl verdicts: ' + ', '.join(f'{k}={v}' for k, v in sorted(special.items())))
    print('cases: %d  (%s)' % (total, ', '.join(f'{name}={counts.get(k, 0)}' for k, name, _ in STREAMS)))
    print(f'disagreements: {len(bad)}')
    for seed, c, ri, rm in bad[:20]:
        print(f'  seed={seed} id={c[1]} text={c[2]!r}\n    impl : {ri}\n    model: {rm}')
    sys.exit(1 if bad else 0)


if __name__ == '__main__':
    main()
