#!/usr/bin/env python3
"""HEAP / CACHE correspondence cases for C15: the real stores (harness suites HEAP, CACHE) against the Lean models
(Garnish.Store.BasicHeap, Garnish.Store.SimpleCache), plus an ORACLE that looks at the implementation alone.

gen_cases(seed, tier) -> rows; ids start with the stream letter:
  HEAP  x…  exhaustive: ALL histories up to length 6 (quick) / 7 (thorough) over a 4-token op alphabet (rotated by seed so
            that every operation and every table is covered) x uniform initial size {0,1,2} x policy {f1, f2, m2 (size != 0)}
            plus two seed-chosen mixed configurations
        g…  random histories (10–120 ops) over the full alphabet with random progressing configurations
        l…  random long histories (200–2000 ops) with the default settings (f10 from 10)
        n…  NON-progressing policies (f0, m0, m1, m2 from size 0) mixed with progressing ones: exhaustive short histories
            and random ones; outcomes (silent overwrite / panic) are recorded, implementation and model must still agree
        m…  max_items limits (ERR outcomes)
  CACHE k…  sequences of 2–14 constants from a pool built around the collisions of `impl Hash for SimpleNumber`
            (floats whose Display text is 3 bytes long / the i32 with the same 4 bytes), repeats, near misses

usage: heapgen.py [--tier quick|thorough] [--seed N]... [--hbin PATH] [--oracle] [--cache-model v0|v1] [--only HEAP|CACHE]
  default: run implementation and model on the cases of every seed, print counts and the first disagreements
  --oracle: check the property on the implementation's output alone (no Lean involved)"""
import itertools, os, random, struct, sys, time
from decimal import Decimal
HERE = os.path.dirname(os.path.abspath(__file__))
TOOLS = os.path.dirname(HERE)
sys.path.insert(0, TOOLS)
import vlib                                     # noqa: E402

TOKENS = ['i', 'j', 's1', 's2', 's3', 'e1', 'e2', 'd', 'c', 'r', 'v', 'f', 't0', 't2']
THEMES = [
    ['i', 'j', 'd', 'c'],
    ['s2', 's1', 'd', 'i'],
    ['d', 'r', 'v', 'f'],
    ['e2', 'e1', 's1', 'c'],
    ['j', 't2', 'f', 's1'],
    ['c', 'r', 'e1', 't0'],
    ['i', 'v', 's2', 's2'],
]
PROGRESSING = ['f1', 'f2', 'm2']
NONPROG = ['f0', 'm0', 'm1', 'm2']          # m2 only counts as non-progressing from size 0


def alphabet(seed):
    if seed < len(THEMES):
        return THEMES[seed]
    return random.Random(seed * 7919 + 5).sample(TOKENS, 4)


def progresses(pol, size):
    n = int(pol[1:].split('x')[0])
    return n >= 1 if pol[0] == 'f' else (n >= 2 and size >= 1)


def uniform_configs():
    out = []
    for z in (0, 1, 2):
        for p in PROGRESSING:
            if progresses(p, z):
                out.append(([p] * 6, [z] * 6))
    return out


def random_config(r, progressing=True):
    while True:
        sizes = [r.choice((0, 1, 2)) for _ in range(6)]
        pols = []
        for z in sizes:
            if progressing:
                pols.append(r.choice([p for p in PROGRESSING + ['f3', 'm3'] if progresses(p, z)]))
            else:
                pols.append(r.choice(NONPROG + PROGRESSING))
        if progressing or any(not progresses(p, z) for p, z in zip(pols, sizes)):
            return pols, sizes


def row(cid, pols, sizes, ops):
    return ['HEAP', cid, ','.join(pols), ','.join(map(str, sizes)), ' '.join(ops)]


def stream_exhaustive(seed, tier):
    r = random.Random(seed * 31 + 1)
    alpha = alphabet(seed)
    maxlen = 7 if tier == 'thorough' else 6
    configs = uniform_configs() + [random_config(r), random_config(r)]
    n = 0
    for pols, sizes in configs:
        for length in range(0, maxlen + 1):
            for tup in itertools.product(alpha, repeat=length):
                yield row(f'x{n}', pols, sizes, tup)
                n += 1


def stream_random(seed, tier):
    r = random.Random(seed * 31 + 2)
    for n in range(3000 if tier == 'thorough' else 800):
        pols, sizes = random_config(r)
        ops = [r.choice(TOKENS) for _ in range(r.randint(10, 120))]
        yield row(f'g{n}', pols, sizes, ops)


def stream_long(seed, tier):
    r = random.Random(seed * 31 + 3)
    for n in range(150 if tier == 'thorough' else 40):
        weights = [r.random() ** 2 + 0.02 for _ in TOKENS]
        ops = r.choices(TOKENS, weights=weights, k=r.randint(200, 2000))
        yield row(f'l{n}', ['f10'] * 6, [10] * 6, ops)


def stream_nonprogress(seed, tier):
    r = random.Random(seed * 31 + 4)
    alpha = alphabet(seed)
    n = 0
    configs = [(['f0'] * 6, [0] * 6), (['f0'] * 6, [1] * 6), (['m2'] * 6, [0] * 6), (['m1'] * 6, [1] * 6), (['m1'] * 6, [2] * 6),
               (['m0'] * 6, [1] * 6), (['f0', 'f1', 'f1', 'f1', 'f1', 'f1'], [0, 1, 0, 0, 0, 0]), (['f1', 'f1', 'f1', 'f1', 'f1', 'f0'], [1] * 6)]
    configs += [random_config(r, progressing=False) for _ in range(4)]
    for pols, sizes in configs:
        for length in range(0, 5):
            for tup in itertools.product(alpha, repeat=length):
                yield row(f'n{n}', pols, sizes, tup)
                n += 1
    for _ in range(1500 if tier == 'thorough' else 400):
        pols, sizes = random_config(r, progressing=False)
        ops = [r.choice(TOKENS) for _ in range(r.randint(1, 30))]
        yield row(f'n{n}', pols, sizes, ops)
        n += 1


def stream_max(seed, tier):
    r = random.Random(seed * 31 + 5)
    for n in range(300 if tier == 'thorough' else 100):
        pols, sizes = random_config(r)
        for k in r.sample(range(6), r.randint(1, 3)):
            pols[k] = pols[k] + 'x' + str(r.randint(0, 6))
        ops = [r.choice(TOKENS) for _ in range(r.randint(1, 25))]
        yield row(f'm{n}', pols, sizes, ops)


# ------------------------------------------------------------------ CACHE

def fbits(x):
    return struct.unpack('<Q', struct.pack('<d', x))[0]


def rust_display(x):
    """format!("{}", x) for an f64"""
    if x != x:
        return 'NaN'
    if x in (float('inf'), float('-inf')):
        return 'inf' if x > 0 else '-inf'
    if x == 0:
        return '-0' if struct.pack('<d', x)[7] & 0x80 else '0'
    s = format(Decimal(repr(x)), 'f')
    if s.endswith('.0'):
        s = s[:-2]
    return s


def fterm(x):
    return '(f %016x %s)' % (fbits(x), rust_display(x))


def colliding_int(x):
    d = rust_display(x).encode()
    if len(d) != 3:
        return None
    return int.from_bytes(d + b'\xff', 'little', signed=True)


def const_pool(r):
    floats = [1.5, 0.5, 2.5, 9.9, 100.0, 999.0, -10.0, -99.0, float('inf'), 1.0, 0.0, -0.0, 1e21, 1.5e-7, 0.1, 3.25,
              r.choice([x / 10 for x in range(1, 100)]), float(r.randint(100, 999)), float(-r.randint(10, 99)), r.random() * 1000]
    pool = []
    for x in floats:
        pool.append(fterm(x))
        c = colliding_int(x)
        if c is not None:
            pool.append('(i %d)' % c)
            pool.append('(i %d)' % (c + 1))
    pool.append('(f 7ff8000000000000 NaN)')
    pool.append('(f 7ff8000000000001 NaN)')
    pool += ['(i 0)', '(i 1)', '(i -1)', '(i 97)', '(i 2147483647)', '(i -2147483648)', '(i %d)' % r.randint(-1000, 1000)]
    pool += ['(c 97)', '(c 98)', '(c 233)', '(c 128512)', '(b 97)', '(b 0)', '(b 255)', '(s 97)', '(s 0)', '(s 18446744073709551615)',
             '(e 97)', '(e 0)', '(x 97)', '(x 0)', '(ty Number)', '(ty Char)', '(ty List)',
             '(cl)', '(cl 97)', '(cl 97 98)', '(cl 233)', '(cl 49 46 53)', '(cl 128512 8364 97)', '(bl)', '(bl 97)', '(bl 97 98)', '(bl 0)', '(bl 255 1)']
    return pool


def stream_cache(seed, tier, variant='v0'):
    r = random.Random(seed * 31 + 6)
    for n in range(12000 if tier == 'thorough' else 4500):
        pool = const_pool(r)
        style = r.random()
        if style < 0.35:
            # collision-centred: a float, its colliding integer, repeats
            fl = [p for p in pool if p.startswith('(f')]
            x = r.choice(fl)
            k = pool.index(x)
            sub = pool[k:k + 3] + r.sample(pool, 3)
            terms = [r.choice(sub) for _ in range(r.randint(2, 10))]
        else:
            terms = [r.choice(pool) for _ in range(r.randint(2, 14))]
        yield ['CACHE', f'k{n}', variant] + terms


STREAMS = [('x', 'exhaustive', stream_exhaustive), ('g', 'random', stream_random), ('l', 'long', stream_long),
           ('n', 'non-progressing', stream_nonprogress), ('m', 'max-items', stream_max)]


def gen_cases(seed, tier, only=None, variant='v0'):
    cases = []
    if only in (None, 'HEAP'):
        for _, _, fn in STREAMS:
            cases.extend(fn(seed, tier))
    if only in (None, 'CACHE'):
        cases.extend(stream_cache(seed, tier, variant))
    return cases


# ------------------------------------------------------------------ oracle (implementation only)

def fields(res):
    out = {}
    for part in res.split(' ')[1:]:
        if '=' in part:
            k, v = part.split('=', 1)
            out[k] = v
    return out


def text_char(k, i):
    return 97 + (k + i) % 26


def heap_oracle(case, res):
    """list of violation classes for one HEAP case: everything added reads back unchanged after all later operations"""
    if res is None or not res.startswith('ok '):
        return ['not-ok:' + (res or 'None').split(' ')[0].split('@')[0]]
    f = fields(res)
    ops = case[4].split()
    bad = []
    if f.get('O') != 'ok':
        bad.append('harness-oracle:' + f.get('O', '?').split(':', 1)[-1].split('[')[0])
    want = {k: [] for k in 'IJDTCRV'}
    syms, exprs, frames = [], [], []
    for k, op in enumerate(ops):
        a = op[0]
        if a == 'i':
            want['I'].append(f'i{k}')
        elif a == 'j':
            want['J'].append(f'j{k}')
        elif a == 's':
            syms.append((int(op[1:]), k))
        elif a == 'e':
            exprs.append((int(op[1:]), k))
        elif a == 'd':
            want['D'].append(f'n{k}')
        elif a == 'c':
            want['C'].append(f'c{k}')
        elif a == 'r':
            want['R'].append(str(k))
        elif a == 'v':
            want['V'].insert(0, str(k))
        elif a == 'f':
            frames.insert(0, f'{k}/{len(want["R"])}')
        elif a == 't':
            n = int(op[1:])
            want['T'].append('.'.join([f't{n}'] + [f'h{text_char(k, i)}' for i in range(n)]))
    for key, w in want.items():
        if f.get(key, '') != ','.join(w):
            bad.append('readback-' + key)
    if f.get('F', '') != ','.join(frames):
        bad.append('readback-F')
    if f.get('S', '') != ','.join(f'a{s}:{v}' for s, v in sorted(syms, key=lambda p: p[0])):
        bad.append('readback-S')
    got_e = f.get('E', '').split(',') if exprs else []
    for (s, _), g in zip(exprs, got_e):
        if g not in [str(v) for s2, v in exprs if s2 == s]:
            bad.append('readback-E')
            break
    if len(got_e) != len(exprs):
        bad.append('readback-E')
    return bad


def cache_oracle(case, res):
    if res is None or not res.startswith('ok '):
        return ['not-ok:' + (res or 'None').split(' ')[0]]
    f = fields_cache(res)
    terms = [t for t in case[3:] if not (t.startswith('(xcl') or t.startswith('(xbl') or t.startswith('(xl'))]      # abandoned constructions (variant `parse`) add no value
    want = []
    for t in terms:
        p = t.strip('()').split(' ')
        if p[0] == 'f':
            want.append('(f nan)' if p[2] == 'NaN' else f'(f {p[1]})')
        else:
            want.append(t)
    addrs = f['A'].split(',')
    reads = f['R'].split(';')
    bad = []
    for k in range(len(terms)):
        if reads[k] != want[k]:
            bad.append('cache-readback')
            break
    for a in range(len(terms)):
        for b in range(a):
            if want[a] == '(f nan)' or want[b] == '(f nan)':
                continue
            if (want[a] == want[b]) != (addrs[a] == addrs[b]):
                bad.append('cache-intern-same' if want[a] == want[b] else 'cache-intern-different')
    if f.get('O', 'ok') != 'ok':
        bad.append('harness-verdict:' + f['O'].replace(' ', '_'))     # read-back / interning on the object and on its clones
    return sorted(set(bad))


def fields_cache(res):
    body = res[3:]
    out = {}
    a, rest = body.split(' R=', 1)
    out['A'] = a[2:]
    r, rest = rest.split(' X=', 1)
    out['R'] = r
    x, _, o = rest.partition(' O=')
    out['X'] = x
    out['O'] = o
    return out


def run_oracle(seeds, tier, only):
    classes = {}
    total = 0
    counted = {}
    for seed in seeds:
        cases = gen_cases(seed, tier, only)
        impl = vlib.run_impl(cases, f'heapo{seed}')
        total += len(cases)
        for c in cases:
            stream = c[1][0]
            res = impl.get(c[1])
            bad = cache_oracle(c, res) if c[0] == 'CACHE' else heap_oracle(c, res)
            counted[stream] = counted.get(stream, 0) + 1
            for k in bad:
                key = f'{stream}:{k}'
                e = classes.setdefault(key, [0, None])
                e[0] += 1
                size = len('\t'.join(c[2:]))
                if e[1] is None or size < e[1][0]:
                    e[1] = (size, c, res)
    print(f'oracle: {total} cases ({", ".join(f"{k}={v}" for k, v in sorted(counted.items()))}), violation classes: {len(classes)}')
    for k, (n, (_, c, res)) in sorted(classes.items()):
        print(f'  {k}: {n} cases; shortest: {" | ".join(c[2:])}\n      -> {res}')
    # streams x g l (progressing settings) must be clean; n (non-progressing) and k (cache) are findings
    return {k: v for k, v in classes.items() if k[0] in 'xgl'}, classes


def strip_oracle(res):
    if res is None:
        return None
    i = res.find(' O=')
    return res if i < 0 else res[:i]


def main():
    tier = 'quick'
    seeds = []
    a = sys.argv[1:]
    i = 0
    do_oracle = False
    only = None
    variant = 'v0'
    while i < len(a):
        if a[i] == '--tier':
            tier = a[i + 1]; i += 1
        elif a[i] == '--seed':
            seeds.append(int(a[i + 1])); i += 1
        elif a[i] == '--hbin':
            vlib.HBIN = a[i + 1]; i += 1
        elif a[i] == '--oracle':
            do_oracle = True
        elif a[i] == '--only':
            only = a[i + 1]; i += 1
        elif a[i] == '--cache-model':
            variant = a[i + 1]; i += 1
        i += 1
    seeds = seeds or [0]
    if do_oracle:
        hard, _ = run_oracle(seeds, tier, only)
        sys.exit(1 if hard else 0)
    total = 0
    bad = []
    counts = {}
    verdicts = {}
    for seed in seeds:
        t0 = time.time()
        cases = gen_cases(seed, tier, only, variant)
        t1 = time.time()
        impl = vlib.run_impl(cases, f'heap{seed}')
        t2 = time.time()
        model = vlib.run_model(cases, f'heap{seed}')
        t3 = time.time()
        nbad = 0
        for c in cases:
            counts[c[1][0]] = counts.get(c[1][0], 0) + 1
            ri, rm = strip_oracle(impl.get(c[1])), model.get(c[1])
            v = (ri or 'None').split(' ')[0].split('@')[0]
            verdicts[(c[1][0], v)] = verdicts.get((c[1][0], v), 0) + 1
            if ri != rm or ri is None:
                nbad += 1
                bad.append((seed, c, ri, rm))
        total += len(cases)
        print(f'seed {seed}: {len(cases)} cases, {nbad} disagreements (alphabet {" ".join(alphabet(seed))}) '
              f'gen {t1 - t0:.1f}s impl {t2 - t1:.1f}s model {t3 - t2:.1f}s', flush=True)
    names = {k: n for k, n, _ in STREAMS}
    names['k'] = 'cache'
    print('cases: %d  (%s)' % (total, ', '.join(f'{names.get(k, k)}={v}' for k, v in sorted(counts.items()))))
    print('impl verdicts: ' + ', '.join(f'{names.get(s, s)}:{v}={n}' for (s, v), n in sorted(verdicts.items())))
    print(f'disagreements: {len(bad)}')
    for seed, c, ri, rm in bad[:20]:
        print(f'  seed={seed} {" | ".join(c)}\n    impl : {ri}\n    model: {rm}')
    sys.exit(1 if bad else 0)


if __name__ == '__main__':
    main()
