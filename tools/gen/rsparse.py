"""tiny helpers to pull syntactically stable constructs out of Rust source text"""
import re


def strip_comments(src):
    src = re.sub(r'/\*.*?\*/', '', src, flags=re.S)
    out = []
    for line in src.split('\n'):
        # drop // comments (not inside string literals: good enough for the constructs we read)
        i = 0
        in_s = False
        res = line
        while i < len(line):
            c = line[i]
            if c == '"' and (i == 0 or line[i - 1] != '\\'):
                in_s = not in_s
            if not in_s and line.startswith('//', i):
                res = line[:i]
                break
            i += 1
        out.append(res)
    return '\n'.join(out)


def block_after(src, start_idx):
    """text of the {...} block starting at the first '{' at/after start_idx (balanced)"""
    i = src.index('{', start_idx)
    depth = 0
    j = i
    while j < len(src):
        if src[j] == '{':
            depth += 1
        elif src[j] == '}':
            depth -= 1
            if depth == 0:
                return src[i + 1:j], j + 1
        j += 1
    raise ValueError('unbalanced block')


def enum_variants(src, name):
    m = re.search(r'pub enum %s\b' % re.escape(name), src)
    if not m:
        raise ValueError(f'enum {name} not found')
    body, _ = block_after(src, m.end())
    body = strip_comments(body)
    vs = []
    for part in body.split(','):
        part = re.sub(r'#\[[^\]]*\]', '', part).strip()
        if not part:
            continue
        mm = re.match(r'([A-Za-z_][A-Za-z0-9_]*)', part)
        if mm:
            vs.append(mm.group(1))
    return vs


def fn_body(src, name):
    m = re.search(r'fn %s\b' % re.escape(name), src)
    if not m:
        raise ValueError(f'fn {name} not found')
    body, _ = block_after(src, m.end())
    return strip_comments(body)
