"""parser tables of compiler/src/parse/parser.rs -> Garnish/Gen/ParseTables.lean

Extracted (nothing is hand-copied; every construct that cannot be read raises):
  get_definition     TokenType -> (Definition, SecondaryDefinition), one arm per TokenType variant
  make_priority_map  the ordered `map.insert(Definition::X, n)` calls; a later insert of a key wins (HashMap)
  check_composition  the match arms (pattern pairs, optional `if [!]check_for_list` guard, error / ok) in source order
  impl Definition    is_value_like / is_group_like / is_conditional / is_optional  (`self == Definition::X || ...`)
"""
import os
import re
from gen.rsparse import enum_variants, fn_body, strip_comments, block_after
from gen.enums_tables import lean_name

PATH = 'compiler/src/parse/parser.rs'
LEXER = 'compiler/src/lex/lexer.rs'


def non_test_source(src):
    i = src.find('#[cfg(test)]')
    return src if i < 0 else src[:i]


def split_top(s, sep):
    """split on `sep` at bracket depth 0"""
    out, depth, cur = [], 0, []
    i = 0
    while i < len(s):
        c = s[i]
        if c in '([{':
            depth += 1
        elif c in ')]}':
            depth -= 1
        if depth == 0 and s.startswith(sep, i):
            out.append(''.join(cur))
            cur = []
            i += len(sep)
            continue
        cur.append(c)
        i += 1
    out.append(''.join(cur))
    return out


def read_get_definition(src, token_types, definitions, secdefs):
    body = fn_body(src, 'get_definition')
    m = re.match(r'\s*match\s+token_type\s*', body)
    if not m:
        raise ValueError('get_definition: body is not `match token_type {..}`')
    inner, end = block_after(body, m.end())
    if body[end:].strip():
        raise ValueError('get_definition: trailing code after the match')
    table = {}
    for arm in split_top(inner, ','):
        arm = arm.strip()
        if not arm:
            continue
        mm = re.fullmatch(r'TokenType::(\w+)\s*=>\s*\(\s*Definition::(\w+)\s*,\s*SecondaryDefinition::(\w+)\s*\)', arm)
        if not mm:
            raise ValueError(f'get_definition: cannot read arm {arm!r}')
        t, d, s = mm.groups()
        if t not in token_types or d not in definitions or s not in secdefs:
            raise ValueError(f'get_definition: unknown name in arm {arm!r}')
        if t in table:
            raise ValueError(f'get_definition: duplicate arm for {t}')
        table[t] = (d, s)
    missing = [t for t in token_types if t not in table]
    if missing:
        raise ValueError(f'get_definition: no arm for {missing}')
    return table


def read_priority(src, definitions):
    body = fn_body(src, 'make_priority_map')
    stmts = [s.strip() for s in body.split(';')]
    if stmts[0] != 'let mut map = HashMap::new()':
        raise ValueError(f'make_priority_map: unexpected first statement {stmts[0]!r}')
    if stmts[-1] != 'map':
        raise ValueError(f'make_priority_map: unexpected tail {stmts[-1]!r}')
    inserts = []
    for s in stmts[1:-1]:
        mm = re.fullmatch(r'map\.insert\(\s*Definition::(\w+)\s*,\s*(\d+)\s*\)', s)
        if not mm:
            raise ValueError(f'make_priority_map: cannot read statement {s!r}')
        if mm.group(1) not in definitions:
            raise ValueError(f'make_priority_map: unknown definition {mm.group(1)}')
        inserts.append((mm.group(1), int(mm.group(2))))
    return inserts


def read_check_composition(src, secdefs):
    body = fn_body(src, 'check_composition')
    body = re.sub(r'trace!\([^;]*\);', '', body)
    m = re.match(r'\s*match\s+\(\s*previous\s*,\s*current\s*\)\s*', body)
    if not m:
        raise ValueError('check_composition: body is not `match (previous, current) {..}`')
    inner, end = block_after(body, m.end())
    if body[end:].strip():
        raise ValueError('check_composition: trailing code after the match')
    arms = []
    default = None
    for arm in split_top(inner, ','):
        arm = arm.strip()
        if not arm:
            continue
        if default is not None:
            raise ValueError('check_composition: arm after the wildcard arm')
        if '=>' not in arm:
            raise ValueError(f'check_composition: cannot read arm {arm!r}')
        pat, res = arm.split('=>', 1)
        res = re.sub(r'\s+', '', res)
        if res == 'composition_error(previous,current,&token)':
            allowed = False
        elif res == 'Ok(())':
            allowed = True
        else:
            raise ValueError(f'check_composition: unknown arm result {res!r}')
        pat = pat.strip()
        guard = None
        gm = re.search(r'\bif\b(.*)$', pat, flags=re.S)
        if gm:
            g = re.sub(r'\s+', '', gm.group(1))
            if g == '!check_for_list':
                guard = False
            elif g == 'check_for_list':
                guard = True
            else:
                raise ValueError(f'check_composition: unknown guard {g!r}')
            pat = pat[:gm.start()].strip()
        if pat == '_':
            if guard is not None:
                raise ValueError('check_composition: guarded wildcard')
            default = allowed
            continue
        pairs = []
        for p in split_top(pat, '|'):
            p = p.strip()
            if not p:
                continue
            mm = re.fullmatch(r'\(\s*SecondaryDefinition::(\w+)\s*,\s*SecondaryDefinition::(\w+)\s*\)', p)
            if not mm or mm.group(1) not in secdefs or mm.group(2) not in secdefs:
                raise ValueError(f'check_composition: cannot read pattern {p!r}')
            pairs.append((mm.group(1), mm.group(2)))
        arms.append({'pairs': pairs, 'guard': guard, 'allowed': allowed})
    if default is None:
        raise ValueError('check_composition: no wildcard arm')
    return arms, default


def read_predicate(src, name, definitions):
    m = re.search(r'impl Definition\b', src)
    if not m:
        raise ValueError('impl Definition not found')
    impl, _ = block_after(src, m.end())
    body = re.sub(r'\s+', '', fn_body(impl, name))
    out = []
    for part in body.split('||'):
        mm = re.fullmatch(r'self==Definition::(\w+)', part)
        if not mm or mm.group(1) not in definitions:
            raise ValueError(f'{name}: cannot read disjunct {part!r}')
        out.append(mm.group(1))
    return out


def generate(repo):
    raw = open(os.path.join(repo, PATH), encoding='utf-8').read()
    src = non_test_source(raw)
    token_types = enum_variants(open(os.path.join(repo, LEXER), encoding='utf-8').read(), 'TokenType')
    definitions = enum_variants(src, 'Definition')
    secdefs = enum_variants(src, 'SecondaryDefinition')

    # each table: read from the source text when it has the expected form, otherwise taken from the TABLES dump of the
    # compiled code (harness + garnish_verif hooks); when both are available they must agree
    from gen import tables_dump
    dump = tables_dump.dump()
    sources = {}
    def table(name, read, from_dump, same):
        try:
            v = read()
            sources[name] = 'source text'
            if dump is not None and not same(v):
                raise RuntimeError(f'{name}: the table read from the source text differs from the table of the compiled code')
            return v
        except (ValueError, IndexError, KeyError) as e:
            if dump is None:
                raise
            sources[name] = f'compiled code (TABLES dump; the source form was not recognised: {e})'
            return from_dump()
    getdef = table('get_definition', lambda: read_get_definition(src, token_types, definitions, secdefs),
                   lambda: {t: dump['getdef'][t] for t in token_types},
                   lambda v: {t: tuple(x) for t, x in v.items()} == {t: tuple(x) for t, x in dump['getdef'].items()})
    def eff(ins):
        e = {}
        for d, n in ins:
            e[d] = n
        return e
    inserts = table('make_priority_map', lambda: read_priority(src, definitions),
                    lambda: sorted(dump['prio'].items(), key=lambda kv: (kv[1], definitions.index(kv[0]) if kv[0] in definitions else 999)),
                    lambda v: eff(v) == dump['prio'])
    effective = eff(inserts)
    def arms_of_dump():
        # one guarded arm per flag value that alone rejects a pair, then one arm with the pairs rejected either way; default ok
        both, only_f, only_t = [], [], []
        for p_ in secdefs:
            for c_ in secdefs:
                rf, rt = dump['comp'][(p_, c_, False)], dump['comp'][(p_, c_, True)]
                if rf and rt: both.append((p_, c_))
                elif rf: only_f.append((p_, c_))
                elif rt: only_t.append((p_, c_))
        arms = []
        if only_f: arms.append({'pairs': [list(x) for x in only_f], 'guard': False, 'allowed': False})
        if only_t: arms.append({'pairs': [list(x) for x in only_t], 'guard': True, 'allowed': False})
        if both: arms.append({'pairs': [list(x) for x in both], 'guard': None, 'allowed': False})
        return arms, True
    def comp_eval(arms_default, p_, c_, flag):
        arms, default = arms_default
        for a in arms:
            if [p_, c_] in [list(x) for x in a['pairs']] and (a['guard'] is None or a['guard'] == flag):
                return a['allowed']
        return default
    arms, default = table('check_composition', lambda: read_check_composition(src, secdefs), arms_of_dump,
                          lambda v: all((not comp_eval(v, p_, c_, fl)) == dump['comp'][(p_, c_, fl)] for p_ in secdefs for c_ in secdefs for fl in (False, True)))
    preds = {}
    for pn in ('is_value_like', 'is_group_like', 'is_conditional', 'is_optional'):
        preds[pn] = table(pn, lambda pn=pn: read_predicate(src, pn, definitions),
                          lambda pn=pn: [d for d in definitions if d in dump['preds'][pn]],
                          lambda v, pn=pn: sorted(v) == sorted(dump['preds'][pn]) or len(dump['defs']) < len(definitions))

    L = ['/- GENERATED by tools/gen_tables.py from compiler/src/parse/parser.rs — do not edit. -/',
         'import Garnish.Gen.Enums', 'namespace Garnish.Gen', '']
    L.append('/-- `get_definition` (one arm per TokenType variant) -/')
    L.append('def getDefinition : TokenType → Definition × SecDef')
    for t in token_types:
        d, s = getdef[t]
        L.append(f'  | .{lean_name(t)} => (.{lean_name(d)}, .{lean_name(s)})')
    L.append('')
    L.append('/-- `make_priority_map`: the `map.insert` calls in source order -/')
    L.append('def priorityInserts : List (Definition × Nat) := [')
    L.append(',\n'.join(f'  (.{lean_name(d)}, {n})' for d, n in inserts))
    L.append(']')
    L.append('')
    L.append('/-- effective content of the priority HashMap (a later insert of the same key wins) -/')
    L.append('def priority : Definition → Option Nat')
    for d in definitions:
        if d in effective:
            L.append(f'  | .{lean_name(d)} => some {effective[d]}')
        else:
            L.append(f'  | .{lean_name(d)} => none')
    L.append('')
    L.append('/-- arms of the `match (previous, current)` of `check_composition` in source order:')
    L.append('    (patterns, guard on check_for_list (none = no guard), allowed) -/')
    L.append('def compositionArms : List (List (SecDef × SecDef) × Option Bool × Bool) := [')
    arm_txt = []
    for a in arms:
        ps = ', '.join(f'(.{lean_name(p)}, .{lean_name(c)})' for p, c in a['pairs'])
        g = 'none' if a['guard'] is None else f'some {"true" if a["guard"] else "false"}'
        arm_txt.append(f'  ([{ps}], {g}, {"true" if a["allowed"] else "false"})')
    L.append(',\n'.join(arm_txt))
    L.append(']')
    L.append(f'/-- result of the wildcard arm -/')
    L.append(f'def compositionDefault : Bool := {"true" if default else "false"}')
    L.append('')
    L.append('/-- first matching arm wins, as in a Rust `match`; `true` = `Ok(())`, `false` = composition error -/')
    L.append('def checkCompositionArms (prev cur : SecDef) (checkForList : Bool) :')
    L.append('    List (List (SecDef × SecDef) × Option Bool × Bool) → Bool')
    L.append('  | [] => compositionDefault')
    L.append('  | (pats, guard, allowed) :: rest =>')
    L.append('    if pats.contains (prev, cur) && (match guard with | none => true | some g => g == checkForList)')
    L.append('    then allowed else checkCompositionArms prev cur checkForList rest')
    L.append('')
    L.append('def checkComposition (prev cur : SecDef) (checkForList : Bool) : Bool :=')
    L.append('  checkCompositionArms prev cur checkForList compositionArms')
    L.append('')
    for p, lean in (('is_value_like', 'isValueLike'), ('is_group_like', 'isGroupLike'), ('is_conditional', 'isConditional'),
                    ('is_optional', 'isOptional')):
        L.append(f'/-- `Definition::{p}` -/')
        L.append(f'def Definition.{lean} : Definition → Bool')
        for d in preds[p]:
            L.append(f'  | .{lean_name(d)} => Bool.true')
        if len(preds[p]) < len(definitions):
            L.append('  | _ => Bool.false')
        L.append('')
    L.append('end Garnish.Gen')

    js = {
        'get_definition': {t: list(v) for t, v in getdef.items()},
        'priority_inserts': [[d, n] for d, n in inserts],
        'priority': effective,
        'composition_arms': arms,
        'composition_default': default,
        'predicates': preds,
        'sources': sources,
    }
    return {'Garnish/Gen/ParseTables.lean': '\n'.join(L) + '\n'}, js
