"""Cast correspondence (OP suite, instruction ApplyType): the cast matrix of opgen (every left representative x every
target type, as `(ty T)` and as a value of that type) x {SimpleGarnishData, BasicGarnishData} x host {absent, decline,
accept}: real `type_cast` (harness) against `castOp` (lean/Garnish/Abs/Casts.lean, through Driver/OpDrv.lean).

  python3 tools/gen/castgen.py [--drv PATH] [--hazards] [--random N SEED] [--show N] [--stores simple,basic] [--modes decline]

prints statistics, every skip reason with its count, and the disagreements (grouped by left type -> target type).
`--random N SEED` replaces the matrix by N random nested left operands (both stores each).
`--hazards` runs opgen.CAST_HAZARDS (reproducers that hang / allocate without bound) on the implementation only.
"""
import os
import sys

sys.path.insert(0, os.path.dirname(os.path.dirname(os.path.abspath(__file__))))
import vlib
import opsuite
from gen import opgen


def gen(stores=None, modes=None):
    return opgen.gen_cases(instrs_bin=['ApplyType'], instrs_un=[], stores=stores or opgen.STORES, modes=modes or opgen.MODES)


def rand_value(rnd, depth):
    """random value term: small ranges only (no huge allocations), every constructor"""
    atoms = ['U', 'T', 'F', lambda: '(i %d)' % rnd.choice([0, 1, 2, 5, -1, -3, 97, 255, 256, 1000, 2147483647, -2147483648]),
             lambda: opgen.fb(rnd.choice([0.0, 1.5, -0.5, 2.0, 3.75])), lambda: '(c %d)' % rnd.choice([97, 58, 48, 233, 8364, 128512]),
             lambda: '(b %d)' % rnd.choice([0, 7, 97, 255]), lambda: '(s %d)' % rnd.choice([0, 5, 11, 2 ** 64 - 1]),
             lambda: '(e %d)' % rnd.randrange(3), lambda: '(x %d)' % rnd.randrange(4),
             lambda: '(ty %s)' % rnd.choice(opgen.CAST_TARGET_TYPES),
             lambda: '(cl' + ''.join(' %d' % rnd.choice([97, 98, 58, 49, 50, 45, 43, 32, 233, 8364]) for _ in range(rnd.randrange(5))) + ')',
             lambda: '(bl' + ''.join(' %d' % rnd.randrange(256) for _ in range(rnd.randrange(4))) + ')',
             lambda: '(syl' + ''.join(' (s %d)' % rnd.randrange(20) for _ in range(2 + rnd.randrange(2))) + ')']
    def small_range():
        k = rnd.random()
        if k < 0.8:
            return '(r (i %d) (i %d))' % (rnd.randrange(-2, 5), rnd.randrange(-2, 7))
        if k < 0.9:
            return '(r %s %s)' % (opgen.fb(rnd.choice([0.0, 0.5, 1.0, 1.5])), opgen.fb(rnd.choice([0.5, 2.0, 2.5, 3.0])))
        return '(r %s %s)' % (rand_value(rnd, 0), rand_value(rnd, 0))
    if depth <= 0 or rnd.random() < 0.3:
        a = rnd.choice(atoms)
        return a if isinstance(a, str) else a()
    k = rnd.randrange(7)
    sub = lambda: rand_value(rnd, depth - 1)
    if k == 0:
        return '(p %s %s)' % (sub(), sub())
    if k == 1:
        return '(l' + ''.join(' ' + sub() for _ in range(rnd.randrange(5))) + ')'
    if k == 2:
        return '(cat %s %s)' % (sub(), sub())
    if k == 3:
        return small_range()
    if k == 4:
        return '(sl %s %s)' % (sub(), small_range() if rnd.random() < 0.9 else sub())
    if k == 5:
        return '(pa %s %s)' % (sub(), sub())
    return '(l' + ''.join(' ' + sub() for _ in range(1 + rnd.randrange(3))) + ')'


def gen_random(n, seed):
    import random
    rnd = random.Random(seed)
    ts = opgen.cast_targets()
    cases = []
    for _ in range(n):
        a = rand_value(rnd, rnd.randrange(1, 4))
        b = rnd.choice(ts) if rnd.random() < 0.8 else rnd.choice(['(ty List)', '(ty CharList)', '(ty Symbol)', '(ty ByteList)'])
        for st in opgen.STORES:
            cases.append(['OP', str(len(cases)), st, 'ApplyType', rnd.choice(opgen.MODES), a, b])
    return cases


def hazards():
    cases = []
    for st, a, b in opgen.CAST_HAZARDS:
        cases.append(['OP', str(len(cases)), st, 'ApplyType', 'decline', a, b])
    return cases


def store_disagreements(cases, impl):
    """pairs of cases that differ only in the store and whose implementation results differ"""
    by = {}
    for c in cases:
        by.setdefault((c[4], c[5], c[6]), {})[c[2]] = impl.get(c[1])
    out = []
    for k, d in by.items():
        if len(d) == 2 and d.get('simple') != d.get('basic'):
            out.append((k, d))
    return out


def main(argv):
    drv = vlib.DRV
    show = 40
    stores = modes = None
    do_haz = False
    rand = None
    i = 0
    while i < len(argv):
        if argv[i] == '--drv':
            drv = argv[i + 1]; i += 1
        elif argv[i] == '--show':
            show = int(argv[i + 1]); i += 1
        elif argv[i] == '--stores':
            stores = argv[i + 1].split(','); i += 1
        elif argv[i] == '--modes':
            modes = argv[i + 1].split(','); i += 1
        elif argv[i] == '--hazards':
            do_haz = True
        elif argv[i] == '--random':
            rand = (int(argv[i + 1]), int(argv[i + 2])); i += 2
        i += 1
    if do_haz:
        hz = hazards()
        impl = vlib.run_impl(hz, 'casthaz', per_case_s=10.0)
        for c in hz:
            print('\t'.join(c), '=>', impl.get(c[1]))
        return 0
    cases = gen_random(*rand) if rand else gen(stores, modes)
    impl = vlib.run_impl(cases, 'cast', per_case_s=5.0)
    model = vlib.run_sharded(drv, cases, 'cast.model', supervised=False)
    skips = {}
    bad = {}
    kinds = {}
    n_cmp = 0
    dis = []
    for c in cases:
        ri, rm = impl.get(c[1]), model.get(c[1])
        k = (ri or 'missing').split(' ')[0]
        kinds[k] = kinds.get(k, 0) + 1
        if k in ('PANIC', 'HANG', 'ABORT', 'missing'):
            bad.setdefault(k, []).append((c, ri))
        sk = opsuite.skip_reason(c)
        if sk:
            skips[sk] = skips.get(sk, 0) + 1
            continue
        n_cmp += 1
        if ri != rm:
            dis.append((c, ri, rm))
    print(f'cases {len(cases)}  compared {n_cmp}  skipped {sum(skips.values())}  disagreements {len(dis)}')
    print('implementation outcomes:', kinds)
    for sk, n in sorted(skips.items(), key=lambda x: -x[1]):
        print(f'  skip {n:6d}  {sk}')
    for k, lst in bad.items():
        print(f'{k}: {len(lst)} case(s)')
        for c, ri in lst[:show]:
            print('   ', '\t'.join(c), '=>', ri)
    groups = {}
    for c, ri, rm in dis:
        g = (opgen.type_of_term(c[5]) or c[5].split(' ')[0], opgen.target_type_of_term(c[6]), c[2])
        groups.setdefault(g, []).append((c, ri, rm))
    for g, lst in sorted(groups.items(), key=lambda x: str(x[0])):
        print(f'DISAGREE {g}: {len(lst)}')
        for c, ri, rm in lst[:3]:
            print('   ', '\t'.join(c)); print('      impl :', ri); print('      model:', rm)
    sd = store_disagreements(cases, impl)
    print(f'store disagreements (same case, Simple result != Basic result): {len(sd)} of {len(cases) // 2}')
    g2 = {}
    for (mode, a, b), d in sd:
        if mode != 'decline' and (modes is None or 'decline' in modes):
            continue
        g2.setdefault((opgen.type_of_term(a) or a.split(' ')[0], opgen.target_type_of_term(b)), []).append((a, b, d))
    for g, lst in sorted(g2.items(), key=lambda x: str(x[0])):
        a, b, d = lst[0]
        print(f'  STORES-DIFFER {g}: {len(lst)}   e.g. {a} ~# {b}: simple={d.get("simple")!r} basic={d.get("basic")!r}')
    return 1 if dis else 0


if __name__ == '__main__':
    sys.exit(main(sys.argv[1:]))
