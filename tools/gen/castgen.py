"""Cast correspondence (OP suite, instruction ApplyType): the cast matrix of opgen (every left representative x every
target type, as `(ty T)` and as a value of that type) x {SimpleGarnishData, BasicGarnishData} x host {absent, decline,
accept}: real `type_cast` (harness) against `castOp` (lean/Garnish/Abs/Casts.lean, through Driver/OpDrv.lean).

  python3 tools/gen/castgen.py [--drv PATH] [--hazards] [--show N] [--stores simple,basic] [--modes decline]

prints statistics, every skip reason with its count, and the disagreements (grouped by left type -> target type).
`--hazards` runs opgen.CAST_HAZARDS (reproducers that hang / allocate without bound) on the implementation only.
"""
import os
import sys

sys.path.insert(0, os.path.dirname(os.path.dirname(os.path.abspath(__file__))))
import vlib
import opsuite
from gen import opgen


def gen(stores=None, modes=None):
    return opgen.gen_cases(instrs_bin=['ApplyType'], instrs_un=[], stores=stores or opgen.STORES, modes=modes or opgen.MODES)


def hazards():
    cases = []
    for st, a, b in opgen.CAST_HAZARDS:
        cases.append(['OP', str(len(cases)), st, 'ApplyType', 'decline', a, b])
    return cases


def store_disagreements(cases, impl):
    """pairs of cases that differ only in the store and whose implementation results differ"""
    by = {}
    for c in cases:
        by.setdefault((c[4], c[5], c[6]), {})[c[2]] = impl.get(c[1])
    out = []
    for k, d in by.items():
        if len(d) == 2 and d.get('simple') != d.get('basic'):
            out.append((k, d))
    return out


def main(argv):
    drv = vlib.DRV
    show = 40
    stores = modes = None
    do_haz = False
    i = 0
    while i < len(argv):
        if argv[i] == '--drv':
            drv = argv[i + 1]; i += 1
        elif argv[i] == '--show':
            show = int(argv[i + 1]); i += 1
        elif argv[i] == '--stores':
            stores = argv[i + 1].split(','); i += 1
        elif argv[i] == '--modes':
            modes = argv[i + 1].split(','); i += 1
        elif argv[i] == '--hazards':
            do_haz = True
        i += 1
    if do_haz:
        hz = hazards()
        impl = vlib.run_impl(hz, 'casthaz', per_case_s=10.0)
        for c in hz:
            print('\t'.join(c), '=>', impl.get(c[1]))
        return 0
    cases = gen(stores, modes)
    impl = vlib.run_impl(cases, 'cast', per_case_s=5.0)
    model = vlib.run_sharded(drv, cases, 'cast.model', supervised=False)
    skips = {}
    bad = {}
    kinds = {}
    n_cmp = 0
    dis = []
    for c in cases:
        ri, rm = impl.get(c[1]), model.get(c[1])
        k = (ri or 'missing').split(' ')[0]
        kinds[k] = kinds.get(k, 0) + 1
        if k in ('PANIC', 'HANG', 'ABORT', 'missing'):
            bad.setdefault(k, []).append((c, ri))
        sk = opsuite.skip_reason(c)
        if sk:
            skips[sk] = skips.get(sk, 0) + 1
            continue
        n_cmp += 1
        if ri != rm:
            dis.append((c, ri, rm))
    print(f'cases {len(cases)}  compared {n_cmp}  skipped {sum(skips.values())}  disagreements {len(dis)}')
    print('implementation outcomes:', kinds)
    for sk, n in sorted(skips.items(), key=lambda x: -x[1]):
        print(f'  skip {n:6d}  {sk}')
    for k, lst in bad.items():
        print(f'{k}: {len(lst)} case(s)')
        for c, ri in lst[:show]:
            print('   ', '\t'.join(c), '=>', ri)
    groups = {}
    for c, ri, rm in dis:
        g = (opgen.type_of_term(c[5]), opgen.target_type_of_term(c[6]), c[2])
        groups.setdefault(g, []).append((c, ri, rm))
    for g, lst in sorted(groups.items(), key=lambda x: str(x[0])):
        print(f'DISAGREE {g}: {len(lst)}')
        for c, ri, rm in lst[:3]:
            print('   ', '\t'.join(c)); print('      impl :', ri); print('      model:', rm)
    sd = store_disagreements(cases, impl)
    print(f'store disagreements (same case, Simple result != Basic result): {len(sd)} of {len(cases) // 2}')
    g2 = {}
    for (mode, a, b), d in sd:
        if mode != 'decline' and (modes is None or 'decline' in modes):
            continue
        g2.setdefault((opgen.type_of_term(a), opgen.target_type_of_term(b)), []).append((a, b, d))
    for g, lst in sorted(g2.items(), key=lambda x: str(x[0])):
        a, b, d = lst[0]
        print(f'  STORES-DIFFER {g}: {len(lst)}   e.g. {a} ~# {b}: simple={d.get("simple")!r} basic={d.get("basic")!r}')
    return 1 if dis else 0


if __name__ == '__main__':
    sys.exit(main(sys.argv[1:]))
