"""OPT / CLONE suite case generation and comparison (property C19).

gen_cases(seed, tier) -> list of case field lists.  Streams (id prefix):
  g    well-formed use: random value graphs with sharing (`@k`), keyed lists, text, symbol lists,
       concatenations; values on the register / value / frame stacks; symbol names; retention counts drawn
       from the data sizes observed at operation boundaries (plus 0, plus `retain` = all current data);
       optimize with random root sets (roots on stacks, duplicate roots, retained roots); repeated optimize;
       clone_data of live values.  Roots are never taken from the argument graph of an earlier clone_data
       that has not been compacted away yet (that is stream cs).
  cs   clone_data followed by optimize with a root inside the cloned graph (stale CloneIndexMap cells)
  dag  deeply shared DAGs (index stack is the tree unfolding of the graph)
  cut  retention counts that cut through a multi-cell value (set_data_retention_count is public)
  big  retention counts above the cursor
  CLONE suite: clone_data of every kind of value, nested, shared, on stacks, with retention, repeated.
  run  programs: compaction at every step boundary (one case per boundary), at every boundary, twice in a row

__main__: runs implementation and model, reports MODEL disagreements and ORACLE failures separately.
"""
import os, random, re, struct, sys

sys.path.insert(0, os.path.dirname(os.path.dirname(os.path.abspath(__file__))))

M64 = (1 << 64) - 1


def _rotl(x, b):
    return ((x << b) | (x >> (64 - b))) & M64


def siphash13(data, k0=0, k1=0):
    v0 = k0 ^ 0x736f6d6570736575
    v1 = k1 ^ 0x646f72616e646f6d
    v2 = k0 ^ 0x6c7967656e657261
    v3 = k1 ^ 0x7465646279746573

    def rnd(v0, v1, v2, v3):
        v0 = (v0 + v1) & M64; v1 = _rotl(v1, 13); v1 ^= v0; v0 = _rotl(v0, 32)
        v2 = (v2 + v3) & M64; v3 = _rotl(v3, 16); v3 ^= v2
        v0 = (v0 + v3) & M64; v3 = _rotl(v3, 21); v3 ^= v0
        v2 = (v2 + v1) & M64; v1 = _rotl(v1, 17); v1 ^= v2; v2 = _rotl(v2, 32)
        return v0, v1, v2, v3
    n = len(data)
    for i in range(0, n - n % 8, 8):
        m = struct.unpack_from('<Q', data, i)[0]
        v3 ^= m
        v0, v1, v2, v3 = rnd(v0, v1, v2, v3)
        v0 ^= m
    tail = data[n - n % 8:]
    b = (n & 0xff) << 56
    for i, c in enumerate(tail):
        b |= c << (8 * i)
    v3 ^= b
    v0, v1, v2, v3 = rnd(v0, v1, v2, v3)
    v0 ^= b
    v2 ^= 0xff
    for _ in range(3):
        v0, v1, v2, v3 = rnd(v0, v1, v2, v3)
    return v0 ^ v1 ^ v2 ^ v3


def symbol_value(name):
    """garnish_lang_simple_data::symbol_value: DefaultHasher (SipHash-1-3, zero keys) of `str::hash`"""
    return siphash13(name.encode('utf-8') + b'\xff')


def fb(x):
    return '(f %016x)' % struct.unpack('<Q', struct.pack('<d', x))[0]


NAMES = ['a', 'b', 'key', 'name', 'x1', 'value', 'zed', 'q']
SYMS = [5, 11, 7, 3, 900, 42]
TYPES = ['Number', 'List', 'Unit', 'CharList', 'Symbol']


class Gen:
    """script builder that tracks handles, liveness, the cursor (while known) and clone taint"""

    def __init__(self, rng):
        self.r = rng
        self.ops = []
        self.handles = []      # dict(live, deps, tainted, retained)
        self.cursor = 0        # None when unknown
        self.bounds = [0]      # known operation-boundary sizes
        self.retention = 0     # None when unknown (retain-all with unknown cursor)
        self.regs = 0
        self.vals = 0
        self.frames = 0
        self.multicell = []    # (start, ncells) of multi-cell values while the cursor is known
        self.lowered = False
        self.cloned = False

    # ---- terms
    def live(self):
        return [i for i, h in enumerate(self.handles) if h['live']]

    def leaf(self):
        r = self.r
        k = r.randrange(14)
        if k == 0: return 'U', 1
        if k == 1: return 'T', 1
        if k == 2: return 'F', 1
        if k in (3, 4): return '(i %d)' % r.choice([0, 1, -1, 5, 77, 2147483647, -2147483648, r.randrange(-1000, 1000)]), 1
        if k == 5: return fb(r.choice([0.0, 1.5, -2.25, 1e300])), 1
        if k == 6: return '(c %d)' % r.choice([97, 233, 0x4e2d, 0x1f600]), 1
        if k == 7: return '(b %d)' % r.randrange(256), 1
        if k == 8: return '(s %d)' % r.choice(SYMS), 1
        if k == 9: return r.choice(['(e %d)' % r.randrange(4), '(x %d)' % r.randrange(4), '(ty %s)' % r.choice(TYPES)]), 1
        if k == 10:
            n = r.randrange(0, 5)
            return '(cl%s)' % ''.join(' %d' % r.choice([97, 98, 99, 233, 0x4e2d]) for _ in range(n)), 1 + n
        if k == 11:
            n = r.randrange(0, 4)
            return '(bl%s)' % ''.join(' %d' % r.randrange(256) for _ in range(n)), 1 + n
        if k == 12:
            m = r.randrange(2, 5)
            parts = [r.choice(['(s %d)' % r.choice(SYMS), '(i %d)' % r.randrange(10)]) for _ in range(m)]
            cells = m + sum(1 + j for j in range(2, m + 1))
            return '(syl %s)' % ' '.join(parts), cells
        return '(i %d)' % r.randrange(100), 1

    def term(self, depth, deps, share=0.35):
        """returns (text, cells pushed)"""
        r = self.r
        lv = self.live()
        if lv and r.random() < share:
            k = r.choice(lv)
            deps.add(k)
            deps |= self.handles[k]['deps']
            return '@%d' % k, 0
        if depth <= 0 or r.random() < 0.3:
            return self.leaf()
        k = r.randrange(10)
        if k < 3:
            a, ca = self.term(depth - 1, deps, share)
            b, cb = self.term(depth - 1, deps, share)
            if r.random() < 0.5:
                a, ca = '(s %d)' % r.choice(SYMS), 1
            return '(p %s %s)' % (a, b), ca + cb + 1
        if k < 6:
            n = r.randrange(0, 5)
            items, cells = [], 0
            for _ in range(n):
                if r.random() < 0.5:
                    v, cv = self.term(depth - 1, deps, share)
                    items.append('(p (s %d) %s)' % (r.choice(SYMS), v))
                    cells += cv + 2
                else:
                    v, cv = self.term(depth - 1, deps, share)
                    items.append(v)
                    cells += cv
            return '(l%s)' % ''.join(' ' + i for i in items), cells + 1 + 2 * n
        tag = ['cat', 'r', 'sl', 'pa'][k - 6]
        a, ca = self.term(depth - 1, deps, share)
        b, cb = self.term(depth - 1, deps, share)
        return '(%s %s %s)' % (tag, a, b), ca + cb + 1

    # ---- ops
    def bump(self, n):
        if self.cursor is not None:
            self.cursor += n
            self.bounds.append(self.cursor)

    def new_handle(self, deps=(), live=True):
        self.handles.append({'live': live, 'deps': set(deps), 'tainted': False, 'retained': False, 'end': self.cursor})
        return len(self.handles) - 1

    def add(self, depth=3, share=0.35):
        deps = set()
        t, cells = self.term(depth, deps, share)
        if t.startswith('@'):           # a bare alias would escape the taint bookkeeping
            deps = set()
            t, cells = self.leaf()
        start = self.cursor
        self.ops.append('add ' + t)
        if start is not None and cells > 1:
            self.multicell.append((start, cells, t))
        self.bump(cells)
        return self.new_handle(deps)

    def add_text(self, t, cells, deps=()):
        start = self.cursor
        self.ops.append('add ' + t)
        if start is not None and cells > 1:
            self.multicell.append((start, cells, t))
        self.bump(cells)
        return self.new_handle(deps)

    def push(self, kind, k=None):
        if kind == 'frame':
            self.ops.append('frame %d' % self.r.randrange(50))
            self.frames += 1
            self.bump(2)
            return
        lv = self.live()
        if not lv:
            return
        k = self.r.choice(lv) if k is None else k
        self.ops.append('%s @%d' % (kind, k))
        if kind == 'reg':
            self.regs += 1
        else:
            self.vals += 1
        self.bump(1)

    def pop(self):
        kind = self.r.choice(['popreg', 'popval', 'popframe'])
        # the handle bookkeeping mirrors the harness: popreg/popval create a handle when the stack is non-empty
        if kind == 'popreg':
            if self.regs == 0:
                return
            self.regs -= 1
            self.ops.append(kind)
            self.new_handle((), live=True)
            self.handles[-1]['tainted'] = True      # unknown identity: keep it out of clean root sets
            self.handles[-1]['popped'] = True
        elif kind == 'popval':
            if self.vals == 0:
                return
            self.vals -= 1
            self.ops.append(kind)
            self.new_handle((), live=True)
            self.handles[-1]['tainted'] = True
            self.handles[-1]['popped'] = True
        else:
            if self.frames == 0:
                return
            self.frames -= 1
            self.regs = None if self.regs is None else 0   # restored to the saved chain: unknown depth
            self.regs = 0
            self.ops.append(kind)

    def sym(self):
        name = self.r.choice(NAMES)
        self.ops.append('sym %s %d' % (name, symbol_value(name)))
        self.bump(2 + len(name))
        return self.new_handle(())

    def retain_all(self):
        self.ops.append('retain')
        self.retention = self.cursor
        for h in self.handles:
            if h['live']:
                h['retained'] = True

    def retain_n(self, n):
        self.ops.append('retain %d' % n)
        prev = self.retention
        for h in self.handles:
            if h['end'] is not None and h['end'] <= n:
                h['retained'] = True
            elif h['retained'] and prev is not None and prev <= n:
                pass
            else:
                h['retained'] = False      # conservative
        self.retention = n
        self.lowered = True

    def opt(self, roots):
        self.ops.append('opt' + ''.join(' @%d' % k for k in roots))
        keep = set(roots)
        for i, h in enumerate(self.handles):
            if h['live'] and not (i in keep or h['retained']):
                h['live'] = False
            h['tainted'] = False
            if i in keep and not h['retained']:
                h['end'] = None
        # popped handles of unknown identity are dead now
        if self.retention is not None:
            self.bounds = [b for b in self.bounds if b <= self.retention]
        else:
            self.bounds = [0]
        self.multicell = [m for m in self.multicell if self.retention is not None and m[0] + m[1] <= self.retention]
        self.cursor = None

    def clone(self, k):
        self.ops.append('clone @%d' % k)
        self.cloned = True
        for d in self.handles[k]['deps'] | {k}:
            if not self.handles[d]['retained']:
                self.handles[d]['tainted'] = True
        self.cursor = None
        return self.new_handle(self.handles[k]['deps'])

    def clean_roots(self, n):
        lv = [i for i in self.live() if not self.handles[i]['tainted']]
        if not lv:
            return []
        return [self.r.choice(lv) for _ in range(n)]

    def script(self):
        return '; '.join(self.ops)


def gen_g(rng, size):
    g = Gen(rng)
    nops = rng.randrange(3, size)
    for _ in range(nops):
        k = rng.random()
        if k < 0.40 or not g.live():
            g.add(depth=rng.randrange(0, 4))
        elif k < 0.52:
            g.push(rng.choice(['reg', 'val']))
        elif k < 0.57:
            g.push('frame')
        elif k < 0.62:
            g.pop()
        elif k < 0.68:
            g.sym()
        elif k < 0.74:
            g.retain_all()
        elif k < 0.79:
            # a size observed at an earlier operation boundary, or 0; once the cursor is unknown only sizes
            # inside the retained prefix are still boundaries. Not lowered after a clone_data (stream cs).
            if g.cursor is not None:
                cands = list(g.bounds)
            elif g.retention is not None:
                cands = [b for b in g.bounds if b <= g.retention]
            else:
                cands = []
            if g.cloned:
                cands = [b for b in cands if g.retention is not None and b >= g.retention]
            else:
                cands.append(0)
            if cands:
                g.retain_n(rng.choice(cands))
        elif k < 0.90:
            roots = g.clean_roots(rng.choice([0, 0, 1, 1, 2, 3]))
            g.opt(roots)
            if rng.random() < 0.3:
                g.opt([r for r in roots if rng.random() < 0.7])
        else:
            # handles of unknown identity (popped addresses) are not cloned here: the value they alias would
            # escape the taint bookkeeping (stream cs covers clone-then-root)
            lv = [i for i in g.live() if not g.handles[i].get('popped')]
            if lv:
                g.clone(rng.choice(lv))
    if not any(o.startswith('opt') or o.startswith('clone') for o in g.ops):
        g.opt(g.clean_roots(rng.randrange(0, 3)))
    return g.script()


def gen_cs(rng):
    g = Gen(rng)
    for _ in range(rng.randrange(1, 4)):
        g.add(depth=rng.randrange(0, 3))
    if rng.random() < 0.3:
        g.retain_all()
        g.add(depth=2)
    k = rng.choice(g.live())
    g.clone(k)
    for _ in range(rng.randrange(0, 2)):
        g.add(depth=1)
    cands = list(g.handles[k]['deps'] | {k})
    g.opt([rng.choice(cands)] + ([rng.choice(g.live())] if rng.random() < 0.4 else []))
    return g.script()


def gen_dag(rng):
    g = Gen(rng)
    g.add_text('(i 1)', 1)
    depth = rng.randrange(2, 12)
    for i in range(depth):
        kind = rng.choice(['p', 'l', 'cat'])
        if kind == 'l':
            g.add_text('(l @%d @%d)' % (i, i), 5, {i} | g.handles[i]['deps'])
        else:
            g.add_text('(%s @%d @%d)' % (kind, i, i), 1, {i} | g.handles[i]['deps'])
    top = len(g.handles) - 1
    mode = rng.randrange(3)
    if mode == 0:
        g.opt([top])
    elif mode == 1:
        g.push('reg', top)
        g.opt([])
    else:
        g.clone(top)
    return g.script()


def gen_cut(rng):
    g = Gen(rng)
    for _ in range(rng.randrange(1, 4)):
        g.add(depth=rng.randrange(0, 3), share=0.2)
    if rng.random() < 0.5:
        g.sym()
    kind = rng.randrange(4)
    if kind == 0:
        g.add_text('(cl 97 98 99 100)', 5)
    elif kind == 1:
        g.add_text('(l (i 1) (p (s 5) (i 2)) (i 3))', 13)
    elif kind == 2:
        g.add_text('(syl (s 5) (s 7) (s 11))', 10)
    else:
        g.sym()
    victim = len(g.handles) - 1
    mc = [m for m in g.multicell if m[1] > 1]
    if kind == 3:
        # symbol name text: Symbol cell, CharList header, chars
        start = g.cursor - (2 + len(g.ops[-1].split()[1]))
        n = start + 2 + rng.randrange(0, 2)
    elif mc:
        s, c, _ = rng.choice(mc)
        n = s + rng.randrange(1, c)
    else:
        n = 1
    use = rng.randrange(3)
    if use == 0:
        g.push('reg', victim)
    elif use == 1:
        g.push('val', victim)
    g.retain_n(n)
    for _ in range(rng.randrange(0, 3)):
        g.add(depth=1, share=0.2)
    g.ops.append('opt' + (' @%d' % victim if use == 2 else ''))
    return '; '.join(g.ops)


def gen_mut(rng):
    """in-place update of the top input value (what `~~`, reapply and the final `end_expression` do) while the
    Value cell lies inside the retained prefix; retention counts are sizes at operation boundaries"""
    g = Gen(rng)
    for _ in range(rng.randrange(1, 3)):
        g.add(depth=rng.randrange(0, 3))
    g.push('val')
    if rng.random() < 0.3:
        g.push('reg')
    g.retain_all()
    for _ in range(rng.randrange(0, 2)):
        g.add(depth=1)
    k = g.add(depth=rng.choice([0, 0, 1, 2]))      # depth 0: the new target sits exactly at the retention count
    g.ops.append('setval @%d' % k)
    # other live data allocated after the target: cloned ahead of it when it is a root, on a stack, or a frame
    later = [g.add(depth=rng.randrange(0, 2)) for _ in range(rng.randrange(0, 3))]
    roots = []
    for j in later:
        u = rng.randrange(4)
        if u == 0:
            roots.append(j)
        elif u == 1:
            g.push(rng.choice(['reg', 'val']), j)
    if rng.random() < 0.3:
        roots += g.clean_roots(1)
    g.opt(roots)
    return g.script()


def gen_big(rng):
    g = Gen(rng)
    for _ in range(rng.randrange(0, 3)):
        g.add(depth=rng.randrange(0, 2))
    if g.live() and rng.random() < 0.6:
        g.push('reg')
    g.retain_n((g.cursor or 0) + rng.randrange(1, 25))
    roots = g.clean_roots(rng.randrange(0, 2))
    g.ops.append('opt' + ''.join(' @%d' % k for k in roots))
    if rng.random() < 0.5:
        g.ops.append('add (i 1)')
        g.ops.append('opt')
    return '; '.join(g.ops)


KINDS = ['U', 'T', 'F', '(i 7)', fb(2.5), '(c 233)', '(b 200)', '(s 11)', '(e 2)', '(x 3)', '(ty List)',
         '(cl)', '(cl 97 98 99)', '(bl)', '(bl 1 2 3)', '(syl (s 5) (i 3) (s 7))',
         '(p (i 1) (cl 120 121))', '(r (i 1) (i 4))', '(cat (l (i 1)) (i 2))', '(sl (l (i 1) (i 2) (i 3)) (r (i 0) (i 1)))',
         '(pa (e 1) (i 1))', '(l)', '(l (i 1))', '(l (i 1) (p (s 5) (i 2)) (cl 97))',
         '(l (p (s 5) (i 1)) (p (s 11) (l (p (s 7) (cl 98)))) (p (s 5) (i 3)))']


def gen_clone(rng, fixed=None):
    g = Gen(rng)
    if fixed is not None:
        g.add_text(fixed, 1)
        g.clone(0)
        if rng.random() < 0.5:
            g.clone(0)
            g.clone(1)
        return g.script()
    for _ in range(rng.randrange(1, 5)):
        g.add(depth=rng.randrange(0, 4))
        if rng.random() < 0.3:
            g.push(rng.choice(['reg', 'val']))
        if rng.random() < 0.1:
            g.push('frame')
        if rng.random() < 0.15:
            g.sym()
        if rng.random() < 0.2:
            g.retain_all()
    for _ in range(rng.randrange(1, 4)):
        g.clone(rng.choice(g.live()))
        if rng.random() < 0.3:
            g.add(depth=2)
    return g.script()


PROGRAMS = [
    ('5 + 5', '-'), ('{ $ + 1 } <~ 5', '-'), ('(1, :a = 2, "xy") . :a', '-'), ('{ $ > 3 ?> $ |> ^~ $ + 1 } <~ 0', '-'),
    ('1 ?> 2 |> 3', '-'), ('() ?> 2 |> 3', '-'), ('$ ?> 10 !> 20', '(i 1)'), ('("ab", "cd", "ef") . 1', '-'),
    ('(:a = "x", :b = "y") . :b', '-'), ('$ . :k', '(l (p (s 5) (i 1)))'), ('"abc" <> "def"', '-'),
    ('(1, 2) <> (3, 4)', '-'), ('{ { $ * 2 } <~ $ + 1 } <~ 4', '-'), ('#"abc"', '-'), ('1 .. 4', '-'),
    ('(1, 2, 3) ~ (0 .. 1)', '-'), (':a.b.c', '-'), ('(1, 2) . 0', '-'), ('$', '(l (i 1) (cl 97 98) (p (s 5) (l (i 2))))'),
    ('{ $ . 0 + $ . 1 } <~ (3, 4)', '-'), ('"xy" = "xy"', '-'), ('(1, (2, (3, "deep"))) . 1 . 1 . 1', '-'),
    ('{ $ < 5 ?> ^~ ($ + 1) |> ($, "done") } <~ 0', '-'), ('1 + 2 * 3 - 4', '-'),
    # calls that push every kind of frame cell: with and without pending operands, at top level and nested, inside lists, with
    # statement separators and side-effect blocks in the callee
    ('1 + ({ $ + 10 } <~ 2)', '-'), ('({ { $ + 1 } <~ $ } <~ 1) + 10', '-'), ('1 + (2 * ({ 3 + (4 * ({ $ + 5 } <~ $)) } <~ 6))', '(i 40)'),
    ('{ { { $ + 1 } <~ $ } <~ $ } <~ 7', '-'), ('(1, { $ * 2 } <~ 2, 3)', '-'), ('{ 5 ; $ + 1 } <~ 10', '-'), ('5 [ { $ } <~ 1 ] + 1', '-'),
    ('({ ({ $ + 1 } <~ $) * 10 } <~ 5) + 1000', '-'), ('{ { 5 } ~~ } ~~', '-'), ('({ { 5 } ~~ } ~~) + 1', '-'), ('1 + ({ { 5 } ~~ } ~~)', '-'),
    ('{ $ < 3 ?> ^~ $ + 1 |> { $ * 2 } <~ $ } <~ 0', '-'), ('(:a = { $ + 1 } <~ 1, :b = { $ + 2 } <~ 2) . :b', '-'),
]


def gen_cases(seed, tier='quick'):
    rng = random.Random(seed)
    n = {'quick': 1500, 'thorough': 12000}.get(tier, 1500)
    cases = []

    def add(suite, stream, script):
        cases.append([suite, '%s%d' % (stream, len(cases)), script])
    for _ in range(n):
        add('OPT', 'g', gen_g(rng, rng.choice([6, 10, 16, 24])))
    for _ in range(n // 10):
        add('OPT', 'cs', gen_cs(rng))
    for _ in range(n // 15):
        add('OPT', 'dag', gen_dag(rng))
    for _ in range(n // 6):
        add('OPT', 'cut', gen_cut(rng))
    for _ in range(n // 15):
        add('OPT', 'big', gen_big(rng))
    for _ in range(n // 5):
        add('OPT', 'mut', gen_mut(rng))
    for k in KINDS:
        add('CLONE', 'c', gen_clone(rng, k))
    for _ in range(n // 3):
        add('CLONE', 'c', gen_clone(rng))
    return cases


def gen_run_cases(bases):
    """bases: dict program index -> step count of the run without compaction"""
    cases = []
    for i, (src, inp) in enumerate(PROGRAMS):
        steps = bases.get(i)
        if steps is None:
            continue
        from vlib import esc
        for k in range(0, steps + 1):
            cases.append(['OPT', 'run%d.k%d' % (i, k), 'run', esc(src), inp, 'k%d' % k])
            cases.append(['OPT', 'run%d.twice%d' % (i, k), 'run', esc(src), inp, 'twice%d' % k])
            cases.append(['OPT', 'run%d.dump%d' % (i, k), 'run', esc(src), inp, 'dump%d' % k])
        cases.append(['OPT', 'run%d.every' % i, 'run', esc(src), inp, 'every'])
        for j in range(0, steps + 1):
            for k in range(j, steps + 1):
                cases.append(['OPT', 'run%d.ret%dk%d' % (i, j, k), 'run', esc(src), inp, 'ret%dk%d' % (j, k)])
    return cases


# ------------------------------------------------------------------ comparison and oracle
#
# Public interface for tools/props/c19.py:
#   gen_cases(seed, tier) -> list[list[str]]                 script cases (suites OPT and CLONE)
#   gen_run_cases(steps: dict[int, int]) -> list[list[str]]   program cases; steps from run_base_cases()
#   oracle(case, impl_result) -> list[str]                    C19 violation classes, from the implementation's line alone
#   oracle_detail(case, impl_result) -> list[(cls, text)]     the same with the record number / detail
#   strip(result, readback=True) -> str                       the part of an implementation OR model line to compare
#   comparable(case, impl_result, model_result) -> (str, str) both lines stripped under the comparison policy

REC_RE = re.compile(r'BEFORE\{(.*?)\} AFTER\{(.*?)\}(?= iso=| \|\| |$)')
SECTION_CLASS = {'R': 'registers', 'V': 'values', 'F': 'frames', 'X': 'roots', 'P': 'retained', 'S': 'symbols', 'A': 'handles'}
MARKER_RE = re.compile(r'<(bad-addr|invalid|undecodable|err-[a-z]+|panic|err|none|deep|no-value|loop)>')
# streams whose scripts use the store as a host may (the rest probe misuse of set_data_retention_count)
WELLFORMED = ('g', 'c', 'dag', 'mut', 'cs')


def split_sections(s):
    out = {}
    for m in re.finditer(r'([RVFXPSA])=\[(.*?)\](?= [RVFXPSA]=\[|$)', s):
        out[m.group(1)] = m.group(2)
    return out


def stream_of(cid):
    return re.match(r'[a-z]+', cid).group(0)


def strip(result, readback=True):
    """The part of a result line that implementation and model must agree on.
    Removes what only one side prints (` iso=0|1` of the model; ` E<message>` / ` U<0|1>` error detail of the
    implementation), identifies the markers of unreadable values, and with readback=False also drops the
    BEFORE{...} AFTER{...} structural read-back (kept: status, mapping, block table, heads, raw cells, symbol table)."""
    line = re.sub(r' iso=[01]', '', result)
    line = re.sub(r' (a?wf|wfq|ns)=[01]', '', line)
    line = re.sub(r' E<[^>]*>', '', line)
    line = re.sub(r' U<[01]>', '', line)
    line = MARKER_RE.sub('<?>', line)
    if not readback:
        line = re.sub(r' BEFORE\{.*?\} AFTER\{.*?\}(?= \|\| |$)', '', line)
    return line


def _run_core(r):
    return re.sub(r' compactions=.*', '', r)


def oracle_detail(case, impl_result):
    """C19 decided on the implementation's own output. Returns [(class, detail)].
    Script cases, per opt/clone record:
      opt.registers opt.values opt.frames opt.roots opt.retained opt.symbols   read-back differs before/after
      clone.registers ... clone.symbols clone.handles                           something else changed under clone_data
      clone.result                                                              original / returned value differ from the argument
      opt.unreadable clone.unreadable   a value reads back as an error marker afterwards
      opt.err:<message> clone.err:<message> opt.panic clone.panic              the call failed
      stray-cells                        CloneIndexMap outside the data block / live cell above a cursor
    Accepted: `optimize` refusing a retention count beyond the data, with the store left untouched (U<1>).
    Program cases (`run`): run.result (differs from the run without compaction), run.opterr, run.panic, run.bad."""
    out = []
    if len(case) > 2 and case[2] == 'run':
        parts = impl_result.split(' || base ')
        if case[5] == 'base':
            return out
        if len(parts) != 2:
            return [('run.bad', impl_result[:120])]
        res, base = parts
        if res.startswith('opterr'):
            out.append(('run.opterr', res[:120]))
        elif res.startswith('optpanic') or res.startswith('runpanic'):
            out.append(('run.panic', res[:120]))
        elif _run_core(res) != _run_core(base):
            out.append(('run.result', '%s  vs base  %s' % (res[:120], base[:120])))
        return out
    for rec in impl_result.split(' || '):
        m = re.match(r'(\d+):(opt|clone) (\w+)', rec)
        if not m:
            continue
        n, op, status = m.groups()
        if status != 'ok':
            detail = re.search(r'E<([^>]*)>', rec)
            msg = detail.group(1) if detail else ''
            if status == 'err' and op == 'opt' and msg.startswith('Data retention count') and ' U<1>' in rec:
                continue
            short = re.sub(r' \(.*$', '', msg)
            out.append(('%s.%s%s' % (op, status, ':' + short if short else ''), '%s:%s' % (n, msg)))
            continue
        mm = REC_RE.search(rec)
        if not mm:
            out.append(('%s.unparsable' % op, n))
            continue
        b, a = split_sections(mm.group(1)), split_sections(mm.group(2))
        for sec in 'RVFPS':
            if b.get(sec) != a.get(sec):
                out.append(('%s.%s' % (op, SECTION_CLASS[sec]), n))
        if op == 'opt':
            if b.get('X') != a.get('X'):
                out.append(('opt.roots', n))
        else:
            x = b.get('X', '')
            if a.get('X') != x + ';' + x:
                out.append(('clone.result', n))
            if b.get('A') != a.get('A'):
                out.append(('clone.handles', n))
        if '<' in re.sub(r' A=\[.*$', '', mm.group(2)).replace('K<', ''):
            if not any(d == n for _, d in out):
                out.append(('%s.unreadable' % op, n))
        w = re.search(r' W=(\d+)', rec)
        if w and w.group(1) != '0':
            out.append(('stray-cells', '%s W=%s' % (n, w.group(1))))
    return out


def oracle(case, impl_result):
    """list of C19 violation classes (see oracle_detail), duplicates removed, in order of appearance"""
    seen = []
    for cls, _ in oracle_detail(case, impl_result):
        if cls not in seen:
            seen.append(cls)
    return seen


def comparable(case, impl_result, model_result):
    """(impl, model) stripped under the comparison policy: raw cells, heads, mapping and block table always; the
    structural read-back too when the script is a well-formed use of the store and the oracle accepts the line
    (in corrupted states the getters of the implementation fail in ways the model does not reproduce).
    Program cases are implementation-only: ('', '')."""
    if len(case) > 2 and case[2] == 'run':
        return '', ''
    rb = stream_of(case[1]) in WELLFORMED and not oracle(case, impl_result)
    return strip(impl_result, rb), strip(model_result, rb)


def compare(cases, impl, model):
    """returns (model_disagreements, oracle_failures, iso_mismatches)"""
    dis, orc, iso = [], [], []
    for c in cases:
        cid = c[1]
        if stream_of(cid) == 'run':
            continue
        a, b = impl.get(cid, 'MISSING'), model.get(cid, 'MISSING')
        fails = oracle_detail(c, a)
        if fails:
            orc.append((cid, c[2], fails))
        x, y = comparable(c, a, b)
        if x != y:
            dis.append((cid, c[2], a, b))
        # the verified checker must agree with the oracle on every record
        for ra, rb in zip(a.split(' || '), b.split(' || ')):
            m = re.search(r' iso=([01])', rb)
            if not m:
                continue
            f = oracle_detail(c, ra)
            if (m.group(1) == '1') != (not f):
                iso.append((cid, c[2], m.group(1), f))
    return dis, orc, iso


def wf_stats(cases, impl, model):
    """model flag ` wf=1`: the hypotheses of the universal theorems (C19_optimize_preserves / clone_preserves: decidable
    WF of the store before the call, readable roots) hold.  Returns (records, records with wf=1, wf=1 records the
    oracle rejects) -- the last list must be empty: the theorem says so for the model, the model agrees with the code."""
    total, good, bad = 0, 0, []
    for c in cases:
        if len(c) > 2 and c[2] == 'run':
            continue
        a, b = impl.get(c[1], ''), model.get(c[1], '')
        for ra, rb in zip(a.split(' || '), b.split(' || ')):
            m = re.search(r' wf=([01])', rb)
            if not m:
                continue
            total += 1
            if m.group(1) == '1':
                good += 1
                f = oracle_detail(c, ra)
                if f:
                    bad.append((c[1], c[2], f))
    return total, good, bad


def access_wf_stats(cases, impl, model):
    """model flag ` awf=<0|1>` (every opt / clone record: the store after the call; `end`: the final store): `Heap.WF` of
    the accessor model (Spec/AccessWF.lean) decided on the heap view `toAccessHeap` of the model store.
    Props/C07Reach.lean proves it for every reachable store; here it is observed on the stores of the generated op
    sequences, which the suite compares with the real heap cell by cell (raw cells, block table, heads).
    Returns (cases judged, flags seen, flags = 1, bad) where bad = [(id, script, why)] for the scripts that use the
    store as a host may (streams WELLFORMED): a flag 0, or a model store that is not the implementation's heap.
    Next to it ` wfq=` (the invariant WFq of Props/C07ReachV.lean on the same store) and, on opt records, ` ns=` (the side
    condition noStale of the optimize step): counted in access_wf_stats.extra = {'wfq0': n, 'ns0': n, 'setval': scripts with an
    in-place update}; wfq=0 / ns=0 are outside the hypotheses of C07_reachable_no_panic_mut, not failures."""
    judged, flags, good, bad = 0, 0, 0, []
    access_wf_stats.extra = {'wfq0': 0, 'ns0': 0, 'setval': 0, 'wfq': 0}
    for c in cases:
        if len(c) > 2 and c[2] == 'run':
            continue
        if stream_of(c[1]) not in WELLFORMED:
            continue
        a, b = impl.get(c[1], 'MISSING'), model.get(c[1], 'MISSING')
        fl = re.findall(r' awf=([01])', b)
        if not fl:
            continue          # the script stopped on an error before any record
        judged += 1
        flags += len(fl)
        good += fl.count('1')
        access_wf_stats.extra['wfq'] += len(re.findall(r' wfq=[01]', b))
        access_wf_stats.extra['wfq0'] += len(re.findall(r' wfq=0', b))
        access_wf_stats.extra['ns0'] += len(re.findall(r' ns=0', b))
        access_wf_stats.extra['setval'] += 1 if 'setval' in c[2] else 0
        if '0' in fl:
            bad.append((c[1], c[2], 'awf=0'))
        elif strip(a, False) != strip(b, False):
            bad.append((c[1], c[2], 'model store differs from the real heap'))
    return judged, flags, good, bad


def run_base_cases():
    from vlib import esc
    return [['OPT', 'run%d.base' % i, 'run', esc(src), inp, 'base'] for i, (src, inp) in enumerate(PROGRAMS)]


def steps_of(base_results):
    steps = {}
    for i in range(len(PROGRAMS)):
        r = base_results.get('run%d.base' % i, '')
        m = re.search(r'steps=(\d+)', r)
        if r.startswith('ok') and m:
            steps[i] = int(m.group(1))
    return steps


def main():
    import vlib
    if os.environ.get('OPT_DRV'):
        vlib.DRV = os.environ['OPT_DRV']
    if os.environ.get('OPT_HBIN'):      # a harness built against a patched worktree (model comparison is then meaningless)
        vlib.HBIN = os.environ['OPT_HBIN']
    seeds = [int(x) for x in sys.argv[1].split(',')] if len(sys.argv) > 1 else [1]
    tier = sys.argv[2] if len(sys.argv) > 2 else 'quick'
    total = 0
    all_dis, all_orc, all_iso = [], [], []
    for seed in seeds:
        cases = gen_cases(seed, tier)
        impl = vlib.run_impl(cases, 'opt%d' % seed, per_case_s=10.0)
        model = vlib.run_model(cases, 'opt%d' % seed)
        dis, orc, iso = compare(cases, impl, model)
        wt, wg, wb = wf_stats(cases, impl, model)
        print('seed %d: %d opt/clone records, %d satisfy the hypotheses of the universal theorems (wf=1), %d of those rejected by the oracle' % (seed, wt, wg, len(wb)))
        for x in wb[:5]:
            print('WF-ORACLE', x)
        aj, af, ag, ab = access_wf_stats(cases, impl, model)
        print('seed %d: accessor well-formedness (Heap.WF of the heap view, C07Reach): %d scripts judged, %d flags, %d true, %d bad' % (seed, aj, af, ag, len(ab)))
        for x in ab[:5]:
            print('ACCESS-WF', x)
        print('seed %d: WFq / noStale (C07ReachV): %s' % (seed, access_wf_stats.extra))
        total += len(cases)
        all_dis += dis; all_orc += orc; all_iso += iso
        print('seed %d: %d cases, %d model disagreements, %d oracle failures, %d iso/oracle mismatches' % (seed, len(cases), len(dis), len(orc), len(iso)))
    print('TOTAL %d cases; MODEL disagreements %d; ORACLE failures %d; ISO mismatches %d' % (total, len(all_dis), len(all_orc), len(all_iso)))
    by_stream = {}
    for cid, script, fails in all_orc:
        key = (stream_of(cid), fails[0][0])
        by_stream.setdefault(key, []).append((len(script), cid, script, fails))
    for key in sorted(by_stream):
        lst = sorted(by_stream[key])
        print('ORACLE %s / %s: %d cases; shortest: %s  ->  %s' % (key[0], key[1], len(lst), lst[0][2], lst[0][3]))
    for cid, script, a, b in all_dis[:10]:
        print('MODEL-DISAGREE', cid, script)
        print('   impl :', a[:1500])
        print('   model:', b[:1500])
    for x in all_iso[:10]:
        print('ISO-MISMATCH', x)
    # programs
    base = vlib.run_impl(run_base_cases(), 'optrunbase', per_case_s=10.0)
    steps = steps_of(base)
    for i in range(len(PROGRAMS)):
        if i not in steps:
            print('RUN base not ok:', PROGRAMS[i], base.get('run%d.base' % i))
    rc = gen_run_cases(steps)
    res = vlib.run_impl(rc, 'optrun', per_case_s=20.0)
    bad = {}
    loads = []
    expect = {}
    for c in rc:
        cid = c[1]
        i = int(re.match(r'run(\d+)', cid).group(1))
        r = res.get(cid, 'MISSING')
        f = oracle_detail(c, r)
        if f:
            kind = 'ret' if c[5].startswith('ret') else 'build'
            bad.setdefault((kind, i), []).append((c[5], f[0]))
        for j, m in enumerate(re.finditer(r'PRE<(.*?)> POST<(.*?)>', r.split(' || base ')[0])):
            lid = '%s.snap%d' % (cid.replace('run', 'snap'), j)
            loads.append(['OPT', lid, 'load %s; opt' % m.group(1)])
            expect[lid] = m.group(2)
            loads.append(['OPT', lid + 'w', 'load %s' % m.group(1)])      # Heap.WF of the real heap of a running program
    nret = sum(1 for c in rc if c[5].startswith('ret'))
    print('RUN: %d programs, %d cases with build-time retention only, %d oracle failures' % (len(steps), len(rc) - nret, sum(len(v) for k, v in bad.items() if k[0] == 'build')))
    print('RUN-RET: %d cases with a second retain_all_current_data at a step boundary, %d oracle failures' % (nret, sum(len(v) for k, v in bad.items() if k[0] == 'ret')))
    for k in sorted(bad):
        print('   RUN-ORACLE', k[0], PROGRAMS[k[1]], ' first:', bad[k][0], ' (%d modes)' % len(bad[k]))
    if loads:
        model = vlib.run_model(loads, 'optsnap')
        sd = 0
        aw = [0, 0]
        wq = {'wfq=1': 0, 'wfq=0': 0, 'ns=1': 0, 'ns=0': 0}
        for c in loads:
            got = model.get(c[1], 'MISSING')
            for k in re.findall(r' ((?:wfq|ns)=[01])', got):
                wq[k] += 1
            for fl in re.findall(r' awf=([01])', got):
                aw[int(fl)] += 1
                if fl == '0':
                    print('SNAP-ACCESS-WF0', c[1], c[2][:300])
            if c[1].endswith('w'):
                continue
            m = re.search(r':opt ok M=\[\] (B=.*?) BEFORE\{', got)
            if not m or m.group(1) != expect[c[1]]:
                sd += 1
                if sd <= 5:
                    print('SNAP-DISAGREE', c[1], '\n   impl :', expect[c[1]][:800], '\n   model:', (m.group(1) if m else got)[:800])
            iso = re.search(r' iso=([01])', got)
            if iso and iso.group(1) != '1':
                print('SNAP-ISO0', c[1])
        print('SNAP: %d program states replayed on the model, %d disagreements; Heap.WF of the loaded real heaps and of their compactions: %d true, %d false; WFq / noStale on them: %s' % (len(loads) // 2, sd, aw[1], aw[0], wq))


if __name__ == '__main__':
    main()
