"""Literal generator for property C14 ("literals denote exactly what they spell").

The `spell_*` / `escape_*` / `quote_*` functions mirror /verif/lean/Garnish/Spec/Spell.lean function by function
(strings instead of `List Char`, lists of ints instead of `List Nat`).

`gen_cases(seed, tier)` returns harness rows

    ['LIT', id, kind, esc(text)]               kind = number | charlist | bytelist | symbol   (both stores at once)
    ['RUN', id, store, esc(source), '-', '-']  store = simple | basic                          (whole pipeline)

and `expected(row)` the value term the literal MUST evaluate to according to the property:

    (i n)   (f <16 hex digits of the f64 bits>)   (cl cp cp ...)   (bl b b ...)   (s <symbol_value>)

Observed with LIT and RUN probes (2026-09): a ONE-character char list literal (`"a"`, `\"\"\"a\"\"\"`) evaluates to the
one-element char list `(cl 97)` — not to a Char — and a one-byte byte list (`'a'`, `'''5'''`) to `(bl 97)` / `(bl 5)`,
on both stores, at the LIT level and through the whole pipeline. So there is NO one-element special case in `expected`.

What the LEXER accepts (probed with LEX; it restricts which spellings get RUN rows, it is not part of `expected`):
  * `1.`, `.5`, `1_.5`, `1._5`, `1.5_`, `1e5`, `1.5e3` are single Number tokens; `1e-5` is not (`1e` `-` `5`).
  * two quotes are reserved for the empty literal: `""` / `''` lex as empty lists, so a body needs 1 or >= 3 quotes;
    `""""""` / `''''` (an empty body between >= 2 quotes) do not lex at all ("unterminated"). Hence numeric byte lists get
    RUN rows only with q >= 3 and non-empty bodies; q = 2 (`''5''`) is LIT-only.
  * the lexer knows nothing of escapes: a token closes at the first run of q quotes, so `\\"` / `\\'` are LIT-only.
  * `:name` is one Symbol token whenever name is made of alphanumerics, `_`, `:` and does not start with `:`.

id classes (the alphabetic prefix of the id; the driver groups mismatches by them):
  ni int, canonical spelling, no separators      ns int with separators        np / nq prefixed decimal `010_..` (no seps / seps)
  nu int, radix > 10, digits in upper / mixed case
  fl float positional   fs float with separators (integer part not starting with 0)
  fz float with separators whose integer part starts with `0` (KNOWN: rejected by the real code)
  fb plain decimal integer above i32::MAX (-> float)   fe sign-less exponent form   fx other forms (`1.`, `.5`, excess digits)
  ce char list via escape_chars   cu via escape_chars_u   cr via escape_chars_raw   cx every char as \\u{hex}
  bn byte list numeric (decimal entries)   br numeric, entries with separators / radix prefixes, digits 0-9 only
  bx numeric, an entry has a letter digit (KNOWN: rejected by the real code)   bq byte list quoted ASCII   bm byte list quoted with multi-byte characters
  sy symbol   sc symbol whose name ends with `:` (KNOWN: trimmed by the real code)
"""
import decimal
import itertools
import os
import random
import re
import struct
import sys

sys.path.insert(0, os.path.dirname(os.path.dirname(os.path.abspath(__file__))))
sys.path.insert(0, os.path.dirname(os.path.abspath(__file__)))
import vlib  # noqa: E402
from siphash import symbol_value  # noqa: E402

I32_MAX = 2147483647

# ------------------------------------------------------------------ numbers (Spell.lean "numbers")


def digit_char(d):
    return chr(48 + d) if d < 10 else chr(87 + d)


def spell_nat(radix, n):
    """canonical spelling of n in radix (2..36): digits 0-9a-z, most significant first, "0" for 0"""
    acc = []
    while True:
        acc.insert(0, digit_char(n % radix))
        n //= radix
        if n == 0:
            return ''.join(acc)


def insert_seps(ds, seps):
    """one `_` after the digit at 0-based position i for every occurrence of i in seps (indexes past the end ignored)"""
    out = []
    for i, d in enumerate(ds):
        out.append(d)
        out.append('_' * seps.count(i))
    return ''.join(out)


def spell_prefixed(radix, n, seps):
    return '0' + spell_nat(10, radix) + '_' + insert_seps(spell_nat(radix, n), seps)


def spell_number(radix, n, seps):
    return insert_seps(spell_nat(10, n), seps) if radix == 10 else spell_prefixed(radix, n, seps)


def valid_seps(radix, n, seps):
    """the only placement the language does not accept: plain decimal `0_...`"""
    return not (radix == 10 and n == 0 and 0 in seps)


def spell_fraction(int_digits, frac_digits):
    return int_digits + '.' + frac_digits


# ------------------------------------------------------------------ character lists


def quote_char_list(q, body):
    return '"' * q + body + '"' * q


def escape_char(q, c):
    if c == '\\':
        return '\\\\'
    if c == '"':
        return '\\"'
    if c == '\n' and q <= 1:
        return '\\n'
    if c == '\t' and q <= 1:
        return '\\t'
    if c == '\0':
        return '\\0'
    return c


def escape_chars(q, s):
    return ''.join(escape_char(q, c) for c in s)


def escape_unicode(c):
    return '\\u{' + spell_nat(16, ord(c)) + '}'


def escape_char_u(q, c):
    return escape_unicode('"') if c == '"' else escape_char(q, c)


def escape_chars_u(q, s):
    return ''.join(escape_char_u(q, c) for c in s)


def escape_char_raw(q, c):
    return '"' if c == '"' else escape_char(q, c)


def escape_chars_raw(q, s):
    return ''.join(escape_char_raw(q, c) for c in s)


# ------------------------------------------------------------------ byte lists


def utf8_encode(c):
    n = ord(c)
    if n < 0x80:
        return [n]
    if n < 0x800:
        return [0xC0 + n // 64, 0x80 + n % 64]
    if n < 0x10000:
        return [0xE0 + n // 4096, 0x80 + n // 64 % 64, 0x80 + n % 64]
    return [0xF0 + n // 262144, 0x80 + n // 4096 % 64, 0x80 + n // 64 % 64, 0x80 + n % 64]


def quote_byte_list(q, body):
    return "'" * q + body + "'" * q


def escape_byte(b):
    if b == 92:
        return '\\\\'
    if b == 39:
        return "\\'"
    if b == 10:
        return '\\n'
    if b == 9:
        return '\\t'
    if b == 13:
        return '\\r'
    if b == 0:
        return '\\0'
    return chr(b)


def spell_bytes_quoted(bs):
    return quote_byte_list(1, ''.join(escape_byte(b) for b in bs))


def spell_bytes_numeric_with(spell, q, bs):
    return quote_byte_list(q, ' '.join(spell(b) for b in bs))


def spell_bytes_numeric(q, bs):
    return spell_bytes_numeric_with(lambda b: spell_nat(10, b), q, bs)


# ------------------------------------------------------------------ symbols


def spell_symbol(name):
    return ':' + name


# ------------------------------------------------------------------ value terms


def term_int(n):
    return f'(i {n})'


def term_float(f):
    return '(f %016x)' % struct.unpack('>Q', struct.pack('>d', f))[0]


def term_chars(s):
    return '(cl' + ''.join(' %d' % ord(c) for c in s) + ')'


def term_bytes(bs):
    return '(bl' + ''.join(' %d' % b for b in bs) + ')'


def term_symbol(name):
    return f'(s {symbol_value(name)})'


def positional(f):
    """shortest round-trip decimal of the finite non-negative float f in positional notation, with a `.` that has at
    least one digit on both sides"""
    t = format(decimal.Decimal(repr(f)), 'f')
    if '.' not in t:
        t += '.0'
    return t


# ------------------------------------------------------------------ generator

_EXPECTED = {}
_KIND = {}


def expected(row):
    """the value term row's literal must evaluate to (rows of the latest gen_cases call)"""
    return _EXPECTED[row[1]]


def kind_of(row):
    return _KIND[row[1]]


class _Out:
    def __init__(self, rng):
        self.rows = []
        self.n = 0
        self.rng = rng

    def _id(self, cls):
        self.n += 1
        return f'{cls}{self.n}'

    def lit(self, cls, kind, text, exp):
        i = self._id(cls)
        _EXPECTED[i] = exp
        _KIND[i] = kind
        self.rows.append(['LIT', i, kind, vlib.esc(text)])

    def run(self, cls, kind, text, exp):
        for store in ('simple', 'basic'):
            i = self._id(cls)
            _EXPECTED[i] = exp
            _KIND[i] = kind
            self.rows.append(['RUN', i, store, vlib.esc(text), '-', '-'])

    def both(self, cls, kind, text, exp, p_run=1.0):
        self.lit(cls, kind, text, exp)
        if p_run >= 1.0 or self.rng.random() < p_run:
            self.run(cls, kind, text, exp)


def _rand_seps(rng, ndigits):
    """random separator positions: repeats allowed (double underscores), the last index gives a trailing underscore"""
    k = rng.choice([1, 1, 1, 2, 2, 3, 4])
    seps = [rng.randrange(ndigits) for _ in range(k)]
    r = rng.random()
    if r < 0.15:
        seps.append(ndigits - 1)            # trailing
    elif r < 0.30:
        seps.append(seps[0])                # doubled
    elif r < 0.40:
        seps.append(0)                      # right after the first digit
    return seps


INT_BOUNDARIES = sorted(set([0, 1, 2147483646, 2147483647] + [v for k in range(1, 31) for v in (2 ** k - 1, 2 ** k, 2 ** k + 1)]))


def _gen_ints(o, rng, tier):
    p_run = 0.2
    n_rand = 25 if tier == 'quick' else 150
    for radix in range(2, 37):
        values = list(INT_BOUNDARIES)
        for _ in range(n_rand):
            r = rng.random()
            if r < 0.5:
                values.append(rng.randrange(0, 2 ** 31))
            elif r < 0.8:
                values.append(rng.randrange(0, 2 ** rng.randrange(1, 32)))
            else:
                values.append(rng.randrange(0, radix ** rng.randrange(1, 4)))
        for n in values:
            o.both('ni', 'number', spell_number(radix, n, []), term_int(n), p_run)
            nd = len(spell_nat(radix, n))
            for _ in range(20):
                seps = _rand_seps(rng, nd)
                if valid_seps(radix, n, seps):
                    o.both('ns', 'number', spell_number(radix, n, seps), term_int(n), p_run)
                    break
            if radix > 10 and rng.random() < 0.2 and any(c.isalpha() for c in spell_nat(radix, n)):
                # digits above 9 written in upper / mixed case
                t = spell_number(radix, n, _rand_seps(rng, nd) if rng.random() < 0.5 else [])
                u = t.upper() if rng.random() < 0.5 else ''.join(c.upper() if rng.random() < 0.5 else c for c in t)
                o.both('nu', 'number', u, term_int(n), p_run)
            if radix == 10:
                # the prefixed decimal form 010_digits: every separator placement is fine there
                o.both('np', 'number', spell_prefixed(10, n, []), term_int(n), p_run)
                o.both('nq', 'number', spell_prefixed(10, n, _rand_seps(rng, nd)), term_int(n), p_run)


FLOAT_BOUNDARIES = [5e-324, 2.2250738585072014e-308, 1.7976931348623157e308, 0.5, 1.0, 4294967296.0, 2147483648.0,
                    9007199254740993.0, 0.0, 0.1, 1.5, 123.456, 2147483647.0, 2147483647.5, 0.30000000000000004,
                    4.9406564584124654e-324, 2.225073858507201e-308, 1e22, 1e23, 9007199254740992.0, 1e-7, 123456789.125]


def _insert_underscores(rng, text):
    """`_` at random positions of the text, never in front of the first character (next to the `.` is fine for the
    lexer and the parser: `1_.5`, `1._5`, `1.5_` are single Number tokens that parse)"""
    cs = list(text)
    for _ in range(rng.choice([1, 1, 2, 3])):
        cs.insert(rng.randrange(1, len(cs) + 1), '_')
    return ''.join(cs)


def _gen_floats(o, rng, tier):
    n_bits = 400 if tier == 'quick' else 3000
    n_nice = 200 if tier == 'quick' else 1500
    values = list(FLOAT_BOUNDARIES)
    for _ in range(n_bits):
        values.append(struct.unpack('>d', struct.pack('>Q', rng.randrange(0, 0x7ff0000000000000)))[0])
    for _ in range(n_nice):
        r = rng.random()
        if r < 0.4:
            values.append(float('%d.%d' % (rng.randrange(0, 1000), rng.randrange(0, 1000))))
        elif r < 0.7:
            values.append(rng.randrange(0, 10 ** rng.randrange(1, 12)) / 10 ** rng.randrange(0, 8))
        elif r < 0.85:
            values.append(round(rng.uniform(0, 1), rng.randrange(1, 17)))
        else:
            values.append(float(rng.randrange(0, 2 ** rng.randrange(1, 80))))
    nz = 0
    for f in values:
        t = positional(f)
        exp = term_float(f)
        o.both('fl', 'number', t, exp, 0.3)
        u = _insert_underscores(rng, t)
        if t.startswith('0'):
            # KNOWN: the text in front of the first `_` starts with `0`, the real code reads it as a radix prefix
            if nz < (12 if tier == 'quick' else 40):
                nz += 1
                o.both('fz', 'number', u, exp, 0.5)
        else:
            o.both('fs', 'number', u, exp, 0.3)
    # `0.5_1`-style, the shortest ones
    for t, f in (('0.5_1', 0.51), ('0.5_', 0.5), ('0._5', 0.5), ('0_.5', 0.5), ('0.2_5', 0.25)):
        o.both('fz', 'number', t, term_float(f), 1.0)
    # plain decimal integers above i32::MAX are floats
    bigs = [2147483648, 2147483649, 4294967295, 4294967296, 4294967297, 10 ** 10, 10 ** 15, 9007199254740992,
            9007199254740993, 9007199254740995, 2 ** 63 - 1, 2 ** 63, 2 ** 64 - 1, 2 ** 64, 10 ** 19, 10 ** 20, 10 ** 22,
            10 ** 23, 2 ** 100, 10 ** 100, 10 ** 308]
    for _ in range(60 if tier == 'quick' else 500):
        bigs.append(rng.randrange(2 ** 31, 2 ** rng.randrange(32, 120)))
    for n in bigs:
        t = spell_nat(10, n)
        o.both('fb', 'number', t, term_float(float(n)), 0.3)
        o.both('fb', 'number', insert_seps(t, _rand_seps(rng, len(t))), term_float(float(n)), 0.3)
    # sign-less exponent forms lex as one Number token
    for t in ['1e5', '1E5', '1.5e3', '2e10', '0.5e1', '12e0', '1e22', '1e23', '1e308', '123.456e2', '5e0', '1_0e1_0']:
        u = t.replace('_', '')
        cls = 'fz' if (t.startswith('0') and '_' in t) else 'fe'
        o.both(cls, 'number', t, term_float(float(u)), 1.0)
    # other decimal forms: no digit on one side of the point, more digits than needed, leading zeros
    for t in ['1.', '.5', '9007199254740993.0', '0.1000000000000000055511151231257827', '1.50', '001.5', '00.5',
              '0.3000000000000000444089209850062616169452667236328125', '2147483647.0', '0.0', '0.00', '.0', '0.',
              '179769313486231570000000000000000000000000000000000000000000000000000000000000000000000000000000000000000000'
              '000000000000000000000000000000000000000000000000000000000000000000000000000000000000000000000000000000000000'
              '0000000000000000000000000000000000000000000000000000000000000000000000000000000000000000000.0']:
        o.both('fx', 'number', t, term_float(float(t)), 1.0)


SMALL_ALPHABET = ['a', '"', '\\', '\n', '\t', 'é', '€', '😀']
WIDE_ALPHABET = ([chr(c) for c in range(0x20, 0x7f)] + SMALL_ALPHABET * 3
                 + ['\r', '\0', '{', '}', 'u', 'n', 't', 'r', '0', '1', '9', '漢', '字', 'あ', '한', '\u0301', '\u0308', '\u20dd',
                    '\U0010ffff', '\ud7ff', '\ue000', '\x7f', '\x01', '\x1b', '\x0b', '\x0c', '\u00a0', '\u2028', '\ufeff',
                    '"', '"', '\\', '\\'])


def _lexable_raw(q, s):
    """the raw form quote_char_list(q, escape_chars_raw(q, s)) is one CharList token with body s"""
    return s != '' and not s.startswith('"') and not s.endswith('"') and '"' * q not in s


def _gen_charlists(o, rng, tier):
    maxlen = 3 if tier == 'quick' else 4
    p_run = 0.10 if tier == 'quick' else 0.04
    for n in range(maxlen + 1):
        for tup in itertools.product(SMALL_ALPHABET, repeat=n):
            s = ''.join(tup)
            exp = term_chars(s)
            pr = 1.0 if n <= 2 else p_run
            for q in (1, 3, 4):
                # (i) \" : LIT only (the lexer would close the token at the quote)
                o.lit('ce', 'charlist', quote_char_list(q, escape_chars(q, s)), exp)
                # (ii) \u{22}: no quote in the body; an empty body between >= 3 quotes does not lex
                t = quote_char_list(q, escape_chars_u(q, s))
                o.lit('cu', 'charlist', t, exp)
                if (s != '' or q == 1) and (pr >= 1.0 or rng.random() < pr):
                    o.run('cu', 'charlist', t, exp)
                # (iii) raw quotes
                if q >= 3 and not s.startswith('"'):
                    t = quote_char_list(q, escape_chars_raw(q, s))
                    o.lit('cr', 'charlist', t, exp)
                    if _lexable_raw(q, s) and (pr >= 1.0 or rng.random() < pr):
                        o.run('cr', 'charlist', t, exp)
    n_long = 400 if tier == 'quick' else 2500
    for _ in range(n_long):
        s = ''.join(rng.choice(WIDE_ALPHABET) for _ in range(rng.randrange(5, 41)))
        exp = term_chars(s)
        q = rng.choice([1, 1, 3, 3, 4, 5, 6])
        o.lit('ce', 'charlist', quote_char_list(q, escape_chars(q, s)), exp)
        o.both('cu', 'charlist', quote_char_list(q, escape_chars_u(q, s)), exp, 0.5)
        if q >= 3 and not s.startswith('"'):
            t = quote_char_list(q, escape_chars_raw(q, s))
            o.lit('cr', 'charlist', t, exp)
            if _lexable_raw(q, s) and rng.random() < 0.5:
                o.run('cr', 'charlist', t, exp)
    # every character written \u{hex}
    n_uni = 300 if tier == 'quick' else 2000
    specials = ['\0', '"', '\\', '\n', '\U0010ffff', '\ud7ff', '\ue000', '\x7f', '\x80', '\u07ff', '\u0800', '\uffff', '\U00010000']
    for k in range(n_uni):
        if k < len(specials):
            s = specials[k]
        else:
            s = ''
            for _ in range(rng.randrange(1, 9)):
                r = rng.random()
                if r < 0.3:
                    s += rng.choice(WIDE_ALPHABET)
                else:
                    while True:
                        c = rng.randrange(0, 0x110000) if r < 0.7 else rng.randrange(0, 0x3000)
                        if not 0xD800 <= c < 0xE000:
                            break
                    s += chr(c)
        q = rng.choice([1, 1, 3, 4, 5])
        o.both('cx', 'charlist', quote_char_list(q, ''.join(escape_unicode(c) for c in s)), term_chars(s), 0.5)


BYTE_SUBSET = [0, 1, 9, 10, 13, 39, 92, 127, 128, 255, 2, 8, 11, 32, 34, 48, 57, 65, 97, 99, 100, 199, 200, 254]
ASCII_SUBSET = [0, 1, 9, 10, 11, 12, 13, 27, 31, 32, 34, 39, 44, 48, 57, 58, 65, 92, 95, 97, 110, 116, 114, 122, 123, 125, 126, 127]


def _numeric_rows(o, rng, q, bs, p_run):
    t = spell_bytes_numeric(q, bs)
    exp = term_bytes(bs)
    o.lit('bn', 'bytelist', t, exp)
    # two quotes lex as the EMPTY byte list followed by other tokens; an empty body between >= 2 quotes does not lex
    if q >= 3 and bs and (p_run >= 1.0 or rng.random() < p_run):
        o.run('bn', 'bytelist', t, exp)


def _gen_bytelists(o, rng, tier):
    # numeric form
    # the empty vector: `''` is spell_bytes_quoted([]) (LIT and RUN, class bq below); numeric forms `''''`, `''''''`
    # (LIT only: an empty body between >= 2 quotes is not a token)
    _numeric_rows(o, rng, 2, [], 0)
    _numeric_rows(o, rng, 3, [], 0)
    for b in range(256):
        _numeric_rows(o, rng, 2, [b], 0)
        _numeric_rows(o, rng, 3, [b], 1.0 if tier != 'quick' else 0.3)
        if b in BYTE_SUBSET:
            _numeric_rows(o, rng, 4, [b], 1.0)
    pairs = itertools.product(BYTE_SUBSET, repeat=2) if tier == 'quick' else itertools.product(range(256), repeat=2)
    p3 = 0.25 if tier == 'quick' else 0.03
    for a, b in pairs:
        _numeric_rows(o, rng, 2, [a, b], 0)
        if rng.random() < p3:
            _numeric_rows(o, rng, rng.choice([3, 3, 4]), [a, b], 0.5)
    for _ in range(300 if tier == 'quick' else 2500):
        bs = [rng.choice(BYTE_SUBSET) if rng.random() < 0.3 else rng.randrange(256) for _ in range(rng.randrange(3, 41))]
        _numeric_rows(o, rng, rng.choice([2, 2, 3, 3, 4, 5]), bs, 0.6)
    # entries spelled in other ways (spell_bytes_numeric_with): separators, the prefixed radix forms. Class br: all
    # digits are 0-9. Class bx: a digit is a letter (radix > 10) -- KNOWN: the byte-list parser only lets numeric
    # characters and `_` through, `'''016_ff'''` is rejected.
    for t, bs in (("'''011_a'''", [10]), ("'''016_ff'''", [255]), ("''036_z''", [35]), ("'''016_1F 7'''", [31, 7])):
        o.lit('bx', 'bytelist', t, term_bytes(bs))
        if t.startswith("'''"):
            o.run('bx', 'bytelist', t, term_bytes(bs))
    for t, bs in (("'''016_10'''", [16]), ("'''02_101 08_17'''", [5, 15]), ("'''1_0'''", [10]), ("'''2_5_5_'''", [255]), ("'''0255'''", [255])):
        o.both('br', 'bytelist', t, term_bytes(bs), 1.0)
    nx = 0
    for _ in range(150 if tier == 'quick' else 1000):
        bs = [rng.choice(BYTE_SUBSET) if rng.random() < 0.3 else rng.randrange(256) for _ in range(rng.randrange(1, 7))]
        sp = []
        for x in bs:
            r = rng.random()
            radix = 10 if r < 0.3 else (rng.randrange(2, 11) if r < 0.8 else rng.randrange(11, 37))
            nd = len(spell_nat(radix, x))
            seps = _rand_seps(rng, nd) if rng.random() < 0.4 else []
            if radix == 10 and rng.random() < 0.7:
                sp.append(spell_number(10, x, seps if valid_seps(10, x, seps) else []))
            else:
                sp.append(spell_prefixed(radix, x, seps))
        letters = any(c.isalpha() for t in sp for c in t)
        if letters:
            nx += 1
            if nx > (20 if tier == 'quick' else 60):
                continue
        it = iter(sp)
        q = rng.choice([2, 3, 3, 4])
        t = spell_bytes_numeric_with(lambda _b: next(it), q, bs)
        cls = 'bx' if letters else 'br'
        o.lit(cls, 'bytelist', t, term_bytes(bs))
        if q >= 3 and rng.random() < 0.6:
            o.run(cls, 'bytelist', t, term_bytes(bs))
    # quoted ASCII form
    o.both('bq', 'bytelist', spell_bytes_quoted([]), term_bytes([]), 1.0)
    for b in range(128):
        t = spell_bytes_quoted([b])
        o.lit('bq', 'bytelist', t, term_bytes([b]))
        if b != 39:
            o.run('bq', 'bytelist', t, term_bytes([b]))
    pairs = itertools.product(ASCII_SUBSET, repeat=2) if tier == 'quick' else itertools.product(range(128), repeat=2)
    pr = 0.15 if tier == 'quick' else 0.04
    for a, b in pairs:
        t = spell_bytes_quoted([a, b])
        o.lit('bq', 'bytelist', t, term_bytes([a, b]))
        if a != 39 and b != 39 and rng.random() < pr:
            o.run('bq', 'bytelist', t, term_bytes([a, b]))
    for _ in range(200 if tier == 'quick' else 1500):
        bs = [rng.choice(ASCII_SUBSET) if rng.random() < 0.4 else rng.randrange(128) for _ in range(rng.randrange(3, 41))]
        t = spell_bytes_quoted(bs)
        o.lit('bq', 'bytelist', t, term_bytes(bs))
        if 39 not in bs and rng.random() < 0.6:
            o.run('bq', 'bytelist', t, term_bytes(bs))
    # quoted bodies with multi-byte characters: each contributes its UTF-8 bytes
    multi = ['é', '€', '😀', '\x80', '\u07ff', '\u0800', '\uffff', '\U00010000', '\U0010ffff', '漢', '\u0301', '\ud7ff', '\ue000']
    bodies = [c for c in multi] + [a + b for a in multi[:3] for b in multi[:3]] + ['a' + c for c in multi[:3]] + [c + 'a' for c in multi[:3]]
    for _ in range(150 if tier == 'quick' else 1200):
        bodies.append(''.join(rng.choice(multi) if rng.random() < 0.5 else chr(rng.choice([97, 98, 32, 48, 10, 9, 0, 92, 34, 123]))
                              for _ in range(rng.randrange(1, 21))))
    for body in bodies:
        bs, parts = [], []
        for c in body:
            if ord(c) < 128:
                parts.append(escape_byte(ord(c)))
                bs.append(ord(c))
            else:
                parts.append(c)
                bs.extend(utf8_encode(c))
        assert bs == list(body.encode('utf-8'))
        o.both('bm', 'bytelist', quote_byte_list(1, ''.join(parts)), term_bytes(bs), 0.6)


def _gen_symbols(o, rng, tier):
    letters = 'abcdefghijklmnopqrstuvwxyzABCXYZ'
    names = ['a', 'z', '_', '_a', 'a_', 'a1', '1', '12', '1a', 'a:b', 'a::b', 'a:b:c', 'my_symbol', 'a:', 'a::', '_:', 'a1:', 'a:b:',
             'é', 'añb', 'Z9', 'café', 'naïve_1', 'ß', 'αβγ', '日本', 'x٣y', 'é:', 'ñ:b']
    for _ in range(400 if tier == 'quick' else 3000):
        n = rng.randrange(1, 13)
        r = rng.random()
        first = rng.choice(letters) if r < 0.7 else ('_' if r < 0.88 else rng.choice('0123456789'))
        rest = ''
        for _ in range(n - 1):
            r = rng.random()
            rest += rng.choice(letters) if r < 0.6 else (rng.choice('0123456789') if r < 0.78 else ('_' if r < 0.9 else ':'))
        name = first + rest
        if rng.random() < 0.12:
            name = name[:11] + ':'
        names.append(name)
    for name in names:
        cls = 'sc' if name.endswith(':') else 'sy'
        t = spell_symbol(name)
        # LEX probe: `:name` is a single Symbol token for all of these names (identifier characters, second character not `:`)
        o.both(cls, 'symbol', t, term_symbol(name), 1.0)


def _gen_pairs(o, rng, tier):
    """two literals in one program (one data object): spellings that denote equal-looking but different values — an
    integer next to the float of the same magnitude, text next to the byte list of the same characters, the same literal
    twice, a radix form next to its decimal form — must each still read back as what they spell"""
    ints = [0, 1, 2, 3, 9, 10, 255, 1000, 65536, 2147483647] + [rng.randrange(0, 10 ** rng.randrange(1, 9)) for _ in range(10 if tier == 'quick' else 80)]
    for n in ints:
        fi, ff = f'(i {n})', term_float(float(n))
        o.run('pr', 'pair', f'{n}, {n}.0', f'(l {fi} {ff})')
        o.run('pr', 'pair', f'{n}.0, {n}', f'(l {ff} {fi})')
        o.run('pr', 'pair', f'{n}, {n}.0, {n}', f'(l {fi} {ff} {fi})')
        o.run('pr', 'pair', f'{n}.0 = {n}', f'(p {ff} {fi})')
    for t in ['a', 'ab', 'z9', '5']:
        cl = '(cl' + ''.join(f' {ord(c)}' for c in t) + ')'
        bl = '(bl' + ''.join(f' {ord(c)}' for c in t) + ')'
        o.run('pr', 'pair', f'"{t}", \'{t}\'', f'(l {cl} {bl})')
        o.run('pr', 'pair', f'\'{t}\', "{t}"', f'(l {bl} {cl})')
        o.run('pr', 'pair', f'"{t}", "{t}"', f'(l {cl} {cl})')
    o.run('pr', 'pair', '5, "5"', '(l (i 5) (cl 53))')
    o.run('pr', 'pair', '"5", 5', '(l (cl 53) (i 5))')
    o.run('pr', 'pair', '016_ff, 255, 255.0', f'(l (i 255) (i 255) {term_float(255.0)})')
    o.run('pr', 'pair', '1.5, 1, 2, 2.5', f'(l {term_float(1.5)} (i 1) (i 2) {term_float(2.5)})')


def gen_cases(seed, tier='quick'):
    """rows (LIT and RUN mixed) for the property's quantifier; fills the table behind `expected(row)`"""
    _EXPECTED.clear()
    _KIND.clear()
    rng = random.Random(f'litgen-{seed}-{tier}')
    o = _Out(rng)
    _gen_ints(o, rng, tier)
    _gen_floats(o, rng, tier)
    _gen_charlists(o, rng, tier)
    _gen_bytelists(o, rng, tier)
    _gen_symbols(o, rng, tier)
    _gen_pairs(o, rng, tier)
    return o.rows


# ------------------------------------------------------------------ reading results


def value_term(result):
    """the value term of an `ok` result (LIT: `ok <value>`; RUN: `ok <value> steps=..`), None for anything else"""
    if not result.startswith('ok '):
        return None
    r = result[3:]
    if r.startswith('('):
        j = r.find(')')
        return r[:j + 1] if j >= 0 else r
    j = r.find(' steps=')
    return r[:j] if j >= 0 else r


def _shape(term_or_result, is_term):
    if is_term:
        m = re.match(r'\((\w+)', term_or_result)
        return m.group(1) if m else term_or_result.split(' ')[0]
    return re.split(r'[\s:(]', term_or_result, 1)[0] or '?'


def _signature(exp, result):
    got = value_term(result)
    if got is None:
        if result.startswith('simple='):
            return f'{_shape(exp, True)} vs STORES-DIFFER'
        return f'{_shape(exp, True)} vs {_shape(result, False)}'
    se, sg = _shape(exp, True), _shape(got, True)
    extra = ''
    if se == sg and se in ('cl', 'bl'):
        le, lg = len(exp.split()) - 1, len(got.split()) - 1
        extra = ' same-length' if le == lg else (' shorter' if lg < le else ' longer')
    return f'{se} vs {sg}{extra}'


def validate(seeds, tier):
    grand = 0
    for seed in seeds:
        rows = gen_cases(seed, tier)
        ids = [r[1] for r in rows]
        assert len(set(ids)) == len(ids)
        res = vlib.run_impl(rows, f'litgen_{seed}')
        counts, bad = {}, {}
        classes = {}
        for r in rows:
            key = (r[0], kind_of(r))
            counts[key] = counts.get(key, 0) + 1
            exp = expected(r)
            got = res.get(r[1], 'MISSING')
            if value_term(got) == exp:
                continue
            bad[key] = bad.get(key, 0) + 1
            text = vlib.unesc(r[3])
            cls = re.match(r'[a-z]+', r[1]).group(0)
            ck = (r[0], cls, _signature(exp, got))
            e = classes.setdefault(ck, {'n': 0, 'stores': set(), 'best': None})
            e['n'] += 1
            e['stores'].add(r[2] if r[0] == 'RUN' else 'both')
            if e['best'] is None or (len(text), text) < (len(e['best'][0]), e['best'][0]):
                e['best'] = (text, exp, got, r[1])
        grand += len(rows)
        print(f'== seed {seed} tier {tier}: {len(rows)} cases, {sum(bad.values())} mismatches')
        for key in sorted(counts):
            print(f'   {key[0]:3} {key[1]:9} cases={counts[key]:7} mismatches={bad.get(key, 0)}')
        for ck in sorted(classes):
            e = classes[ck]
            text, exp, got, i = e['best']
            print(f'   CLASS {ck[0]} {ck[1]} [{ck[2]}] count={e["n"]} stores={",".join(sorted(e["stores"]))}')
            print(f'         shortest {text!r} (id {i}) expected {exp[:120]} got {got[:160]}')
        sys.stdout.flush()
    print(f'total cases over {len(seeds)} seed(s): {grand}')


if __name__ == '__main__':
    args = sys.argv[1:]
    tier = 'quick'
    if '--tier' in args:
        k = args.index('--tier')
        tier = args[k + 1]
        del args[k:k + 2]
    try:
        validate([int(a) for a in args] or [1], tier)
    except Exception as ex:  # the driver always exits 0
        import traceback
        traceback.print_exc()
        print(f'DRIVER-ERROR {ex}')
    sys.exit(0)
