#!/bin/sh
# confirm_seed_at.sh <worktree> <dest-dir-in-worktree> <cargo-package> [demo-file-name]: like confirm_seed.sh for a demonstration that
# is an integration test of another crate (copied to <dest-dir>/, run with cargo test -p <package> --test <name>)
WT="$1"; DEST="$2"; PKG="$3"; cd "$WT" || exit 2
DEMO=${4:+MUTANT/demo/$4}; DEMO=${DEMO:-$(ls MUTANT/demo/*.rs | head -1)}; NAME=$(basename "$DEMO" .rs)
HAD=0; [ -d "$DEST" ] && HAD=1
git diff -- . ':!MUTANT' ":!$DEST/$NAME.rs" > /tmp/confirmat_$NAME.diff
B1=$(python3 /verif/tools/baseline.py "$WT" | head -1)
mkdir -p "$DEST"; cp "$DEMO" "$DEST/$NAME.rs"
W=$(cargo test -p "$PKG" --test $NAME --offline 2>&1 | grep -E "^test result" | tail -1)
git apply -R /tmp/confirmat_$NAME.diff
WO=$(cargo test -p "$PKG" --test $NAME --offline 2>&1 | grep -E "^test result" | tail -1)
rm -f "$DEST/$NAME.rs"; [ $HAD = 0 ] && rmdir "$DEST" 2>/dev/null
B0=$(python3 /verif/tools/baseline.py "$WT" | head -1)
git apply /tmp/confirmat_$NAME.diff
echo "baseline_with_change: $B1"
echo "baseline_without:     $B0"
echo "demo_with_change:     $W (cargo test -p $PKG --test $NAME, demo copied to $DEST/)"
echo "demo_without:         $WO"
