#!/usr/bin/env python3
"""store_seed.py <worktree> <PROP> <variant> [history text]  — file a confirmed seeded change under /verif/seeded/<PROP>-<variant>/
(patch.diff against the worktree's HEAD, demo/, meta.json with my confirmation lines and the first failure my check reported)."""
import json, os, glob, shutil, subprocess, sys
wt, pid, var = sys.argv[1], sys.argv[2], sys.argv[3]
hist = sys.argv[4] if len(sys.argv) > 4 else None
name = os.path.basename(wt.rstrip('/'))
head = subprocess.check_output(['git', '-C', wt, 'log', '--format=%h %s', '-1'], text=True).strip()
dst = f'/verif/seeded/{pid}-{var}'
os.makedirs(dst + '/demo', exist_ok=True)
diff = subprocess.check_output(['git', '-C', wt, 'diff', '--', '.', ':!MUTANT', ':!tests/tests'], text=True)
open(dst + '/patch.diff', 'w').write(diff)
for f in glob.glob(wt + '/MUTANT/demo/*'):
    shutil.copy(f, dst + '/demo/')
try:
    am = json.load(open(wt + '/MUTANT/meta.json'))
except Exception:
    am = {'raw': open(wt + '/MUTANT/meta.json').read()[:3000]}
conf = [l.strip() for l in open(f'/tmp/seedwork/{name}.confirm') if ':' in l][-4:]
rp = sorted(glob.glob(f'/tmp/seedwork/out-{name}/replays/{pid}-*.json'), key=os.path.getmtime)
caught = {}
if rp:
    e = json.load(open(rp[-1]))
    f = e.get('failure') or {}
    caught = {'check': pid, 'first_failure_kind': f.get('kind'), 'note': f.get('note'), 'replay_case': (f.get('case') or [])[:6],
              'impl': (f.get('impl') or '')[:300], 'expect': (f.get('expect') or '')[:300], 'failures': e.get('count') or 1 + len(e.get('more', [])),
              'broken_obligations': e.get('broken_obligations')}
    if hist:
        caught['history'] = hist
files = [l[6:] for l in diff.splitlines() if l.startswith('+++ b/')]
meta = {'property': pid, 'agent_meta': am, 'files': files, 'base_commit': head, 'confirmed_by_me': conf,
        'how_confirmed': 'tools/confirm_seed.sh <scratch worktree>: baseline.py with and without the change (stable_pass all passing, same 39 always-failing tests), demo test copied to tests/tests/ and run with the change (fails) and with the change reverted (passes)',
        'check_run': f'tools/seedtest.sh {wt} {pid}  (private harness copy built against the scratch worktree; evidence/replays redirected)',
        'caught_by': caught}
json.dump(meta, open(dst + '/meta.json', 'w'), indent=1, ensure_ascii=False)
print(pid + '-' + var, files, caught.get('first_failure_kind'), (caught.get('note') or '')[:90])
