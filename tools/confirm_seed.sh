#!/bin/sh
# confirm_seed.sh <worktree> : confirm a seeded change myself — builds, baseline unchanged, demo fails with / passes without.
# Prints a JSON fragment for meta.json "ran".
WT="$1"; cd "$WT" || exit 2
DEMO=$(ls MUTANT/demo/*.rs | head -1); NAME=$(basename "$DEMO" .rs)
git diff --quiet && { echo "no change applied"; exit 2; }
git diff -- . ':!MUTANT' ':!tests/tests/'"$NAME".rs > /tmp/confirm_$NAME.diff
B1=$(python3 /verif/tools/baseline.py "$WT" | head -1)
cp "$DEMO" tests/tests/$NAME.rs
W=$(cargo test -p garnish_lang_tests --test $NAME --offline 2>&1 | grep -E "^test result" | tail -1)
git apply -R /tmp/confirm_$NAME.diff
WO=$(cargo test -p garnish_lang_tests --test $NAME --offline 2>&1 | grep -E "^test result" | tail -1)
B0=$(python3 /verif/tools/baseline.py "$WT" | head -1)
git apply /tmp/confirm_$NAME.diff
rm -f tests/tests/$NAME.rs
echo "baseline_with_change: $B1"
echo "baseline_without:     $B0"
echo "demo_with_change:     $W"
echo "demo_without:         $WO"
