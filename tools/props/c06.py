"""C06 — evaluation is stack-balanced on every path (dynamic depth monitor at every executed step + completion balance)."""
import json, random, re
import vlib, progsuite
from gen import proggen


def run(ctx):
    drv_ok, h_ok = vlib.standard_proof_obligations(ctx)
    cases, meta = [], {}
    progs = []
    if ctx.replay:
        rp = json.load(open(ctx.replay))
        for f in [rp.get('failure')] + rp.get('more', []):
            if f and f.get('case'):
                c = f['case']; cases.append(c[:1] + [str(len(cases))] + c[2:])
    else:
        progs = progsuite.gen_programs(ctx, 2500 if ctx.tier == 'quick' else 60000, 1 if ctx.tier == 'quick' else 2)
        rnd = random.Random(ctx.seed + 6)
        for src, ast, root, stream in progs:
            st = rnd.choice(progsuite.STORES) if stream in ('random', 'equality') and ctx.tier == 'quick' else None
            for s in ([st] if st else progsuite.STORES):
                meta[progsuite.prog_case(cases, s, src, rnd.choice(proggen.LOOP_INPUTS if stream == 'loops' else proggen.INPUTS), rnd.choice(progsuite.HOSTS), ast)] = stream
        # reapply loops with iteration counts 0..N: constant depth however often they iterate
        nmax = 12 if ctx.tier == 'quick' else 50
        for n in range(0, nmax + 1):
            for body, fin in (('$', '$'), ('$ * 2', '$'), ('(1, $)', '$ + 0')):
                src = '{ !! ($ < %d) ?> %s |> ^~ $ + 1 } <~ 0' % (n, body)
                test = proggen.prefix('!!', proggen.binop('<', proggen.INPUT(), proggen.lit_int(n)))
                for s in progsuite.STORES:
                    cid = str(len(cases))
                    cases.append(['RUN', cid, s, vlib.esc(src), '-', '-'])
                    meta[cid] = f'reapply-{n}'
        # look-ups into concatenations of 2..4 parts (lists, pairs, scalars): the walk over a concatenation borrows the operand
        # stack as its work list and stops early on a hit — at every position of every part, by index and by key; plus the other
        # consumers of that walk (length, equality; casts are outside the machine model of this check: `ApplyType` has no successor in absDepth)
        parts = ['(1 2)', '(3 4)', '(5 6)', '7', '(:k = 8, 9)', '(:j = 1)', '(,)']
        concs = []
        for n_ in (2, 3, 4):
            for combo in ([parts[:n_], parts[1:1 + n_], [parts[3]] + parts[:n_ - 1], parts[4:4 + n_] if n_ <= 3 else parts[3:7], [parts[0], parts[4], parts[1], parts[3]][:n_]]):
                if len(combo) == n_:
                    concs.append(' <> '.join(combo))
        uses_c = ['(%s) . 0', '(%s) . 1', '(%s) . 2', '(%s) . 3', '(%s) . 5', '(%s) . 9', '(%s) . k', '(%s) . j', '(%s) . nokey', '(%s) .|', '((%s) <~ (0 .. 0)) . 0',
                  '(%s) == (%s)', '(%s) <~ 2', '(%s) <~ :k', '100, (%s) . 0, 200', '{ $ . 0 } <~ (%s)', '{ k } <~ (%s)']
        for cc_ in concs:
            for u_ in uses_c:
                for s_ in progsuite.STORES:
                    cid = str(len(cases))
                    cases.append(['RUN', cid, s_, vlib.esc(u_.replace('%s', cc_)), '-', '-']); meta[cid] = 'concat-lookups'
        # shapes the generator above avoids because the unchanged tree is known to break the property on them
        # (recorded in known_findings.json; reported on every run): an else-chain whose last arm is conditional,
        # `|>` without a conditional before it, a reapply in operand position
        for k, src in enumerate(['() ?> 5 |> () ?> 6', '$ ?> 7 |> $ ?> 8', '1 == 2 ?> 7 |> 1 == 3 ?> 8 |> $! ?> 9', '2 (() ?> 5 |> () ?> 6)', '{ $ ?> 1 |> $ == 3 ?> 2 } <~ ()']):
            for s_ in progsuite.STORES:
                cid = f'nofinal{k}{s_[0]}'
                cases.append(['RUN', cid, s_, vlib.esc(src), '-', '-']); meta[cid] = 'finding-stream'
        for k, src in enumerate(['5 |> 6', '5 |> 6 |> 7', '2 (5 |> 6)']):
            for s_ in progsuite.STORES:
                cid = f'barelse{k}{s_[0]}'
                cases.append(['RUN', cid, s_, vlib.esc(src), '-', '-']); meta[cid] = 'finding-stream'
        for k, src in enumerate(['$ < 3 ?> 5 + ^~ ($ + 1) |> 0', '$ < 2 ?> (1, ^~ $ + 1) |> 9', '{ $ < 3 ?> 2 * ^~ $ + 1 |> 1 } <~ 0']):
            for s_ in progsuite.STORES:
                cid = f'opreapply{k}{s_[0]}'
                cases.append(['RUN', cid, s_, vlib.esc(src), '(i 0)', '-']); meta[cid] = 'finding-stream'
    ctx.evaluations = len(cases)
    if not h_ok:
        return
    # every case runs as DEPTH: the built program, the (address, depth) pairs observed while the real VM ran it, the outcome
    dcases = [['DEPTH'] + c[1:6] for c in cases]
    draw = vlib.run_impl(dcases, 'c06', per_case_s=5.0)
    impl, chk_rows = {}, []
    for c in cases:
        r = draw.get(c[1], 'missing')
        parts = r.split(' @@ ')
        if len(parts) == 3:
            impl[c[1]] = parts[2]
            chk_rows.append(['DEPTHCHK', c[1], vlib.esc(r)])
        else:
            impl[c[1]] = r
    chk = vlib.run_model(chk_rows, 'c06chk') if (drv_ok and chk_rows) else {}
    stats = {}
    loops = {}
    for c in cases:
        pi = progsuite.parse_impl(impl.get(c[1]))
        src = vlib.unesc(c[3])
        ctx.distinct.add((c[3], c[2]))
        k = pi['kind']
        sv = chk.get(c[1])
        if sv is not None and ';;' not in src:
            if sv.startswith('static=unbalanced'):
                stats['static-unbalanced'] = stats.get('static-unbalanced', 0) + 1
                ctx.fail('oracle', c, impl=impl.get(c[1]), model=sv, expect='static=balanced', note=f'abstract interpretation of the built instruction stream (verified analysis absDepth) finds an instruction reached with two different operand depths, or an operand underflow, or an expression end at a depth other than 1: {sv} in {src!r}')
                continue
            elif sv.startswith('mismatch'):
                stats['arity-mismatch'] = stats.get('arity-mismatch', 0) + 1
                ctx.fail('oracle', c, impl=impl.get(c[1]), model=sv, expect='observed depth = static depth at every executed instruction', note=f'the real VM reached an instruction at an operand depth other than the one every path must have ({sv}): an instruction consumed or produced a different number of operands than its arity — {src!r}')
                continue
            elif sv.startswith('static=balanced'):
                stats['static-balanced+observed-agree'] = stats.get('static-balanced+observed-agree', 0) + 1
            elif sv != 'skip':
                ctx.fail('corr', c, impl=impl.get(c[1]), model=sv, note='DEPTHCHK could not read the dump')
        if ';;' in src:
            k = 'excluded-terminator'
        elif pi['kind'] == 'ok':
            if (pi['regs'], pi['vals'], pi['frames']) != (0, 1, 0):
                k = 'unbalanced'
                ctx.fail('oracle', c, impl=impl.get(c[1]), expect='regs=0 vals=1 frames=0', note=f'stacks not back at their initial depths after completion: {src!r}')
            elif pi['depth'] != 'ok':
                k = 'depth'
                ctx.fail('oracle', c, impl=impl.get(c[1]), expect='depth=ok', note=f'pending-operand count differs by path, is negative, or is not 1 where an expression ends, or the input-value stack dropped below its initial depth ({pi["depth"]}): {src!r}')
            if meta.get(c[1], '').startswith('reapply-'):
                loops.setdefault(c[2], []).append((int(meta[c[1]].split('-')[1]), pi['steps']))
        elif pi['kind'] == 'runerr' and re.search(r'No references in register|Not enough register', pi.get('msg', '') or impl.get(c[1], '')):
            k = 'underflow'
            ctx.fail('oracle', c, impl=impl.get(c[1]), expect='operands present', note=f'the VM ran out of pending operands (operand depth would drop below zero): {src!r}')
        elif pi['kind'] in ('runerr', 'steplimit') and meta.get(c[1], '').startswith('reapply-'):
            k = 'loop-incomplete'
            ctx.fail('oracle', c, impl=impl.get(c[1]), expect='ok', note=f'a reapply loop of {meta[c[1]].split("-")[1]} iterations did not run to completion ({pi["kind"]}): {src!r}')
        elif pi['kind'] in ('runerr', 'steplimit'):
            if pi['depth'] != 'ok':
                k = 'depth'
                ctx.fail('oracle', c, impl=impl.get(c[1]), expect='depth=ok', note=f'pending-operand count differs by path / negative / not 1 at an expression end, or the input-value stack dropped below its initial depth ({pi["depth"]}; run ended with {pi["kind"]}): {src!r}')
        elif pi['kind'] in ('PANIC', 'HANG', 'ABORT', 'missing'):
            ctx.fail('oracle', c, impl=impl.get(c[1]), expect='a result', note=f'{pi["kind"]} while running {src!r}')
        stats[k] = stats.get(k, 0) + 1
    # fixed arity of every instruction on every operand type pair: the operand-stack / input-value-stack / frame deltas of
    # one executed instruction (the complete OP matrix, both stores, three host modes) must equal those of the value-level
    # model, whose arity is what step_arity and absDepth_sound are proved about
    if not ctx.replay and drv_ok:
        import opsuite
        from gen import opgen
        ocases = opgen.gen_cases()
        if ctx.tier == 'quick':
            ocases = ocases[::2]
        orows = opsuite.run(ocases, 'c06op', True)
        nar = 0
        for c, ri, rm, skip in orows:
            pi_, pm_ = opsuite.parse_result(ri), opsuite.parse_result(rm)
            if skip or pi_['kind'] != 'ok' or pm_['kind'] != 'ok':
                continue
            nar += 1
            a = (pi_['regs'], pi_['vals'], pi_['frames'])
            b = (pm_['regs'], pm_['vals'], pm_['frames'])
            if a != b:
                ctx.fail('oracle', c, impl=ri, model=rm, expect=f'regs={b[0]} vals={b[1]} frames={b[2]}', note=f'the {c[3]} instruction on {c[2]} changes the stacks by regs={a[0]} vals={a[1]} frames={a[2]}; its arity is regs={b[0]} vals={b[1]} frames={b[2]}')
        stats['OP arity comparisons'] = nar
        ctx.evaluations += len(ocases)
    # executions with the host COMPACTING the data object between steps (BasicGarnishData::optimize at every step boundary, once at
    # each boundary, twice in a row): the programs are calls that push every kind of frame cell (with / without pending operands, at
    # top level and nested); the run must end with the value and the stack depths of the run without compaction
    if not ctx.replay:
        from gen import optgen
        base_ = [c for c in optgen.run_base_cases() if int(c[1][3:].split('.')[0]) >= 24]
        bres_ = vlib.run_impl(base_, 'c06_optbase', per_case_s=10.0)
        rc_ = [c for c in optgen.gen_run_cases(optgen.steps_of(bres_)) if int(c[1][3:].split('.')[0]) >= 24 and ('.k' in c[1] or '.every' in c[1] or '.twice' in c[1])]
        ri_ = vlib.run_impl(rc_, 'c06_optrun', per_case_s=10.0)
        nrun_ = 0
        for c in rc_:
            nrun_ += 1
            ctx.distinct.add(('compaction', c[3], c[5]))
            f_ = optgen.oracle_detail(c, ri_.get(c[1], 'MISSING'))
            if f_:
                cls_ = '; '.join(str(x[0]) if isinstance(x, (list, tuple)) else str(x) for x in f_[:3])
                ctx.fail('oracle', c, impl=ri_.get(c[1], '')[:400], model=None, expect='the result and stack depths of the run without compaction', note=f'with the data object compacted between steps ({c[5]}) the program {vlib.unesc(c[3])!r} no longer computes its value: {cls_}')
        ctx.evaluations += len(rc_)
        ctx.suites = dict(ctx.suites or {}, **{'OPT.run (compaction between steps, call shapes)': nrun_})
    ctx.rule = ('RUN/PROG cases: generated core-language programs (small-exhaustive + random, no bare `;;`) on both stores with a per-step monitor in the harness: operand count relative to the frame base recorded per instruction address (conflict = two paths reach it with different depths), never negative, exactly 1 when EndExpression executes; the input-value stack never shorter than at the start; '
                'on completion registers, input-value stack and frame chain back at their initial depths; the verified abstract interpretation absDepth is run on every built instruction stream (all paths) and every observed (address, depth) pair must equal its result; reapply loops with iteration counts 0..N (must complete, in steps linear in N); the stack deltas of every single instruction on every operand type pair (OP matrix) against the model`s arity; distinct = distinct (source, store).')
    ctx.suites = dict(ctx.suites or {}, **{'RUN': len(cases), 'outcomes': stats})
    if progs:
        ctx.distribution = progsuite.feature_distribution(progs)
    for c in cases[:: max(1, len(cases) // 6)][:6]:
        ctx.sample({'source': vlib.unesc(c[3]), 'store': c[2], 'impl': impl.get(c[1])}, cap=80)
    ctx.trusted += ['depth monitor in harness/src/runs.rs (frame-relative operand count through public getters + verif hooks)',
                    'static all-paths analysis: Props/C06Static.lean absDepth (verified: absDepth_sound, absDepth_endExpression_one, absDepth_operands_present) run by the driver on the implementation`s dumped instruction stream; parseDump in Driver/CompileDrv.lean reads the dump']
