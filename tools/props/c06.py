"""C06 — evaluation is stack-balanced on every path (dynamic depth monitor at every executed step + completion balance)."""
import json, random
import vlib, progsuite
from gen import proggen


def run(ctx):
    drv_ok, h_ok = vlib.standard_proof_obligations(ctx)
    cases, meta = [], {}
    progs = []
    if ctx.replay:
        rp = json.load(open(ctx.replay))
        for f in [rp.get('failure')] + rp.get('more', []):
            if f and f.get('case'):
                c = f['case']; cases.append(c[:1] + [str(len(cases))] + c[2:])
    else:
        progs = progsuite.gen_programs(ctx, 2500 if ctx.tier == 'quick' else 60000, 1 if ctx.tier == 'quick' else 2)
        rnd = random.Random(ctx.seed + 6)
        for src, ast, root, stream in progs:
            st = rnd.choice(progsuite.STORES) if stream == 'random' and ctx.tier == 'quick' else None
            for s in ([st] if st else progsuite.STORES):
                meta[progsuite.prog_case(cases, s, src, rnd.choice(proggen.INPUTS), rnd.choice(progsuite.HOSTS), ast)] = stream
        # reapply loops with iteration counts 0..N: constant depth however often they iterate
        nmax = 12 if ctx.tier == 'quick' else 50
        for n in range(0, nmax + 1):
            for body, fin in (('$', '$'), ('$ * 2', '$'), ('(1, $)', '$ + 0')):
                src = '{ !! ($ < %d) ?> %s |> ^~ $ + 1 } <~ 0' % (n, body)
                test = proggen.prefix('!!', proggen.binop('<', proggen.INPUT(), proggen.lit_int(n)))
                for s in progsuite.STORES:
                    cid = str(len(cases))
                    cases.append(['RUN', cid, s, vlib.esc(src), '-', '-'])
                    meta[cid] = f'reapply-{n}'
    ctx.evaluations = len(cases)
    if not h_ok:
        return
    impl = vlib.run_impl(cases, 'c06', per_case_s=5.0)
    stats = {}
    loops = {}
    for c in cases:
        pi = progsuite.parse_impl(impl.get(c[1]))
        src = vlib.unesc(c[3])
        ctx.distinct.add((c[3], c[2]))
        k = pi['kind']
        if ';;' in src:
            k = 'excluded-terminator'
        elif pi['kind'] == 'ok':
            if (pi['regs'], pi['vals'], pi['frames']) != (0, 1, 0):
                k = 'unbalanced'
                ctx.fail('oracle', c, impl=impl.get(c[1]), expect='regs=0 vals=1 frames=0', note=f'stacks not back at their initial depths after completion: {src!r}')
            elif pi['depth'] != 'ok':
                k = 'depth'
                ctx.fail('oracle', c, impl=impl.get(c[1]), expect='depth=ok', note=f'pending-operand count differs by path, is negative, or is not 1 where an expression ends: {src!r}')
            if meta.get(c[1], '').startswith('reapply-'):
                loops.setdefault(c[2], []).append((int(meta[c[1]].split('-')[1]), pi['steps']))
        elif pi['kind'] in ('runerr', 'steplimit'):
            if pi['depth'] != 'ok':
                k = 'depth'
                ctx.fail('oracle', c, impl=impl.get(c[1]), expect='depth=ok', note=f'pending-operand count differs by path / negative / not 1 at an expression end (run ended with {pi["kind"]}): {src!r}')
        elif pi['kind'] in ('PANIC', 'HANG', 'ABORT', 'missing'):
            ctx.fail('oracle', c, impl=impl.get(c[1]), expect='a result', note=f'{pi["kind"]} while running {src!r}')
        stats[k] = stats.get(k, 0) + 1
    ctx.rule = ('RUN/PROG cases: generated core-language programs (small-exhaustive + random, no bare `;;`) on both stores with a per-step monitor in the harness: operand count relative to the frame base recorded per instruction address (conflict = two paths reach it with different depths), never negative, exactly 1 when EndExpression executes; '
                'on completion registers, input-value stack and frame chain back at their initial depths; reapply loops with iteration counts 0..N; distinct = distinct (source, store).')
    ctx.suites = {'RUN': len(cases), 'outcomes': stats}
    if progs:
        ctx.distribution = progsuite.feature_distribution(progs)
    for c in cases[:: max(1, len(cases) // 6)][:6]:
        ctx.sample({'source': vlib.unesc(c[3]), 'store': c[2], 'impl': impl.get(c[1])}, cap=80)
    ctx.trusted += ['depth monitor in harness/src/runs.rs (frame-relative operand count through public getters + verif hooks)',
                    'static all-paths analysis (absDepth) is not built yet: paths are those the generated inputs/hosts drive']
