"""C19 — compaction and cloning preserve everything reachable."""
import json
import vlib
from gen import optgen

OUTSIDE = {'cut'}   # retention counts that cut through a multi-cell value: no public getter yields such a count (recorded only)


def run(ctx):
    drv_ok, h_ok = vlib.standard_proof_obligations(ctx)
    if ctx.replay:
        rp = json.load(open(ctx.replay))
        cases = []
        for f in [rp.get('failure')] + rp.get('more', []):
            if f and f.get('case'):
                cases.append(f['case'])
    else:
        cases = optgen.gen_cases(ctx.seed, ctx.tier)
    ctx.evaluations = len(cases)
    if not h_ok:
        return
    # program stream: compaction injected at every step boundary of running programs (implementation-only oracle)
    run_cases = []
    if not ctx.replay:
        base = optgen.run_base_cases()
        bres = vlib.run_impl(base, 'c19base', per_case_s=10.0)
        run_cases = optgen.gen_run_cases(optgen.steps_of(bres))
        if ctx.tier == 'quick':
            run_cases = run_cases[::3]
    impl = vlib.run_impl(cases + run_cases, 'c19', per_case_s=10.0)
    model = vlib.run_model(cases, 'c19') if drv_ok else {}
    ctx.evaluations = len(cases) + len(run_cases)
    streams = {}
    for c in cases + run_cases:
        st = optgen.stream_of(c[1])
        streams[st] = streams.get(st, 0) + 1
        ctx.distinct.add('\t'.join(c[2:]))
    by_id = {c[1]: c for c in cases + run_cases}
    dis, orc, iso = optgen.compare(cases, impl, model) if drv_ok else ([], [], [])
    if not drv_ok:
        for c in cases:
            f = optgen.oracle_detail(c, impl.get(c[1], 'MISSING'))
            if f:
                orc.append((c[1], c[2], f))
    for c in run_cases:
        f = optgen.oracle_detail(c, impl.get(c[1], 'MISSING'))
        if f:
            orc.append((c[1], c[2], f))
    for cid, script, fails in orc:
        st = optgen.stream_of(cid)
        if st in OUTSIDE:
            continue
        cls = '; '.join(str(x[0]) if isinstance(x, (list, tuple)) else str(x) for x in fails[:4])
        ctx.fail('oracle', by_id[cid], impl=impl.get(cid, '')[:600], model=None, expect='everything reachable identical before/after', note=f'C19 violated (stream {st}): {cls}')
    for cid, script, a, b in dis:
        if 'Clone limit reached' in a and 'Clone limit reached' not in b and ' err ' not in b:
            # the implementation REFUSES a legal acyclic store that the guard`s own budget (carried by the model) admits: the operation
            # fails, so nothing is preserved and execution cannot continue — a failing input of the property itself
            ctx.fail('oracle', by_id[cid], impl=a[:600], model=b[:600], expect='optimize / clone_data succeed on a legal acyclic store', note=f'C19 violated (stream {optgen.stream_of(cid)}): optimize / clone_data answer `Clone limit reached` on an acyclic value graph within the documented budget')
            continue
        ctx.fail('corr', by_id[cid], impl=a[:600], model=b[:600], expect=b[:300], note='optimize / clone differ from the Lean model cell by cell (OPT / CLONE suite)')
    for cid, script, verdict, f in iso:
        ctx.fail('corr', by_id[cid], impl=impl.get(cid, '')[:300], model=model.get(cid, '')[:300], note=f'verified checker graphIso verdict {verdict} disagrees with the read-back oracle {f[:2]}')
    ctx.oblige('suite BASIC.optimize + BASIC.clone (implementation = Lean model, cell by cell; graphIso verdict = oracle)', 'suite', not dis and not iso and drv_ok, f'{len(dis)} disagreement(s), {len(iso)} checker mismatches')
    ctx.rule = ('OPT/CLONE scripts executed on a fresh BasicGarnishData through public methods: random value graphs (keyed lists, pairs, text, symbol lists, concatenations, shared sub-values), values also referenced from the register / value / frame stacks, symbol-name table entries, retention counts taken at operation boundaries, extra roots incl. ones already reachable, clone_data before optimize, in-place updates of retained input values, repeated optimize, clone of every kind of value; '
                'oracle on the implementation alone: every register, value-stack entry, frame, extra root (through the returned mapping), retained-prefix address and symbol name renders identically before and after, no stray cells; plus cell-by-cell agreement with the Lean model and the verified graphIso checker`s verdict; distinct = distinct scripts. Retention counts that cut through a multi-cell value are recorded, not judged.')
    ctx.suites = {'OPT+CLONE': len(cases), 'streams': streams, 'oracle_failures': len(orc)}
    for c in cases[:: max(1, len(cases) // 5)][:5]:
        ctx.sample({'script': c[2][:300], 'impl': (impl.get(c[1]) or '')[:300]}, cap=80)
    ctx.trusted += ['graphIso_sound: an accepted root pairing implies equal decodings, for all heaps; the universal optimize/clone theorems are partial (retained prefix unchanged, originals untouched, mapping shape)',
                    'hooks verif_blocks / verif_cell / verif_heads (read-only)']
