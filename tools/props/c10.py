"""C10 — one notion of truth (value/instruction level; program-level short-circuit is checked with the PROG suite when present)."""
import json
import vlib, opsuite
from gen import opgen

TESTERS = ['JumpIfTrue', 'JumpIfFalse', 'And', 'Or', 'Not', 'Tis']


def truthy(term):
    return term not in ('U', 'F')


def run(ctx):
    drv_ok, h_ok = vlib.standard_proof_obligations(ctx)
    if ctx.replay:
        rp = json.load(open(ctx.replay))
        cases = []
        for f in [rp.get('failure')] + rp.get('more', []):
            if f and f.get('case'):
                cases.append(f['case'][:1] + [str(len(cases))] + f['case'][2:])
    else:
        cases = opgen.gen_cases(instrs_bin=['Xor'], instrs_un=TESTERS)
    # program-level: short-circuit and arm selection through the RUN suite
    try:
        from props import progsuite
        prog_cases = progsuite.c10_cases(ctx) if not ctx.replay else []
    except ImportError:
        prog_cases = []
    ctx.evaluations = len(cases) + len(prog_cases)
    if not h_ok:
        return
    rows = opsuite.run(cases, 'c10', drv_ok)
    dis = 0
    for c, ri, rm, skip in rows:
        instr = c[3]
        a, b = c[5], c[6]
        pi = opsuite.parse_result(ri)
        ctx.distinct.add((instr, a, b))
        if pi['kind'] != 'ok':
            ctx.fail('oracle', c, impl=ri, model=rm, expect='ok', note='a testing instruction must not fail')
            continue
        t = truthy(a)
        exp = None
        if instr == 'JumpIfTrue': exp = ('-', 0, '42' if t else '1')
        elif instr == 'JumpIfFalse': exp = ('-', 0, '1' if t else '42')
        elif instr == 'And': exp = (('-', 0, '42') if t else ('F', 1, '1'))
        elif instr == 'Or': exp = (('T', 1, '1') if t else ('-', 0, '42'))
        elif instr == 'Not': exp = ('F' if t else 'T', 1, '1')
        elif instr == 'Tis': exp = ('T' if t else 'F', 1, '1')
        elif instr == 'Xor': exp = ('T' if truthy(a) != truthy(b) else 'F', 1, '1')
        if exp and (pi['top'], pi['regs'], pi['next']) != exp:
            ctx.fail('oracle', c, impl=ri, model=rm, expect=f'top={exp[0]} regs={exp[1]} next={exp[2]}', note='value classified differently from the one notion of truth (only unit and $! are false)')
            continue
        if rm is not None and not skip and ri != rm:
            dis += 1
            ctx.fail('corr', c, impl=ri, model=rm, expect=rm, note='implementation differs from the Lean model (OP suite)')
    ctx.oblige('suite OP.{JumpIfTrue,JumpIfFalse,And,Or,Xor,Not,Tis} (implementation = Lean model)', 'suite', dis == 0 and drv_ok, f'{dis} disagreement(s)')
    if prog_cases:
        progsuite.c10_check(ctx, prog_cases)
    ctx.exhaustive = True
    ctx.rule = ('every testing instruction (JumpIfTrue, JumpIfFalse, And, Or, Not, Tis; Xor on all ordered pairs) x every value type with empty and non-empty representatives x both stores x 3 host modes, exhaustive; '
                'oracle: taken/fall-through, pushed boolean and register delta follow truthy(v) = v not in {unit, $!}; distinct = distinct (instr, A, B).'
                + (' Program level: see suites.' if prog_cases else ''))
    ctx.suites['OP.testers'] = len(cases)
    for c, ri, rm, skip in rows[:: max(1, len(rows) // 6)][:6]:
        ctx.sample({'case': c[2:], 'impl': ri, 'model': rm}, cap=80)
    ctx.trusted += ['regenerated falsy sets (tools/gen/runtime_tables.py) bridged to Spec.falsy by decide', 'value-level machine (Abs/Machine.lean step) tied to the handlers by the OP suite']
