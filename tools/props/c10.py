"""C10 — one notion of truth (value/instruction level; program-level short-circuit is checked with the PROG suite when present)."""
import json
import vlib, opsuite
from gen import opgen

TESTERS = ['JumpIfTrue', 'JumpIfFalse', 'And', 'Or', 'Not', 'Tis']


def truthy(term):
    return term not in ('U', 'F')


def run(ctx):
    drv_ok, h_ok = vlib.standard_proof_obligations(ctx)
    if ctx.replay:
        rp = json.load(open(ctx.replay))
        cases = []
        for f in [rp.get('failure')] + rp.get('more', []):
            if f and f.get('case'):
                cases.append(f['case'][:1] + [str(len(cases))] + f['case'][2:])
    else:
        cases = opgen.gen_cases(instrs_bin=['Xor'], instrs_un=TESTERS)
    # program level: logical operators, conditionals and else-chains whose operands / arms end in every kind of
    # instruction, with left operands selecting either side; real pipeline vs evalF (value and host-call trace: an
    # operand that must not be evaluated shows as an extra resolve call)
    prog_cases, pmeta = [], {}
    if not ctx.replay:
        import random
        import progsuite
        from gen import proggen
        rnd = random.Random(ctx.seed + 10)
        for k, (name, root) in enumerate(proggen.logic_shapes()):
            src, ast = proggen.pp(root), proggen.program_term(root)
            for inp in (proggen.INPUTS if ctx.tier == 'thorough' else ['-', '(i 5)', 'F']):
                for st in (progsuite.STORES if ctx.tier == 'thorough' else [progsuite.STORES[k % 2]]):
                    pmeta[progsuite.prog_case(prog_cases, st, src, inp, progsuite.HOSTS[k % len(progsuite.HOSTS)], ast)] = 'logic'
        for k, (name, root) in enumerate(proggen.tester_shapes()):
            src, ast = proggen.pp(root), proggen.program_term(root)
            for st in progsuite.STORES:
                pmeta[progsuite.prog_case(prog_cases, st, src, '(i 5)', progsuite.HOSTS[k % len(progsuite.HOSTS)], ast)] = 'testers'
        # identifiers as tested values / arms on CLONES of the built object (each of the four public clone helpers): which operand is
        # evaluated shows in the host's resolve calls, and a clone must behave like the original
        clone_cases = []
        for src in ('flag ?> yes |> no', 'left && right', 'left || right', '!! flag', '?? flag', 'flag !> yes |> no', 'a ^^ b', '() ?> yes |> no', '$! && right', '1 || right'):
            for st in ('simple', 'simpleclone', 'simpleclone2', 'simpleclone3', 'simpleclone4'):
                for host in progsuite.HOSTS[1:]:
                    clone_cases.append(['RUN', f'cl{len(clone_cases)}', st, vlib.esc(src), '-', host])
    ctx.evaluations = len(cases) + len(prog_cases)
    if not h_ok:
        return
    rows = opsuite.run(cases, 'c10', drv_ok)
    dis = 0
    for c, ri, rm, skip in rows:
        instr = c[3]
        a, b = c[5], c[6]
        pi = opsuite.parse_result(ri)
        ctx.distinct.add((instr, a, b))
        if pi['kind'] != 'ok':
            ctx.fail('oracle', c, impl=ri, model=rm, expect='ok', note='a testing instruction must not fail')
            continue
        t = truthy(a)
        exp = None
        if instr == 'JumpIfTrue': exp = ('-', 0, '42' if t else '1')
        elif instr == 'JumpIfFalse': exp = ('-', 0, '1' if t else '42')
        elif instr == 'And': exp = (('-', 0, '42') if t else ('F', 1, '1'))
        elif instr == 'Or': exp = (('T', 1, '1') if t else ('-', 0, '42'))
        elif instr == 'Not': exp = ('F' if t else 'T', 1, '1')
        elif instr == 'Tis': exp = ('T' if t else 'F', 1, '1')
        elif instr == 'Xor': exp = ('T' if truthy(a) != truthy(b) else 'F', 1, '1')
        if exp and (pi['top'], pi['regs'], pi['next']) != exp:
            ctx.fail('oracle', c, impl=ri, model=rm, expect=f'top={exp[0]} regs={exp[1]} next={exp[2]}', note='value classified differently from the one notion of truth (only unit and $! are false)')
            continue
        if rm is not None and not skip and ri != rm:
            dis += 1
            ctx.fail('corr', c, impl=ri, model=rm, expect=rm, note='implementation differs from the Lean model (OP suite)')
    ctx.oblige('suite OP.{JumpIfTrue,JumpIfFalse,And,Or,Xor,Not,Tis} (implementation = Lean model)', 'suite', dis == 0 and drv_ok, f'{dis} disagreement(s)')
    if prog_cases:
        pimpl = vlib.run_impl(prog_cases, 'c10prog', per_case_s=5.0)
        pmodel = vlib.run_model(prog_cases, 'c10prog') if drv_ok else {}
        pstats = progsuite.compare_prog(ctx, prog_cases, pmeta, pimpl, pmodel, want_balance=False)
        for c in prog_cases:
            ctx.distinct.add(('prog', c[3], c[4]))
        ci_ = vlib.run_impl(clone_cases, 'c10clone', per_case_s=5.0)
        ref_ = {}
        for c in clone_cases:
            if c[2] == 'simple':
                ref_[(c[3], c[5])] = ci_.get(c[1])
        for c in clone_cases:
            if c[2] != 'simple':
                a_, b_ = progsuite.parse_impl(ci_.get(c[1])), progsuite.parse_impl(ref_.get((c[3], c[5])))
                ctx.distinct.add(('clone', c[2], c[3], c[5]))
                if b_['kind'] == 'ok' and (a_['kind'] != 'ok' or progsuite.canon(a_['value']) != progsuite.canon(b_['value']) or progsuite.canon(a_['log']) != progsuite.canon(b_['log'])):
                    ctx.fail('oracle', c, impl=ci_.get(c[1]), model=None, expect=ref_.get((c[3], c[5])), note=f'on a clone of the built object ({c[2]}) the testing construct {vlib.unesc(c[3])!r} evaluates other operands / arms than on the original (value or resolve calls differ)')
        ctx.evaluations += len(clone_cases)
        ctx.suites['RUN.testers on clones'] = len(clone_cases)
        ctx.suites['PROG.logic'] = len(prog_cases)
        ctx.suites['PROG.logic outcomes'] = pstats
    ctx.exhaustive = True
    ctx.rule = ('every testing instruction (JumpIfTrue, JumpIfFalse, And, Or, Not, Tis; Xor on all ordered pairs) x every value type with empty and non-empty representatives x both stores x 3 host modes, exhaustive; '
                'oracle: taken/fall-through, pushed boolean and register delta follow truthy(v) = v not in {unit, $!}; distinct = distinct (instr, A, B).'
                + (' Program level (PROG): every combination of (&&, ||, ?>, !>, else-chain arm / middle arm / final arm, two-level nestings) x (left operand truthy / $! / unit / $) x (operand or arm ending in an atom, ??, !!, arithmetic, an inner else-chain arm or final arm with and without ??, an inner && / ||, a conditional, a call, a list, a pair, an identifier), and every testing construct (??, !!, ?>, !>, && and || on either side, ^^ on either side, a middle else-chain arm) applied without parentheses to a value written with an operator (range, pair, lists, concatenation, arithmetic, comparison, access, prefix / suffix operators, calls, partial application, nested testers; true values of every composite type and the false / unit results of operators), run through the real pipeline and compared with evalF: value and host-call trace.' if prog_cases else ''))
    ctx.suites['OP.testers'] = len(cases)
    for c, ri, rm, skip in rows[:: max(1, len(rows) // 6)][:6]:
        ctx.sample({'case': c[2:], 'impl': ri, 'model': rm}, cap=80)
    ctx.trusted += ['regenerated falsy sets (tools/gen/runtime_tables.py) bridged to Spec.falsy by decide', 'value-level machine (Abs/Machine.lean step) tied to the handlers by the OP suite']
