"""C09 — number arithmetic is exact or unit, never wrapped."""
import json, random, struct
import vlib

OPS_BIN = ['plus', 'subtract', 'multiply', 'divide', 'integerDivide', 'power', 'remainder',
           'bitwiseAnd', 'bitwiseOr', 'bitwiseXor', 'bitwiseShiftLeft', 'bitwiseShiftRight']
OPS_UN = ['absoluteValue', 'opposite', 'increment', 'decrement', 'bitwiseNot']
MIN, MAX = -2**31, 2**31 - 1


def lattice():
    s = {MIN, MIN + 1, -1, 0, 1, MAX - 1, MAX}
    for k in range(1, 31):
        for d in (-1, 0, 1):
            s.add(2**k + d)
            s.add(-(2**k) + d)
    return sorted(x for x in s if MIN <= x <= MAX)


def fbits(x):
    return 'f:%016x' % struct.unpack('<Q', struct.pack('<d', x))[0]


FLOATS = [0.0, -0.0, 5e-324, -5e-324, 1e-310, 2.2250738585072014e-308, 0.5, -0.5, 1.0, -1.0, 1.5, -1.5, 2.0, 2.5, -2.5,
          3.0, 0.1, 1e15 + 0.5, 2147483647.0, 2147483647.5, 2147483648.0, -2147483648.0, -2147483648.5, -2147483649.0,
          4294967296.0, 1e300, -1e300, 1.7976931348623157e308, -1.7976931348623157e308, 3.141592653589793, -8.0, 1e-5, 7.0, 1e154]
INTS_SMALL = [MIN, MIN + 1, -1000003, -31, -2, -1, 0, 1, 2, 3, 7, 31, 32, 33, 1000003, 65536, MAX - 1, MAX]


def int_spec(op, a, b):
    """independent Python oracle on exact integers (None = no result)"""
    def ex(x):
        return x if MIN <= x <= MAX else None
    def tdiv(a, b):
        q = abs(a) // abs(b)
        return q if (a < 0) == (b < 0) else -q
    if op == 'plus': return ex(a + b)
    if op == 'subtract': return ex(a - b)
    if op == 'multiply': return ex(a * b)
    if op in ('divide', 'integerDivide'): return None if b == 0 else ex(tdiv(a, b))
    if op == 'remainder':
        if b == 0 or ex(tdiv(a, b)) is None: return None
        return a - b * tdiv(a, b)
    if op == 'power':
        if b < 0: return None
        if a in (0, 1, -1) or b < 64: return ex(a ** b)
        return None
    if op == 'absoluteValue': return ex(abs(a))
    if op == 'opposite': return ex(-a)
    if op == 'increment': return ex(a + 1)
    if op == 'decrement': return ex(a - 1)
    if op == 'bitwiseNot': return ~a
    if op == 'bitwiseAnd': return a & b
    if op == 'bitwiseOr': return a | b
    if op == 'bitwiseXor': return a ^ b
    if op == 'bitwiseShiftLeft':
        if not 0 <= b <= 31: return None
        return ((a << b) + 2**31) % 2**32 - 2**31
    if op == 'bitwiseShiftRight':
        if not 0 <= b <= 31: return None
        return a >> b
    raise ValueError(op)


def run(ctx):
    drv_ok, h_ok = vlib.standard_proof_obligations(ctx)
    rnd = random.Random(ctx.seed)
    cases = []
    def add(op, a, b):
        cases.append(['NUM', str(len(cases)), op, a, b])
    if ctx.replay:
        rp = json.load(open(ctx.replay))
        for f in [rp.get('failure')] + rp.get('more', []):
            if f and f.get('case'):
                c = f['case']
                add(c[2], c[3], c[4])
    else:
        lat = lattice()
        for op in OPS_BIN:
            for a in lat:
                for b in lat:
                    add(op, f'i:{a}', f'i:{b}')
        for op in OPS_UN:
            for a in lat:
                add(op, f'i:{a}', 'i:0')
        # shift counts and exponents around the interesting limits
        for op in ('bitwiseShiftLeft', 'bitwiseShiftRight', 'power'):
            for a in lat:
                for b in list(range(-3, 70)):
                    add(op, f'i:{a}', f'i:{b}')
        nrand = 100000 if ctx.tier == 'quick' else 3000000
        for _ in range(nrand):
            op = rnd.choice(OPS_BIN + OPS_UN)
            kind = rnd.random()
            def ri():
                r = rnd.random()
                if r < 0.5: return rnd.randint(MIN, MAX)
                if r < 0.8: return rnd.randint(-70000, 70000)
                return rnd.choice(lat) + rnd.randint(-3, 3)
            a = max(MIN, min(MAX, ri())); b = max(MIN, min(MAX, ri()))
            add(op, f'i:{a}', f'i:{b}')
        # floats and mixed
        for op in OPS_BIN + OPS_UN:
            for x in FLOATS:
                for y in FLOATS:
                    add(op, fbits(x), fbits(y))
                if op in OPS_UN: continue
                for i in INTS_SMALL:
                    add(op, fbits(x), f'i:{i}')
                    add(op, f'i:{i}', fbits(x))
        nfr = 20000 if ctx.tier == 'quick' else 500000
        for _ in range(nfr):
            op = rnd.choice(OPS_BIN[:7])
            def rf():
                r = rnd.random()
                if r < 0.3: return rnd.choice(FLOATS)
                if r < 0.6: return rnd.uniform(-1e6, 1e6)
                if r < 0.8: return struct.unpack('<d', struct.pack('<Q', rnd.getrandbits(64)))[0]
                return float(rnd.randint(-100, 100)) / 4
            x = rf(); y = rf()
            if x != x or y != y or x in (float('inf'), float('-inf')) or y in (float('inf'), float('-inf')):
                continue
            if rnd.random() < 0.3:
                add(op, f'i:{rnd.choice(INTS_SMALL)}', fbits(y))
            elif rnd.random() < 0.3:
                add(op, fbits(x), f'i:{rnd.choice(INTS_SMALL)}')
            else:
                add(op, fbits(x), fbits(y))
    ctx.evaluations = len(cases)
    if not h_ok:
        return
    impl = vlib.run_impl(cases, 'c09', per_case_s=5.0)
    model = vlib.run_model(cases, 'c09') if drv_ok else {}
    nint = nfloat = 0
    disagree = 0
    results = {}
    for c in cases:
        cid, op, a, b = c[1], c[2], c[3], c[4]
        ri = impl.get(cid, 'MISSING')
        rm = model.get(cid)
        is_int = a.startswith('i:') and b.startswith('i:')
        results[ri.split(':')[0]] = results.get(ri.split(':')[0], 0) + 1
        if not (a in ('i:0', 'i:1') and b in ('i:0', 'i:1')):
            ctx.distinct.add((op, a, b))
        expect = None
        if is_int:
            nint += 1
            s = int_spec(op, int(a[2:]), int(b[2:]))
            expect = 'none' if s is None else f'i:{s}'
            if ri != expect:
                ctx.fail('oracle', c, impl=ri, model=rm, expect=expect, note='integer result differs from the exact specification')
                continue
        else:
            nfloat += 1
            if ri.startswith('PANIC') or ri in ('HANG',) or ri.startswith('ABORT') or ri == 'f:nan' or ri in ('f:7ff0000000000000', 'f:fff0000000000000'):
                ctx.fail('oracle', c, impl=ri, model=rm, expect='finite float or none', note='panic/hang/non-finite float result')
                continue
            if op == 'integerDivide':
                def val(t):
                    return float(int(t[2:])) if t.startswith('i:') else struct.unpack('<d', struct.pack('<Q', int(t[2:], 16)))[0]
                lf, rf = val(a), val(b)
                if rf == 0.0:
                    expect = 'none'
                else:
                    q = lf / rf
                    if q != q or q in (float('inf'), float('-inf')) or not (MIN <= int(q) <= MAX):
                        expect = 'none'
                    else:
                        expect = f'i:{int(q)}'
                if ri != expect:
                    ctx.fail('oracle', c, impl=ri, model=rm, expect=expect, note='`//` with a float operand: truncated quotient when it is an i32, none otherwise')
                    continue
            if op.startswith('bitwise') and ri != 'none':
                ctx.fail('oracle', c, impl=ri, model=rm, expect='none', note='bitwise operation on a float must have no result')
                continue
        if rm is not None and ri != rm:
            disagree += 1
            # model = spec by theorem on integers; on floats the model carries the spec's decision logic
            kind = 'oracle' if (rm == 'none' or ri == 'none' or op == 'integerDivide') else 'corr'
            ctx.fail(kind, c, impl=ri, model=rm, expect=rm, note='implementation differs from the Lean model (NUM suite)')
    # the same operations as INSTRUCTIONS on both data stores (property: "result of the Add..BitwiseShiftRight instructions"):
    # operands are built in the store, one instruction is executed, the result is read back — an integer next to the float of
    # the same magnitude in one store (3 + 0.0, 1.5 * 2, 7.0 // 1) must not be confused by the store`s interning
    op_dis = 0
    n_op = 0
    if not ctx.replay:
        import opsuite
        ARITH_BIN = ['Add', 'Subtract', 'Multiply', 'Divide', 'IntegerDivide', 'Remainder', 'Power', 'BitwiseAnd', 'BitwiseOr', 'BitwiseXor', 'BitwiseShiftLeft', 'BitwiseShiftRight']
        ARITH_UN = ['Opposite', 'AbsoluteValue', 'BitwiseNot']
        def ft(x): return '(f %016x)' % struct.unpack('<Q', struct.pack('<d', x))[0]
        nums = ['(i 0)', '(i 1)', '(i 2)', '(i 3)', '(i 7)', '(i -1)', '(i -7)', '(i 31)', '(i 32)', '(i 2147483647)', '(i -2147483648)',
                ft(0.0), ft(1.0), ft(2.0), ft(3.0), ft(7.0), ft(-1.0), ft(0.5), ft(1.5), ft(-2.5), ft(2147483647.0), ft(2147483648.0), ft(1e300)]
        ocases = []
        for st in ('simple', 'basic'):
            for ins in ARITH_BIN:
                for a in nums:
                    for b in nums:
                        ocases.append(['OP', 'o%d' % len(ocases), st, ins, 'decline', a, b])
            for ins in ARITH_UN:
                for a in nums:
                    ocases.append(['OP', 'o%d' % len(ocases), st, ins, 'decline', a, '-'])
        rows = opsuite.run(ocases, 'c09op', bool(model))
        n_op = len(ocases)
        for c, ri, rm, skip in rows:
            ctx.distinct.add(('OP', c[2], c[3], c[5], c[6]))
            k = (ri or 'missing').split(' ')[0]
            if k in ('PANIC', 'HANG', 'ABORT', 'missing'):
                ctx.fail('oracle', c, impl=ri, model=rm, expect='a number or unit', note=f'{k} executing an arithmetic instruction')
            elif rm is not None and not skip and ri != rm:
                op_dis += 1
                pi, pm = opsuite.parse_result(ri), opsuite.parse_result(rm)
                ctx.fail('oracle', c, impl=ri, model=rm, expect=rm, note=f'result of the {c[3]} instruction on {c[2]} differs from the exact-or-unit model: got {pi.get("top")}, expected {pm.get("top")}')
        ctx.evaluations += n_op
    ctx.oblige('suite OP.arithmetic (instruction results on both stores = Lean model)', 'suite', op_dis == 0, f'{op_dis} disagreement(s)')
    ctx.oblige('suite NUM.int+NUM.float (implementation = Lean model on every case)', 'suite', disagree == 0 and bool(model),
               f'{disagree} disagreement(s)' if model else 'driver unavailable')
    lat = lattice()
    ctx.rule = ('NUM cases (op, a, b): the full boundary lattice of i32 (%d values: MIN, MIN+1, ±2^k, ±2^k±1, -1, 0, 1, MAX-1, MAX) squared × 12 binary ops '
                'and × 5 unary ops (exhaustive), shift counts/exponents -3..69 × lattice, random i32 pairs, a %d-value float lattice squared and mixed with %d ints, random floats by bit pattern; '
                'distinct_nontrivial = distinct (op,a,b) with not both operands in {0,1}. Every integer case is checked against an independent exact-integer oracle '
                'and against the Lean model (which the C09 theorems equate with Spec); the 15 arithmetic INSTRUCTIONS executed on both data stores over a 23-value lattice of integers and floats of equal magnitude (squared) against the value-level model; float cases against the Lean model on hardware doubles and the finite-or-none rule.' % (len(lat), len(FLOATS), len(INTS_SMALL)))
    ctx.exhaustive = False
    ctx.suites = {'NUM.int': nint, 'NUM.float': nfloat, 'OP.arithmetic (instructions on both stores)': n_op}
    ctx.distribution = {'result_kinds': results}
    for c in cases[:: max(1, len(cases) // 8)][:8]:
        ctx.sample({'case': c[2:], 'impl': impl.get(c[1]), 'model': model.get(c[1])}, cap=80)
    ctx.trusted += ['FloatOps F: IEEE-754 double arithmetic is an abstract parameter of the theorems (not formalised); the driver instantiates it with hardware doubles and an exact fmod',
                    'Rust std: overflowing_* / overflowing_pow documented semantics, f64 ops, `as` casts',
                    'correspondence harness (harness/src/num.rs) and tools/props/c09.py oracle']
    ctx.assumptions += ['`<<` is specified as the 32-bit shift (bits shifted out are dropped) for counts 0..31']
