"""C03 — the compile pipeline is total: no input panics or hangs it."""
import json, os, random, time
import vlib
from gen import parsegen, lexgen, panic_sites


def run(ctx):
    targets = ['Garnish.Lemmas.Lexer', 'Garnish.Lemmas.Parser']
    if os.path.exists(os.path.join(vlib.LEAN, 'Garnish/Lemmas/Build.lean')):
        targets.append('Garnish.Lemmas.Build')
    drv_ok, h_ok = vlib.standard_proof_obligations(ctx, targets)
    cur, new = panic_sites.compare(vlib.REPO, os.path.join(vlib.VERIF, 'tools', 'panic_sites_baseline.json'))
    new = [s for s in new if s['file'].startswith('compiler/')]
    ctx.oblige('panic-site inventory (compiler crate): nothing outside the reviewed baseline', 'translator', not new, '\n'.join(panic_sites.key(s) for s in new[:20]))
    rnd = random.Random(ctx.seed + 3)
    if ctx.replay:
        rp = json.load(open(ctx.replay))
        tokcases, textcases = [], []
        for f in [rp.get('failure')] + rp.get('more', []):
            if f and f.get('case'):
                (tokcases if f['case'][0] == 'BUILD' else textcases).append(f['case'])
    else:
        # token-class sequences (with and without separating whitespace / annotations), soups
        toks = parsegen.gen_cases(ctx.seed, ctx.tier)
        if ctx.tier == 'quick':
            toks = toks[::4]
        tokcases = [['BUILD', str(i), rnd.choice(['simple', 'basic']), '0'] + c[2:] for i, c in enumerate(toks)]
        # the same sequences as text + raw character soups through the whole pipeline
        textcases = []
        def addtext(s):
            textcases.append(['DUMP', 't%d' % len(textcases), rnd.choice(['simple', 'basic']), vlib.esc(s)])
        for c in toks[:: (8 if ctx.tier == 'quick' else 2)]:
            addtext(''.join(vlib.unesc(t.split(',', 1)[1]) for t in c[2:]))
        lc = lexgen.gen_cases(ctx.seed, ctx.tier)
        for c in lc[:: (20 if ctx.tier == 'quick' else 4)]:
            addtext(vlib.unesc(c[2]))
        alphabet = list('ab1_:."\'\\@` \t\n\r+-*/<>=|&^~?!#$(){}[];,%') + ['€', 'é', '😀', '\x00', '\x0c', '٣']
        for n in (50, 200, 800, 2000):
            for _ in range(12 if ctx.tier == 'quick' else 100):
                addtext(''.join(rnd.choice(alphabet) for _ in range(n)))
        # number spellings that denote no ordinary number (`010_nan` is radix 10 with the digits "nan" and parses as a float NaN,
        # which is equal to nothing, not even to itself), repeated: constants that can never be found again in a cache
        for lit in ('010_nan', '010_NaN', '010_inf', '010_infinity', '010_1e999', '1e999', '010_-nan', '02_nan', '036_nan'):
            for k in (1, 2, 3, 4, 6):
                for sep in (' ', ', ', ' + ', ' == '):
                    textcases.append(['DUMP', 't%d' % len(textcases), 'simple', vlib.esc(sep.join([lit] * k))])
                    textcases.append(['DUMP', 't%d' % len(textcases), 'basic', vlib.esc(sep.join([lit] * k))])
        # literal texts with escapes: every escape form, and \u{…} at the edges of every range of u32 -> char (the surrogate gap
        # D800..DFFF sits in the middle of the valid range), in char lists and byte lists, alone and inside a longer literal
        escs = ['n', 't', 'r', '0', '\\', '"', "'", 'x', 'q', 'u', 'u{', 'u{}', 'u{-1}', 'u{+41}', 'u{41', 'u41}', 'u{{41}}', 'u{1.5}', 'u{g}', 'u{ 41 }', 'u{0_1}', 'u{016_41}']
        for v in (0, 0x41, 0x7f, 0x80, 0xff, 0x100, 0xd7ff, 0xd800, 0xd801, 0xdbff, 0xdc00, 0xdfff, 0xe000, 0xfffe, 0xffff, 0x10000, 0x10ffff, 0x110000,
                  0x7fffffff, 0x80000000, 0xffffffff, 0x100000000, 0xffffffffffffffff, 0x10000000000000000):
            escs += ['u{%x}' % v, 'u{%X}' % v, 'u{%d}' % v]
        for e in escs:
            for q in ('"', "'", '"""', "''"):
                for body in ('\\' + e, 'a\\' + e + 'b', '\\' + e + '\\' + e):
                    for st in ('simple', 'basic'):
                        textcases.append(['DUMP', 't%d' % len(textcases), st, vlib.esc(q + body + q)])
        # long inputs of regular shape for the growth fit
        for n in (200, 400, 800, 1600, 3200):
            addtext(' + '.join(['1'] * n)); addtext('(' * n + '1' + ')' * n); addtext(', '.join(['a b'] * n)); addtext('1 ?> 2 |> ' * (n // 4) + '3')
            addtext(' '.join(['x'] * n)); addtext('{ ' * min(n, 400) + '1' + ' }' * min(n, 400)); addtext('"' + 'a' * n + '"'); addtext('-- ' * n + '1')
    ctx.evaluations = len(tokcases) + len(textcases)
    if not h_ok:
        return
    t0 = time.time()
    bi = vlib.run_impl(tokcases, 'c03b', per_case_s=5.0)
    ti = vlib.run_impl(textcases, 'c03t', per_case_s=10.0)
    stats = {}
    for cases, res, what in ((tokcases, bi, 'tokens'), (textcases, ti, 'text')):
        for c in cases:
            r = res.get(c[1], 'missing')
            k = r.split(' ')[0].split('\t')[0]
            stats[what + ':' + k] = stats.get(what + ':' + k, 0) + 1
            ctx.distinct.add('\t'.join(c[3:]))
            if k in ('PANIC', 'HANG', 'ABORT', 'missing'):
                src = ' '.join(t.split(',', 1)[1] for t in c[4:]) if what == 'tokens' else c[3]
                ctx.fail('oracle', c, impl=r[:200], expect='Ok or Err, promptly', note=f'{k} in lex/parse/build on {src[:160]!r}')
    # the hypothesis NodesShaped of C03_build_total: every Symbol token the real lexer emits starts with `:`, every
    # ByteList token is q quotes + body + q quotes (parse copies token texts into nodes unchanged: PARSE correspondence)
    lexcases = [['LEX', 'x' + c[1], c[3]] for c in textcases]
    li = vlib.run_impl(lexcases, 'c03l', per_case_s=10.0)
    nshape = 0
    for c in lexcases:
        r = li.get(c[1], 'missing')
        if not r.startswith('ok'):
            continue
        for f in r.split('\t')[1:]:
            parts = f.split(',', 3)
            if len(parts) < 4:
                continue
            ty, tx = parts[0], vlib.unesc(parts[3])
            bad = None
            if ty == 'Symbol':
                nshape += 1
                if not tx.startswith(':'):
                    bad = 'Symbol token does not start with a colon'
            elif ty == 'ByteList':
                nshape += 1
                q = len(tx) - len(tx.lstrip("'"))
                if 2 * q > len(tx):
                    q = len(tx) // 2 if tx.strip("'") == '' else q
                if q == 0 or not tx.endswith("'" * q) or len(tx) < 2 * q:
                    bad = 'ByteList token is not q quotes + body + q quotes'
            if bad:
                ctx.fail('oracle', c, impl=r[:300], expect='LexShaped tokens', note=f'{bad}: {tx!r} — the hypothesis NodesShaped of C03_build_total does not hold of this lexer output')
    stats['lexer tokens checked for LexShaped'] = nshape
    # growth: time each regular long input separately (single worker), flag clearly super-quadratic growth
    growth = {}
    if not ctx.replay:
        shapes = {'sum': lambda n: ' + '.join(['1'] * n), 'nest': lambda n: '(' * n + '1' + ')' * n, 'list': lambda n: ' '.join(['x'] * n), 'chain': lambda n: '1 ?> 2 |> ' * (n // 4) + '3'}
        for name, mk in shapes.items():
            ts = []
            for n in (400, 800, 1600, 3200):
                case = [['DUMP', '0', 'basic', vlib.esc(mk(n))]]
                t1 = time.time()
                r = vlib.run_impl(case, 'c03g', per_case_s=30.0)
                ts.append((n, round(time.time() - t1, 3), r.get('0', 'missing').split(' ')[0]))
            growth[name] = ts
            (n1, a, _), (n2, b, _) = ts[1], ts[3]
            if b > 1.0 and a > 0.05 and b / a > 40:       # 4x the input, more than 40x the time: worse than quadratic with slack
                ctx.fail('oracle', ['DUMP', name, 'basic', f'{name} x {n2}'], impl=str(ts), expect='polynomial (about quadratic at worst) growth', note=f'compile time of shape `{name}` grows faster than quadratically: {ts}')
    ctx.rule = ('BUILD cases on token lists: every sequence of token classes up to length 4 (sampled in the quick tier) over a rotating class alphabet incl. whitespace / annotation separators, operator pairs and triples, random expressions and random token soups over all token types; '
                'DUMP cases on text (lex + parse + build): the same sequences as text, the lexer corpus (all short strings over the class alphabet, operator pairs, random token mixes), raw character soups of 50..2000 characters incl. control characters, quotes, backslashes and multi-byte characters, long regular inputs; both stores; '
                'oracle: no PANIC, no HANG (per-case deadline), no ABORT; wall-clock growth on four regular shapes up to 3200 tokens; plus the regenerated panic-site inventory of the compiler crate; distinct = distinct inputs.')
    ctx.suites = {'BUILD(tokens)': len(tokcases), 'DUMP(text)': len(textcases), 'outcomes': stats, 'growth_seconds': growth}
    for c in textcases[:: max(1, len(textcases) // 5)][:5]:
        ctx.sample({'text': c[3][:120], 'impl': (ti.get(c[1]) or '')[:160]}, cap=80)
    ctx.trusted += ['wall-clock promptness, native stack exhaustion and allocation failure are runtime facts watched by the oracle (deadline, RLIMIT_AS), not modelled',
                    'theorems: C03_lex_total, C03_parse_total, C03_build_total (never panic, never out of fuel, under NodesShaped) on the transliterated models; the models are tied to the code by LEX (check C13), PARSE (C02/C04), BUILD (C05); NodesShaped is checked here on every token the real lexer emits']
