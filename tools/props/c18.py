"""C18 — layout that carries no meaning does not change the result (metamorphic rewrites)."""
import json, random, re
import vlib, progsuite
from gen import proggen


def _binary_tokens():
    try:
        t = json.load(open(vlib.WORK + '/tables.json'))['parse']['get_definition']
        return {k for k, v in t.items() if v[1] in ('BinaryLeftToRight', 'BinaryRightToLeft', 'OptionalBinaryLeftToRight')}
    except Exception:
        return set()


BINARY_TOKENS = set()
TRIVIA = ('Whitespace', 'Annotation', 'LineAnnotation')


def lex_tokens(result):
    """tokens of a LEX result line: [(type, text)]"""
    if not result or not result.startswith('ok'):
        return None
    toks = []
    for f in result.split('\t')[1:]:
        ty, row, col, tx = f.split(',', 3)
        toks.append((ty, vlib.unesc(tx)))
    return toks


def rewrites(rnd, toks, every_position):
    """(kind, new text) variants of a token list: only whitespace / annotation edits where whitespace already exists"""
    out = []
    ws = [i for i, (ty, tx) in enumerate(toks) if ty == 'Whitespace' and '\n' not in tx]
    sub = [i for i, (ty, tx) in enumerate(toks) if ty == 'Subexpression']
    def join(edit):
        return ''.join(edit.get(i, tx) for i, (ty, tx) in enumerate(toks))
    positions = ws if every_position else (rnd.sample(ws, min(2, len(ws))))
    for i in positions:
        out.append(('more-space', join({i: toks[i][1] + ' '})))
        out.append(('tab', join({i: toks[i][1] + '\t'})))
        out.append(('annotation', join({i: ' @note ' })))
        out.append(('comment-line', join({i: ' @@ a comment\n '})))
        # a single line break is whitespace like any other: alone, after a trailing tab / space, before an indent
        out.append(('newline', join({i: '\n'})))
        out.append(('tab-newline', join({i: '\t\n'})))
        out.append(('space-tab-newline-indent', join({i: ' \t\n\t '})))
        out.append(('tab-space-newline', join({i: '\t \n'})))
    if ws:
        out.append(('all-spaces-doubled', join({i: toks[i][1] * 2 for i in ws})))
    # combinations: the lexer decides between "whitespace" and "blank-line separator" with state carried from one run of
    # blanks to the next, so an indented line followed LATER by a line with trailing blanks is a neighbourhood of its own
    pairs = [(i, j) for i in ws for j in ws if i < j]
    if not every_position and len(pairs) > 3:
        pairs = rnd.sample(pairs, 3)
    elif len(pairs) > 15:
        pairs = rnd.sample(pairs, 15)
    for i, j in pairs:
        out.append(('indent-then-trailing-space', join({i: '\n ', j: ' \n'})))
        out.append(('indent-then-trailing-tab', join({i: '\n\t', j: '\t\n'})))
        out.append(('trailing-space-then-indent', join({i: ' \n', j: '\n '})))
    if len(ws) >= 2:
        forms = [' ', '  ', '\t', '\n', '\n ', ' \n', ' \n ', '\t\n\t', ' @n ', '\n\t ']
        for _ in range(4 if every_position else 2):
            out.append(('random-combination', join({i: rnd.choice(forms) for i in ws})))
    for i in (sub if every_position else sub[:1]):
        out.append(('trailing-space-before-blank-line', join({i: ' \t' + toks[i][1]})))
        out.append(('space-inside-blank-line', join({i: toks[i][1].replace('\n', '\n  ', 1)})))
    # whitespace where none was: just inside a bracket (after an opener, before a closer) it carries no meaning
    OPEN, CLOSE = ('StartGroup', 'StartSideEffect', 'StartExpression'), ('EndGroup', 'EndSideEffect', 'EndExpression')
    def nxt(i): return toks[i + 1][0] if i + 1 < len(toks) else None
    def prv(i): return toks[i - 1][0] if i > 0 else None
    opens = [i for i, (ty, tx) in enumerate(toks) if ty in OPEN and nxt(i) not in CLOSE and nxt(i) != 'Whitespace']
    closes = [i for i, (ty, tx) in enumerate(toks) if ty in CLOSE and prv(i) not in OPEN and prv(i) != 'Whitespace' and prv(i) != 'Subexpression']
    if opens or closes:
        edit = {i: toks[i][1] + ' ' for i in opens}
        edit.update({i: ' ' + toks[i][1] for i in closes})
        out.append(('pad-inside-all-brackets', join(edit)))
        for i in (opens if every_position else opens[:1]):
            out.append(('pad-after-opener', join({i: toks[i][1] + ' '})))
        for i in (closes if every_position else closes[:1]):
            out.append(('pad-before-closer', join({i: ' ' + toks[i][1]})))
            out.append(('tab-before-closer', join({i: '\t' + toks[i][1]})))
    # spaces added or removed around binary operators and commas (none -> some, some -> none): applicable only where the
    # edit leaves the significant tokens unchanged (`a.5` -> `a .5` turns `.` `5` into the number `.5`; `- -` -> `--`), which
    # the caller verifies by lexing the variant (kind ends in `?`)
    ops = [i for i, (ty, tx) in enumerate(toks) if ty in BINARY_TOKENS]
    for i in (ops if every_position else rnd.sample(ops, min(2, len(ops)))):
        if i > 0 and toks[i - 1][0] not in ('Whitespace', 'Subexpression'):
            out.append(('space-before-operator?', join({i: ' ' + toks[i][1]})))
        if i + 1 < len(toks) and toks[i + 1][0] not in ('Whitespace', 'Subexpression'):
            out.append(('space-after-operator?', join({i: toks[i][1] + ' '})))
        if i > 1 and toks[i - 1][0] == 'Whitespace' and '\n' not in toks[i - 1][1]:
            out.append(('no-space-before-operator?', join({i - 1: ''})))
        if i + 2 < len(toks) and toks[i + 1][0] == 'Whitespace' and '\n' not in toks[i + 1][1]:
            out.append(('no-space-after-operator?', join({i + 1: ''})))
    if ops:
        edit = {}
        for i in ops:
            if i > 1 and toks[i - 1][0] == 'Whitespace' and '\n' not in toks[i - 1][1]: edit[i - 1] = ''
            if i + 2 < len(toks) and toks[i + 1][0] == 'Whitespace' and '\n' not in toks[i + 1][1]: edit[i + 1] = ''
        if edit:
            out.append(('no-space-around-any-operator?', join(edit)))
    text = join({})
    out.append(('trailing-space', text + '  '))
    out.append(('trailing-tab-newline', text + ' \t\n'))
    out.append(('leading-space', '  ' + text))
    return out


def add_pure_blocks(rnd, root):
    """AST rewrite: hang a side-effect block with a pure body on some atoms"""
    import copy
    r = copy.deepcopy(root)
    def go(n):
        kids = n.kids
        for i, c in enumerate(kids):
            if c.kind in ('lit', 'in') and n.kind in ('bin', 'slist', 'clist', 'pair') and rnd.random() < 0.4:
                body = rnd.choice([proggen.lit_int(1), proggen.binop('+', proggen.lit_int(1), proggen.lit_int(2)), proggen.lit_text('x')])
                before = n.kind in ('bin', 'pair') and i == 1 or (n.kind == 'clist' and i >= 1)
                r = rnd.random()
                if before and r < 0.3:
                    # a block on both sides of one operand: `[b1] x [b2]`
                    body2 = rnd.choice([proggen.lit_int(2), proggen.lit_text('y'), proggen.binop('*', proggen.lit_int(2), proggen.lit_int(3))])
                    kids[i] = proggen.Node('sebefore', None, [proggen.Node('seafter', None, [c, body2], 'atom'), body], 'atom')
                else:
                    kids[i] = proggen.Node('sebefore' if (before and r < 0.65) else 'seafter', None, [c, body], 'atom')
            else:
                go(c)
        if n.kind == 'chain':
            arms, final = n.a
            for a in arms: go(a)
            if final is not None: go(final)
    go(r)
    return r


def run(ctx):
    drv_ok, h_ok = vlib.standard_proof_obligations(ctx)
    rnd = random.Random(ctx.seed + 18)
    if not h_ok:
        return
    global BINARY_TOKENS
    BINARY_TOKENS = _binary_tokens()
    progs = progsuite.gen_programs(ctx, 1200 if ctx.tier == 'quick' else 20000, 1)
    # programs with pure side-effect blocks hung on atoms (after the atom, or in front of it after an operator / comma) are
    # bases of their own, so that the layout rewrites also act inside and around blocks
    blk = []
    for k, (src, ast, root, stream) in enumerate(progs):
        if k % 3 == 0 and root is not None:
            t = proggen.pp(add_pure_blocks(rnd, root))
            if t != src:
                blk.append((t, None, None, 'blocks' if stream == 'random' else 'blocks-small'))
    progs = progs + blk
    lexcases = [['LEX', str(i), vlib.esc(src)] for i, (src, ast, root, stream) in enumerate(progs)]
    lexed = vlib.run_impl(lexcases, 'c18lex', per_case_s=5.0)
    cases = []
    groups = []      # (original case id, [(kind, variant case id)])
    pending = []     # variants whose applicability (significant tokens unchanged) is checked by lexing them first
    def add(src, store, inp):
        cid = str(len(cases))
        cases.append(['RUN', cid, store, vlib.esc(src), inp, progsuite.HOSTS[1]])
        did = str(len(cases))
        cases.append(['DUMP', did, store, vlib.esc(src)])
        return cid, did
    for i, (src, ast, root, stream) in enumerate(progs):
        toks = lex_tokens(lexed.get(str(i)))
        if toks is None:
            continue
        store = rnd.choice(progsuite.STORES)
        inp = rnd.choice(proggen.LOOP_INPUTS if stream == 'loops' else proggen.INPUTS)
        base = add(src, store, inp)
        vs = []
        if ctx.tier == 'quick' and ((stream in ('pairs', 'logic', 'loops') and i % 4 != 0) or (stream == 'equality' and i % 12 != 0)):
            continue
        for kind, text in rewrites(rnd, toks, every_position=(stream.startswith('small') or stream == 'blocks-small' or ctx.tier == 'thorough')):
            if kind.endswith('?'):
                pending.append((len(groups), kind[:-1], text, store, inp, [t for t in toks if t[0] not in TRIVIA]))
            else:
                vs.append((kind, add(text, store, inp), True))
        # wrapping complete operands in parentheses / adding pure side-effect blocks change the tree only by group / block nodes
        if root is not None:
            vs.append(('extra-parens', add(proggen.pp(root, rnd), store, inp), False))
            vs.append(('pure-side-effect-blocks', add(proggen.pp(add_pure_blocks(rnd, root)), store, inp), False))
        groups.append((base, vs, src))
    # pure side-effect blocks whose bodies CREATE constants (a number, a text, a list, a symbol): every value created afterwards
    # sits at a different address in the data object — the result may not depend on that (hash-placed association tables, interned
    # constants, symbol tables); bases are look-ups by key and by index into lists with unit / keyed / nested items
    bases2 = ['(:a = 10, (), :b = 20).b', '(:a = 10, (), :b = 20).a', '(:a = 10, (), :b = 20).c', '((), :k = 1, (), :j = 2, ()).j', '(1, :k = (), 3).k', '(:a = 1, :b = 2, :c = 3, :d = 4, :e = 5).e',
              '(:a = 10, (), :b = 20) . 1', '((:a = 1, ()) <> ((), :b = 2)).b', '((:a = 1, ()) <> ((), :b = 2)).a', '{ b } <~ (:a = 10, (), :b = 20)', '(:a = (:b = (), :c = 7), ()).a.c', ':x == :x', '"ab" == "ab"', '(1 2 ()) == (1 2 ())',
              '(:a = 10, $!, :b = 20).b', '(:a = 10, $?, (), :b = 20).a']
    bodies2 = ['77', '"zz"', '1 2', ':q', '7 8 9, 10', '()', '$ $']
    for b_ in bases2:
        for st_ in progsuite.STORES:
            base = add(b_, st_, '-')
            vs = []
            for body in bodies2:
                vs.append(('constant-creating-pure-block', add(b_ + ' [' + body + ']', st_, '-'), False))
                vs.append(('constant-creating-pure-block', add('5 [' + body + '] ; ' + b_, st_, '-'), False)) if False else None
            groups.append((base, vs, b_))
    if pending:
        pl = vlib.run_impl([['LEX', 'v%d' % k, vlib.esc(p[2])] for k, p in enumerate(pending)], 'c18lexv', per_case_s=5.0)
        napp = 0
        for k, (gi, kind, text, store, inp, sig) in enumerate(pending):
            vt = lex_tokens(pl.get('v%d' % k))
            if vt is None or [t for t in vt if t[0] not in TRIVIA] != sig:
                continue        # the edit changes the tokens: not a place where whitespace / none is allowed
            napp += 1
            groups[gi][1].append((kind, add(text, store, inp), True))
        skipped_not_applicable = len(pending) - napp
    else:
        skipped_not_applicable = 0
    ctx.evaluations = len(cases)
    impl = vlib.run_impl(cases, 'c18', per_case_s=5.0)
    kinds = {}
    def value_of(r):
        pi = progsuite.parse_impl(r)
        if pi['kind'] == 'ok':
            return ('ok', progsuite.canon(pi['value']), progsuite.canon(pi['log']))
        return (pi['kind'],)
    for (bid, bdump), vs, src in groups:
        b = value_of(impl.get(bid))
        bd = impl.get(bdump)
        for kind, (vid, vdump), same_stream in vs:
            kinds[kind] = kinds.get(kind, 0) + 1
            v = value_of(impl.get(vid))
            c = cases[int(vid)]
            ctx.distinct.add((kind, c[3]))
            if v != b:
                ctx.fail('oracle', c, impl=impl.get(vid), model=None, expect=impl.get(bid), note=f'rewrite `{kind}` changed the result; original source {src!r}')
            elif same_stream and impl.get(vdump) != bd:
                ctx.fail('oracle', cases[int(vdump)], impl=impl.get(vdump), model=None, expect=bd, note=f'rewrite `{kind}` changed the built instruction stream (the parse tree differs by more than trivia); original source {src!r}')
    ctx.rule = ('every generated core-language program (small-exhaustive + random) x rewrites: add a space / a tab to an existing whitespace token (every position for small programs), double all spaces, insert an annotation or a comment line where whitespace is, add spaces/tabs before and inside a blank line, leading / trailing whitespace, pairs of positions rewritten together (an indented line followed later by a line with trailing blanks, and the reverse) and random combinations of all whitespace forms over all positions, a space added or removed on either side of a binary operator or comma where the edit leaves the tokens unchanged (checked by lexing the variant), a space or tab just inside a bracket where none was (after `(` `[` `{`, before `)` `]` `}`), the same rewrites on programs that carry pure side-effect blocks after atoms and in front of operands, '
                'wrap complete operands in parentheses (printer option), hang pure side-effect blocks on atoms, and pure blocks whose bodies create constants (shifting the addresses of everything created later) after look-ups by key / index into lists with unit, keyed and nested items; oracle: identical result value and host-call trace, and for whitespace/annotation rewrites an identical built instruction stream; distinct = distinct (rewrite kind, rewritten source).')
    ctx.suites = {'RUN+DUMP': len(cases), 'rewrites': kinds, 'operator-spacing edits skipped because they change the tokens': skipped_not_applicable}
    ctx.distribution = progsuite.feature_distribution([p for p in progs if p[2] is not None])
    for (bid, bdump), vs, src in groups[:: max(1, len(groups) // 5)][:5]:
        ctx.sample({'source': src, 'variant': vlib.unesc(cases[int(vs[0][1][0])][3]), 'kind': vs[0][0], 'result': impl.get(bid)}, cap=80)
    ctx.trusted += ['the rewrites are applied to the real lexer`s token list (only whitespace tokens are edited), so "where whitespace is already allowed" holds by construction',
                    'syntactic half is certified per program (no universal parser theorem); semantic half: Props/C18 theorems on evalF']
