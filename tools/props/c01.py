"""C01 — compiled programs compute what the source means (both stores, every initial input value)."""
import json, random
import vlib, progsuite
from gen import proggen


def run(ctx):
    drv_ok, h_ok = vlib.standard_proof_obligations(ctx)
    cases, meta = [], {}
    progs = []
    if ctx.replay:
        rp = json.load(open(ctx.replay))
        for f in [rp.get('failure')] + rp.get('more', []):
            if f and f.get('case'):
                c = f['case']; cid = str(len(cases)); cases.append(c[:1] + [cid] + c[2:])
    else:
        nrand = 2500 if ctx.tier == 'quick' else 60000
        progs = progsuite.gen_programs(ctx, nrand, 1 if ctx.tier == 'quick' else 2)
        rnd = random.Random(ctx.seed)
        for src, ast, root, stream in progs:
            if stream.startswith('small'):
                # every small program on both stores, two inputs
                for st in progsuite.STORES:
                    for inp in (proggen.INPUTS[0], proggen.INPUTS[3]) if ctx.tier == 'quick' else proggen.INPUTS:
                        meta[progsuite.prog_case(cases, st, src, inp, progsuite.HOSTS[1], ast)] = stream
            else:
                for st in progsuite.STORES:
                    for inp in rnd.sample(proggen.INPUTS, 2 if ctx.tier == 'quick' else len(proggen.INPUTS)):
                        meta[progsuite.prog_case(cases, st, src, inp, rnd.choice(progsuite.HOSTS), ast)] = stream
    ctx.evaluations = len(cases)
    if not h_ok:
        return
    impl = vlib.run_impl(cases, 'c01', per_case_s=5.0)
    model = vlib.run_model(cases, 'c01') if drv_ok else {}
    stats = progsuite.compare_prog(ctx, cases, meta, impl, model, want_balance=False)
    for c in cases:
        ctx.distinct.add((c[3], c[4]))
    ctx.oblige('reference evaluator available for every case (driver built, AST readable)', 'suite', drv_ok and not any(k.startswith('spec-BAD') for k in stats), str(stats))
    ctx.rule = ('PROG cases: every AST of the core language with <= %d operator nodes over a reduced constructor set (exhaustive) and random ASTs of depth <= 4 over all constructs, printed with minimal parentheses according to the language table, '
                'x {SimpleGarnishData, BasicGarnishData} x initial input values {unit, 0, 5, keyed list, pair, text} x scripted hosts; each lexed, parsed, built and executed to completion by the real code and compared with the Lean reference evaluator evalF on the AST '
                '(value up to expression-table indices, host-call trace); distinct = distinct (source, input).' % (1 if ctx.tier == 'quick' else 2))
    ctx.suites = {'PROG': len(cases), 'outcomes': stats}
    if progs:
        ctx.distribution = progsuite.feature_distribution(progs)
    for c in cases[:: max(1, len(cases) // 6)][:6]:
        ctx.sample({'source': vlib.unesc(c[3]), 'store': c[2], 'input': c[4], 'host': c[5], 'impl': impl.get(c[1]), 'evalF': model.get(c[1])}, cap=80)
    ctx.trusted += ['reference evaluator Spec/Eval.lean (evalF) is the statement of what the source means; its operator semantics are the value-level definitions of Abs/Ops.lean (related to exact specs by C09/C11/C12 theorems)',
                    'generator printer tools/gen/proggen.py (language operator table copy) — a wrong printer shows up as an oracle failure, never hides one',
                    'Lean float = hardware double; symbols are SipHash-1-3 values computed identically on both sides']
