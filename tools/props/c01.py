"""C01 — compiled programs compute what the source means (both stores, every initial input value)."""
import json, random
import vlib, progsuite
from gen import proggen


def run(ctx):
    drv_ok, h_ok = vlib.standard_proof_obligations(ctx)
    cases, meta = [], {}
    progs = []
    if ctx.replay:
        rp = json.load(open(ctx.replay))
        for f in [rp.get('failure')] + rp.get('more', []):
            if f and f.get('case'):
                c = f['case']; cid = str(len(cases)); cases.append(c[:1] + [cid] + c[2:])
    else:
        nrand = 2500 if ctx.tier == 'quick' else 60000
        progs = progsuite.gen_programs(ctx, nrand, 1 if ctx.tier == 'quick' else 2)
        rnd = random.Random(ctx.seed)
        for src, ast, root, stream in progs:
            if stream.startswith('small'):
                # every small program on both stores, two inputs
                for st in progsuite.STORES:
                    for inp in (proggen.INPUTS[0], proggen.INPUTS[3]) if ctx.tier == 'quick' else proggen.INPUTS:
                        meta[progsuite.prog_case(cases, st, src, inp, progsuite.HOSTS[1], ast)] = stream
            elif stream in ('pairs', 'logic', 'loops'):
                # every ordered operator pair / terminator shape / loop nesting: all inputs, stores alternating (both in the thorough tier)
                for inp in (proggen.LOOP_INPUTS if stream == 'loops' else proggen.INPUTS):
                    for st in (progsuite.STORES if ctx.tier == 'thorough' else [rnd.choice(progsuite.STORES)]):
                        meta[progsuite.prog_case(cases, st, src, inp, progsuite.HOSTS[1], ast)] = stream
            elif stream == 'equality':
                # input-independent: both stores, one input
                for st in progsuite.STORES:
                    meta[progsuite.prog_case(cases, st, src, '-', progsuite.HOSTS[1], ast)] = stream
            else:
                for st in progsuite.STORES:
                    for inp in rnd.sample(proggen.INPUTS, 2 if ctx.tier == 'quick' else len(proggen.INPUTS)):
                        meta[progsuite.prog_case(cases, st, src, inp, rnd.choice(progsuite.HOSTS), ast)] = stream
    ctx.evaluations = len(cases)
    if not h_ok:
        return
    impl = vlib.run_impl(cases, 'c01', per_case_s=5.0)
    model = vlib.run_model(cases, 'c01') if drv_ok else {}
    stats = progsuite.compare_prog(ctx, cases, meta, impl, model, want_balance=False)
    # tie of the structured compiler Abs.compile (the object of theorem C01_compile_correct) to the real build:
    # DUMP (lex+parse+build of the printed source, both stores) must equal COMPILE (Abs.compile of the AST) line for line
    if progs and drv_ok:
        from gen import compilegen
        rnd2 = random.Random(ctx.seed * 31 + 5)
        g2 = compilegen.Gen2(rnd2)
        cprogs = [(src, ast) for src, ast, root, stream in progs]
        for _ in range(1500 if ctx.tier == 'quick' else 30000):
            root = proggen.fix_nodes(g2.body(rnd2.randint(1, 4)))
            cprogs.append((proggen.pp(root), compilegen.program_term(root)))
        for root in proggen.enumerate_small(1 if ctx.tier == 'quick' else 2, compilegen.SMALL_OPS):
            root = compilegen.fix_property(root)
            cprogs.append((proggen.pp(root), compilegen.program_term(root)))
        seen, comp, dump, comp_src = set(), [], [], []
        for src, ast in cprogs:
            if (src, ast) in seen:
                continue
            seen.add((src, ast))
            k = str(len(comp))
            comp.append(['COMPILE', 'k' + k, ast])
            comp_src.append(src)
            for st in progsuite.STORES:
                dump.append(['DUMP', f'k{k}:{st}', st, vlib.esc(src)])
        di = vlib.run_impl(dump, 'c01dump', per_case_s=5.0)
        cm = vlib.run_model(comp, 'c01comp')
        wf = vlib.run_model([['WFCHECK', c[1], c[2]] for c in comp], 'c01wf')
        ndiff = 0
        for c in comp:
            m = cm.get(c[1], 'missing')
            for st in progsuite.STORES:
                r = di.get(f'{c[1]}:{st}', 'missing')
                if r != m:
                    ndiff += 1
                    d = [x for x in dump if x[1] == f'{c[1]}:{st}'][0]
                    ctx.fail('corr', d + [c[2]], impl=r[:500], model=m[:500], expect=m[:300], note=f'the real build differs from the structured compiler Abs.compile (COMPILE suite) on {vlib.unesc(d[3])!r}')
        nwf = sum(1 for c in comp if (wf.get(c[1]) or '').startswith('wf=true'))
        stats['COMPILE=DUMP programs'] = len(comp)
        stats['COMPILE!=DUMP'] = ndiff
        stats['programs satisfying WFProgram (hypothesis of C01_compile_correct)'] = nwf
        ctx.evaluations += len(dump)
        ctx.oblige('suite COMPILE (real build = Abs.compile on every generated program, both stores)', 'suite', ndiff == 0, f'{ndiff} difference(s)')
        # the elaboration Abs.Source.elabSrc (Lemmas/SourceRep.lean: lexer model -> reference parser -> elaboration, the function the
        # source-level theorem C01_source_* speaks about) against the generator's AST: wherever it is defined it must be that AST
        # (same-p: the source has side-effect blocks, which the reference parser does not cover; the tree is the parser model's own)
        el = vlib.run_model([['ELAB', c[1], vlib.esc(src), c[2]] for c, src in zip(comp, comp_src)], 'c01elab')
        import collections
        edist, ndiffer = collections.Counter(), 0
        for c in comp:
            r = el.get(c[1]) or 'missing'
            key = ' '.join(r.split(' ')[:2]) if r.startswith('none') else r.split(' ')[0]
            if key.startswith('none') and 'seafter' not in c[2] and 'sebefore' not in c[2]:
                key += ' (no side-effect block in the program)'
            edist[key] += 1
            if key not in ('same', 'same-p') and not key.startswith('none'):
                ndiffer += 1
                ctx.fail('corr', ['ELAB', c[1], c[2]], impl=c[2][:500], model=r[:500], expect='same',
                         note='the elaboration of the reference tree of the printed source is not the generator\'s AST')
        stats['ELAB (elaboration of the parsed source = AST)'] = dict(edist)
        ctx.oblige('suite ELAB (elabSrc (refParse (lex source)) = the AST wherever defined; undefined only with side-effect blocks)', 'suite',
                   ndiffer == 0 and not any('no side-effect' in k for k in edist), str(dict(edist)))
    for c in cases:
        ctx.distinct.add((c[3], c[4]))
    ctx.oblige('reference evaluator available for every case (driver built, AST readable)', 'suite', drv_ok and not any(k.startswith('spec-BAD') for k in stats), str(stats))
    # executions with the host COMPACTING the data object between steps (BasicGarnishData::optimize at every step boundary, once at
    # each boundary, twice in a row): the programs are calls that push every kind of frame cell (with / without pending operands, at
    # top level and nested); the run must end with the value and the stack depths of the run without compaction
    if not ctx.replay:
        from gen import optgen
        base_ = [c for c in optgen.run_base_cases() if int(c[1][3:].split('.')[0]) >= 24]
        bres_ = vlib.run_impl(base_, 'c01_optbase', per_case_s=10.0)
        rc_ = [c for c in optgen.gen_run_cases(optgen.steps_of(bres_)) if int(c[1][3:].split('.')[0]) >= 24 and ('.k' in c[1] or '.every' in c[1] or '.twice' in c[1])]
        ri_ = vlib.run_impl(rc_, 'c01_optrun', per_case_s=10.0)
        nrun_ = 0
        for c in rc_:
            nrun_ += 1
            ctx.distinct.add(('compaction', c[3], c[5]))
            f_ = optgen.oracle_detail(c, ri_.get(c[1], 'MISSING'))
            if f_:
                cls_ = '; '.join(str(x[0]) if isinstance(x, (list, tuple)) else str(x) for x in f_[:3])
                ctx.fail('oracle', c, impl=ri_.get(c[1], '')[:400], model=None, expect='the result and stack depths of the run without compaction', note=f'with the data object compacted between steps ({c[5]}) the program {vlib.unesc(c[3])!r} no longer computes its value: {cls_}')
        ctx.evaluations += len(rc_)
        ctx.suites = dict(ctx.suites or {}, **{'OPT.run (compaction between steps, call shapes)': nrun_})
    ctx.rule = ('PROG cases: every AST of the core language with <= %d operator nodes over a reduced constructor set (exhaustive) every ordered pair of operators (inner operator in every operand position of the outer one, all inputs) and random ASTs of depth <= 4 over all constructs, printed with minimal parentheses according to the language table, '
                'x {SimpleGarnishData, BasicGarnishData} x initial input values {unit, 0, 5, keyed list, pair, text} x scripted hosts; each lexed, parsed, built and executed to completion by the real code and compared with the Lean reference evaluator evalF on the AST '
                '(value up to expression-table indices, host-call trace); distinct = distinct (source, input).' % (1 if ctx.tier == 'quick' else 2))
    ctx.suites = dict(ctx.suites or {}, **{'PROG': len(cases), 'outcomes': stats})
    if progs:
        ctx.distribution = progsuite.feature_distribution(progs)
    for c in cases[:: max(1, len(cases) // 6)][:6]:
        ctx.sample({'source': vlib.unesc(c[3]), 'store': c[2], 'input': c[4], 'host': c[5], 'impl': impl.get(c[1]), 'evalF': model.get(c[1])}, cap=80)
    ctx.trusted += ['C01_compile_correct (Props/C01Compile.lean) is about Abs.compile; the real build is tied to Abs.compile by the COMPILE suite on every generated program; WFProgram (its hypothesis) excludes the shapes listed in DESIGN.md, counted in suites.outcomes',
                    'reference evaluator Spec/Eval.lean (evalF) is the statement of what the source means; its operator semantics are the value-level definitions of Abs/Ops.lean (related to exact specs by C09/C11/C12 theorems)',
                    'generator printer tools/gen/proggen.py (language operator table copy) — a wrong printer shows up as an oracle failure, never hides one',
                    'Lean float = hardware double; symbols are SipHash-1-3 values computed identically on both sides']
