"""C02 — precedence, associativity and grouping follow the operator table."""
import json
import vlib, treesuite
from gen import parsegen


def run(ctx):
    drv_ok, h_ok = vlib.standard_proof_obligations(ctx, ['Garnish.Lemmas.Parser'])
    if ctx.replay:
        rp = json.load(open(ctx.replay))
        cases = []
        for f in [rp.get('failure')] + rp.get('more', []):
            if f and f.get('case'):
                cases.append(f['case'][:1] + [str(len(cases))] + f['case'][2:])
    else:
        cases = parsegen.gen_wellformed(ctx.seed, ctx.tier)
        cases = [c[:1] + [str(i)] + c[2:] for i, c in enumerate(cases)]
    ctx.evaluations = len(cases)
    if not h_ok or not drv_ok:
        return
    res = treesuite.run_pipeline(cases, 'c02', stores=())
    chk = treesuite.treechk(cases, res, 'c02')
    ref = treesuite.refparse(cases, 'c02')
    # correspondence of the parser model with the implementation on the same inputs (PARSE suite)
    plain = vlib.run_impl(cases, 'c02pi', per_case_s=5.0)
    pm = vlib.run_model(cases, 'c02pm')
    dis = 0
    stats = {}
    for c in cases:
        def bump(k): stats[k] = stats.get(k, 0) + 1
        if plain.get(c[1]) != pm.get(c[1]):
            dis += 1
            ctx.fail('corr', c, impl=(plain.get(c[1]) or '')[:300], model=(pm.get(c[1]) or '')[:300], note='parser differs from the Lean parser model (PARSE suite)')
        p = res[c[1]]['parse']
        rr = ref.get(c[1], '')
        f = chk.get(c[1])
        src = treesuite.tok_text(c)
        if not rr.startswith('ok '):
            bump('outside-reference-grammar'); continue
        ctx.distinct.add('\t'.join(c[2:]))
        if not p.startswith('ok root='):
            bump('impl-rejects')
            ctx.fail('oracle', c, impl=p[:200], model=rr[:300], expect=rr[:300], note=f'the reference grammar accepts this expression but parse rejects it: {src!r}')
            continue
        if f is None or f.get('proper') != 'true':
            bump('improper')
            ctx.fail('oracle', c, impl=p[:300], model=rr[:300], expect='a proper tree', note=f'expression of the reference grammar parsed to an improper tree: {src!r}')
            continue
        if rr[3:] == f.get('tree'):
            bump('agree')
        else:
            bump('tree-differs')
            ctx.fail('oracle', c, impl=f.get('tree', '')[:400], model=rr[:400], expect=rr[3:][:400], note=f'parse tree differs from the tree the operator table dictates: {src!r}')
    # side-effect blocks are outside the reference grammar, but the body of a block is an expression like any other: the
    # subtree the parser builds under the SideEffect node of `[E]` and of `7 [E]` must be the tree the table dictates for E
    if not ctx.replay:
        import re
        def shift(tree, k):
            return re.sub(r'\((\w+) (\d+)', lambda m: f'({m.group(1)} {int(m.group(2)) + k}', tree)
        T = lambda ty, tx: f'{ty},{vlib.esc(tx)}'
        inref = [c for c in cases if ref.get(c[1], '').startswith('ok ') and res[c[1]]['parse'].startswith('ok root=')]
        if ctx.tier == 'quick':
            inref = inref[::3]
        # only complete expressions: those the builder accepts on their own (an expression ending in an operator that still
        # waits for an operand, like `a \`f\``, parses but is not a program)
        bres = treesuite.run_pipeline(inref, 'c02b', stores=('simple',))
        inref = [c for c in inref if bres[c[1]]['build'].get('simple', '').startswith('ok ')]
        # a separator (blank line) at the very start or end of a program is dropped; inside a block it is not at the start of
        # the program, so such expressions are not wrapped
        def edge_sep(c):
            tys = [t.split(',', 1)[0] for t in c[2:] if t.split(',', 1)[0] not in ('Whitespace', 'Annotation', 'LineAnnotation')]
            return not tys or tys[0] == 'Subexpression' or tys[-1] == 'Subexpression'
        inref = [c for c in inref if not edge_sep(c)]
        wrapped = []
        for c in inref:
            wrapped.append((c, 1, ['PARSE', 'w1.' + c[1], T('StartSideEffect', '[')] + c[2:] + [T('EndSideEffect', ']')], '(SideEffect 0 - %s)'))
            wrapped.append((c, 3, ['PARSE', 'w3.' + c[1], T('Number', '7'), T('Whitespace', ' '), T('StartSideEffect', '[')] + c[2:] + [T('EndSideEffect', ']')], '(Number 0 - (SideEffect 2 - %s))'))
        wcases = [w[2] for w in wrapped]
        wres = treesuite.run_pipeline(wcases, 'c02w', stores=())
        wchk = treesuite.treechk(wcases, wres, 'c02w')
        for c, k, w, shape in wrapped:
            want = shape % shift(ref[c[1]][3:], k)
            got = (wchk.get(w[1]) or {}).get('tree')
            p = wres[w[1]]['parse']
            stats['block-body'] = stats.get('block-body', 0) + 1
            ctx.distinct.add('\t'.join(w[2:]))
            if not p.startswith('ok root='):
                ctx.fail('oracle', w, impl=p[:200], model=None, expect=want[:300], note=f'an expression the parser accepts is rejected as the body of a side-effect block: {treesuite.tok_text(w)!r}')
            elif got != want:
                ctx.fail('oracle', w, impl=(got or p)[:400], model=None, expect=want[:400], note=f'the body of a side-effect block is not parsed to the tree the operator table dictates for it: {treesuite.tok_text(w)!r}')
        ctx.evaluations += len(wcases)
        # a separator (blank line, `;`) directly after the `(` of a group is dropped like one at the start of the program: the
        # tree of `5 + (<sep> E)` is the tree of `5 + (E)` (token indexes after the separator shifted by one)
        def unshift(tree, pos):
            return re.sub(r'\((\w+) (\d+)', lambda m: f'({m.group(1)} {int(m.group(2)) - (1 if int(m.group(2)) > pos else 0)}', tree)
        pre = [T('Number', '5'), T('Whitespace', ' '), T('PlusSign', '+'), T('Whitespace', ' '), T('StartGroup', '(')]
        seps = [T('Subexpression', '\n\n'), T('ExpressionSeparator', ';')]
        gcases, gpairs = [], []
        for k, c in enumerate(inref[:: (4 if ctx.tier == 'quick' else 1)]):
            plain = ['PARSE', 'gp.' + c[1]] + pre + c[2:] + [T('EndGroup', ')')]
            gcases.append(plain)
            for j, sp in enumerate(seps):
                withsep = ['PARSE', f'gs{j}.' + c[1]] + pre + [sp] + c[2:] + [T('EndGroup', ')')]
                gcases.append(withsep)
                gpairs.append((plain, withsep, len(pre)))
        gres = treesuite.run_pipeline(gcases, 'c02g', stores=())
        gchk = treesuite.treechk(gcases, gres, 'c02g')
        for plain, withsep, pos in gpairs:
            tp = (gchk.get(plain[1]) or {}).get('tree')
            tw = (gchk.get(withsep[1]) or {}).get('tree')
            stats['group-leading-separator'] = stats.get('group-leading-separator', 0) + 1
            ctx.distinct.add('\t'.join(withsep[2:]))
            if tp in (None, '-'):
                continue
            if tw in (None, '-') or unshift(tw, pos) != tp:
                ctx.fail('oracle', withsep, impl=(tw or gres[withsep[1]]['parse'])[:400], model=None, expect=tp[:400], note=f'a separator directly after `(` changes the tree of the group: {treesuite.tok_text(withsep)!r} vs {treesuite.tok_text(plain)!r}')
        ctx.evaluations += len(gcases)
    ctx.oblige('suite PARSE.tree (implementation = Lean parser model)', 'suite', dis == 0, f'{dis} disagreement(s)')
    # source TEXT through the real lexer and the real parser: a blank line separates sub-expressions however it is spelled (spaces
    # and tabs before, inside and after it), `;` separates statements, and a single line break does neither — the parse tree of
    # `L <sep> R` has the same shape for every spelling of the same separator
    if not ctx.replay:
        exprs = [('1 < 2', '3 < 4'), ('1 + 2', '3 + 4'), ('a', 'b'), ('5 6', '7'), ('{ 1 }', '$ + 1'), ('1 ?> 2', '3 |> 4'), ('(1, 2)', ':k = 3'), ('--1', '2 ~~')]
        blank = ['\n\n', '\n\t\n', '\n \n', ' \n\n', '\t\n\n', '\n\n\n', '\n \t \n', '\n\n ', '\n\n\t', ' \n \n ', '\t\n\t\n\t', '\n\t\n\t\n', '  \n\n  ']
        single = ['\n', ' \n', '\n ', '\t\n', '\n\t', ' \n ', '\t\n\t']
        tcases = []
        for k, (l_, r_) in enumerate(exprs):
            for kind, seps in (('blank', blank), ('single', single)):
                for j, sp in enumerate(seps):
                    tcases.append(['PTEXT', f'sp{k}{kind[0]}{j}', vlib.esc(l_ + sp + r_), kind, str(k)])
        # three parts, two separators: how one line break is spelled must not change how a LATER one is read (trailing blanks and
        # tabs before the second break; a carriage return is not a blank for this lexer — `\n\r` already ends a blank line — so CR spellings are left to the LEX correspondence of C13)
        single2 = ['\n', ' \n', '\n ', '\t\n', ' \n ', '\t\n\t']
        blank2 = ['\n\n', '\n \n', ' \n\n', '\n\n ', '\t\n\t\n', ' \n \n ']
        triples = [('1', '2', '3'), ('1 + 2', '3 + 4', '5 + 6'), ('a', 'b c', 'd'), ('5 = 1', '2 + 2', '3, 3'), ('{ 1 }', '$ + 1', ':k = 3')]
        for k, (l_, m_, r_) in enumerate(triples):
            for k1, seps1 in (('single', single2), ('blank', blank2)):
                for k2, seps2 in (('single', single2), ('blank', blank2)):
                    for j1, sp1 in enumerate(seps1):
                        for j2, sp2 in enumerate(seps2):
                            tcases.append(['PTEXT', f'tr{k}{k1[0]}{k2[0]}{j1}.{j2}', vlib.esc(l_ + sp1 + m_ + sp2 + r_), k1 + '+' + k2, 't' + str(k)])
        ti = vlib.run_impl([c[:3] for c in tcases], 'c02text', per_case_s=5.0)
        ref = {}
        nsep = 0
        for c in tcases:
            r = ti.get(c[1], 'missing')
            shape = r.split(' | ')[0]
            key = (c[4], c[3])
            nsep += 1
            ctx.distinct.add(('text', c[2]))
            if r.split(' ')[0] in ('PANIC', 'HANG', 'ABORT', 'missing', 'improper'):
                ctx.fail('oracle', c[:3], impl=r[:300], expect='a proper tree or an error', note=f'{r.split(" ")[0]} on source text {vlib.unesc(c[2])!r}')
                continue
            if key not in ref:
                ref[key] = (shape, c)
            elif shape != ref[key][0]:
                ctx.fail('oracle', c[:3], impl=r[:300], expect=ref[key][0][:300], note=f'the same separator(s) ({c[3]} line break) spelled {vlib.unesc(c[2])!r} parses to a different tree than spelled {vlib.unesc(ref[key][1][2])!r}')
            if c[3] == 'blank' and c[4][0] != 't' and shape.startswith('ok') and not shape.startswith('ok (Subexpression'):
                ctx.fail('oracle', c[:3], impl=r[:300], expect='ok (Subexpression …', note=f'a blank line does not separate sub-expressions in {vlib.unesc(c[2])!r}')
        ctx.evaluations += len(tcases)
        stats['PTEXT separator spellings'] = nsep
    ctx.rule = ('token-list cases: every ordered pair (quick) and triple (thorough) of operator token types — binary, prefix, suffix, implicit space list, comma list, conditional and apply forms — around atoms with and without whitespace tokens, and random deeper expressions with groups, nested expressions and separators; '
                'the implementation`s node array is converted by the verified toTree and compared with refParse (precedence climbing over the LANGUAGE table, proved PrecOK for every accepted input); the same expressions wrapped as the body of a side-effect block (`[E]`, `7 [E]`) must give the same subtree under the SideEffect node; distinct = distinct token lists inside the reference grammar.')
    ctx.suites = {'PARSE+TREECHK+REFPARSE': len(cases), 'outcomes': stats}
    for c in cases[:: max(1, len(cases) // 6)][:6]:
        ctx.sample({'tokens': treesuite.tok_text(c), 'impl_tree': (chk.get(c[1]) or {}).get('tree', '')[:200], 'reference': ref.get(c[1], '')[:200]}, cap=80)
    ctx.trusted += ['Spec/ParseTable.lean is the committed statement of the language`s operator table; bridge theorems C02_bridge_* tie it to the regenerated table',
                    'refParse is the statement of "the tree the table dictates" (C02_refParse_precOK proves it satisfies PrecOK); side-effect blocks and `;;` are outside the reference grammar',
                    'equal priority of prefix `!!`/`??` and binary `== != #=`: the tie is broken by the later operator`s class, as observed']
