"""C02 — precedence, associativity and grouping follow the operator table."""
import json
import vlib, treesuite
from gen import parsegen


def run(ctx):
    drv_ok, h_ok = vlib.standard_proof_obligations(ctx, ['Garnish.Lemmas.Parser'])
    if ctx.replay:
        rp = json.load(open(ctx.replay))
        cases = []
        for f in [rp.get('failure')] + rp.get('more', []):
            if f and f.get('case'):
                cases.append(f['case'][:1] + [str(len(cases))] + f['case'][2:])
    else:
        cases = parsegen.gen_wellformed(ctx.seed, ctx.tier)
        cases = [c[:1] + [str(i)] + c[2:] for i, c in enumerate(cases)]
    ctx.evaluations = len(cases)
    if not h_ok or not drv_ok:
        return
    res = treesuite.run_pipeline(cases, 'c02', stores=())
    chk = treesuite.treechk(cases, res, 'c02')
    ref = treesuite.refparse(cases, 'c02')
    # correspondence of the parser model with the implementation on the same inputs (PARSE suite)
    plain = vlib.run_impl(cases, 'c02pi', per_case_s=5.0)
    pm = vlib.run_model(cases, 'c02pm')
    dis = 0
    stats = {}
    for c in cases:
        def bump(k): stats[k] = stats.get(k, 0) + 1
        if plain.get(c[1]) != pm.get(c[1]):
            dis += 1
            ctx.fail('corr', c, impl=(plain.get(c[1]) or '')[:300], model=(pm.get(c[1]) or '')[:300], note='parser differs from the Lean parser model (PARSE suite)')
        p = res[c[1]]['parse']
        rr = ref.get(c[1], '')
        f = chk.get(c[1])
        src = treesuite.tok_text(c)
        if not rr.startswith('ok '):
            bump('outside-reference-grammar'); continue
        ctx.distinct.add('\t'.join(c[2:]))
        if not p.startswith('ok root='):
            bump('impl-rejects')
            ctx.fail('oracle', c, impl=p[:200], model=rr[:300], expect=rr[:300], note=f'the reference grammar accepts this expression but parse rejects it: {src!r}')
            continue
        if f is None or f.get('proper') != 'true':
            bump('improper')
            ctx.fail('oracle', c, impl=p[:300], model=rr[:300], expect='a proper tree', note=f'expression of the reference grammar parsed to an improper tree: {src!r}')
            continue
        if rr[3:] == f.get('tree'):
            bump('agree')
        else:
            bump('tree-differs')
            ctx.fail('oracle', c, impl=f.get('tree', '')[:400], model=rr[:400], expect=rr[3:][:400], note=f'parse tree differs from the tree the operator table dictates: {src!r}')
    ctx.oblige('suite PARSE.tree (implementation = Lean parser model)', 'suite', dis == 0, f'{dis} disagreement(s)')
    ctx.rule = ('token-list cases: every ordered pair (quick) and triple (thorough) of operator token types — binary, prefix, suffix, implicit space list, comma list, conditional and apply forms — around atoms with and without whitespace tokens, and random deeper expressions with groups, nested expressions and separators; '
                'the implementation`s node array is converted by the verified toTree and compared with refParse (precedence climbing over the LANGUAGE table, proved PrecOK for every accepted input); distinct = distinct token lists inside the reference grammar.')
    ctx.suites = {'PARSE+TREECHK+REFPARSE': len(cases), 'outcomes': stats}
    for c in cases[:: max(1, len(cases) // 6)][:6]:
        ctx.sample({'tokens': treesuite.tok_text(c), 'impl_tree': (chk.get(c[1]) or {}).get('tree', '')[:200], 'reference': ref.get(c[1], '')[:200]}, cap=80)
    ctx.trusted += ['Spec/ParseTable.lean is the committed statement of the language`s operator table; bridge theorems C02_bridge_* tie it to the regenerated table',
                    'refParse is the statement of "the tree the table dictates" (C02_refParse_precOK proves it satisfies PrecOK); side-effect blocks and `;;` are outside the reference grammar',
                    'equal priority of prefix `!!`/`??` and binary `== != #=`: the tie is broken by the later operator`s class, as observed']
