"""C16 — lists keep their order and find every key."""
import json
import vlib
from gen import listgen


def run(ctx):
    drv_ok, h_ok = vlib.standard_proof_obligations(ctx)
    cases, meta = listgen.gen_cases(ctx.seed, ctx.tier) if not ctx.replay else ([], {})
    if ctx.replay:
        rp = json.load(open(ctx.replay))
        for f in [rp.get('failure')] + rp.get('more', []):
            if f and f.get('case'):
                cases.append(f['case'])
    ctx.evaluations = len(cases)
    if not h_ok:
        return
    impl = vlib.run_impl(cases, 'c16', per_case_s=5.0)
    model = vlib.run_model(cases, 'c16') if drv_ok else {}
    if ctx.replay:
        for c in cases:
            if impl.get(c[1]) != model.get(c[1]):
                ctx.fail('corr', c, impl=impl.get(c[1]), model=model.get(c[1]), note='LIST suite disagreement (replay)')
        return
    listgen._META.update(meta)
    dis, ofail, nq = listgen.check(cases, meta, impl, model)
    for c, ri, rm in dis:
        ctx.fail('corr', c, impl=ri, model=rm, expect=rm, note='list behaviour differs from the Lean store models (LIST suite)')
    classes = {}
    for f in ofail:
        c, q, e, s = f
        cl = listgen.classify(f)
        classes[cl] = classes.get(cl, 0) + 1
        tag = 'beyond-end' if (' beyond ' in f' {cl} ' and cl.startswith('basic nth')) else e
        ctx.fail('oracle', c, impl=s, model=None, expect=tag, note=f'C16 violated ({cl}): query {q} expected {e} got {s}')
    for c in cases:
        ctx.distinct.add((c[2], c[3]))
    ctx.oblige('suite SIMPLE.list + BASIC.list + runtime access (implementation = Lean models)', 'suite', not dis and drv_ok, f'{len(dis)} disagreement(s)')
    ctx.rule = ('LIST cases: all lists up to length 4 (quick) / 5 (thorough) over item kinds {number, text, symbol, pair keyed by symbol, pair keyed by non-symbol, nested list} under three key schemes (incl. all keys congruent modulo n, 0 and u64::MAX), '
                'random lists of 5-40 items with adversarial symbols, lists containing unit/true/false (addresses 0/1/2 on Simple), concatenations of such lists; each queried at data level (len, nth for -1..n+1, symbol look-up of every present and several absent keys, iteration) and at runtime level (access / apply by number and symbol) on both stores; '
                'answers checked against an oracle computed from the item list alone and against the Lean store models; distinct = distinct (store, list).')
    ctx.suites = {'LIST': len(cases), 'oracle_answers_checked': nq, 'oracle_failure_classes': classes}
    for c in cases[:: max(1, len(cases) // 6)][:6]:
        ctx.sample({'case': c[2:], 'impl': (impl.get(c[1]) or '')[:240]}, cap=80)
    ctx.trusted += ['store-view hypotheses ReadableS / ReadableB of the look-up theorems; Simple address allocation incl. interning is modelled in the driver only', 'duplicate keys are outside the property']
