"""C16 — lists keep their order and find every key."""
import json
import vlib
from gen import listgen


def run(ctx):
    drv_ok, h_ok = vlib.standard_proof_obligations(ctx)
    cases, meta = listgen.gen_cases(ctx.seed, ctx.tier) if not ctx.replay else ([], {})
    if ctx.replay:
        rp = json.load(open(ctx.replay))
        for f in [rp.get('failure')] + rp.get('more', []):
            if f and f.get('case'):
                cases.append(f['case'])
    ctx.evaluations = len(cases)
    if not h_ok:
        return
    impl = vlib.run_impl(cases, 'c16', per_case_s=5.0)
    model = vlib.run_model(cases, 'c16') if drv_ok else {}
    if ctx.replay:
        for c in cases:
            if impl.get(c[1]) != model.get(c[1]):
                ctx.fail('corr', c, impl=impl.get(c[1]), model=model.get(c[1]), note='LIST suite disagreement (replay)')
        return
    listgen._META.update(meta)
    dis, ofail, nq = listgen.check(cases, meta, impl, model)
    for c, ri, rm in dis:
        ctx.fail('corr', c, impl=ri, model=rm, expect=rm, note='list behaviour differs from the Lean store models (LIST suite)')
    classes = {}
    for f in ofail:
        c, q, e, s = f
        cl = listgen.classify(f)
        classes[cl] = classes.get(cl, 0) + 1
        tag = 'beyond-end' if (' beyond ' in f' {cl} ' and cl.startswith('basic nth')) else e
        ctx.fail('oracle', c, impl=s, model=None, expect=tag, note=f'C16 violated ({cl}): query {q} expected {e} got {s}')
    # a COPY of the value, made in a fresh data object with the public helper garnish_lang_traits::helpers::clone_data (what hosts use
    # to move values between data objects), must answer every query as the original does — nested lists included
    copies = []
    by_id = {}
    pick = [c for c in cases if c[0] == 'LIST' and c[2] in ('simple', 'basic')]
    nested = [c for c in pick if c[3].count('(l') >= 2 or '(cat' in c[3]]
    rest = [c for c in pick if c not in nested]
    for c in (nested + rest[:: max(1, len(rest) // 1500)])[:4000 if ctx.tier == 'quick' else 40000]:
        cc = ['LIST', 'cp' + c[1], c[2] + 'copy'] + c[3:]
        copies.append(cc); by_id[cc[1]] = c
        ca = ['LIST', 'ab' + c[1], c[2] + 'abandon'] + c[3:]      # built after a list that was started and never ended
        copies.append(ca); by_id[ca[1]] = c
    for t in ('(l (i 10) (l (i 20) (i 30)) (p (s 7) (i 40)))', '(l (l (l (i 1)) (i 2)) (p (s 7) (l (i 3) (p (s 8) (i 4)))))', '(cat (l (i 1) (l (i 2) (i 3))) (l (p (s 7) (i 4))))'):
        for st in ('simple', 'basic'):
            q = 'len items nth:0 nth:1 nth:2 nth:3 sym:7 sym:8 acc:0 acc:1 acc:2 accs:7'
            o = ['LIST', f'cpo{len(copies)}', st, t, q]; cc = ['LIST', f'cpc{len(copies)}', st + 'copy', t, q]
            copies += [o, cc]; by_id[cc[1]] = o
    ci = vlib.run_impl(copies, 'c16copy', per_case_s=5.0)
    ncopy = 0
    for cc in copies:
        if not (cc[2].endswith('copy') or cc[2].endswith('abandon')):
            continue
        o = by_id[cc[1]]
        ro = impl.get(o[1]) if o[1] in impl else ci.get(o[1])
        rc = ci.get(cc[1])
        ncopy += 1
        ctx.distinct.add(('copy', cc[2], cc[3]))
        if ro is None or ro.startswith('SETUP-ERR') or ro.startswith('BAD-CASE'):
            continue
        if rc != ro:
            ctx.fail('oracle', cc, impl=rc, model=None, expect=ro, note=(f'a copy of the value made with helpers::clone_data answers the queries differently from the original ({cc[2]}): {cc[3][:120]}' if cc[2].endswith('copy') else f'a list built after another list was started and never ended answers the queries differently ({cc[2]}): {cc[3][:120]}'))
    ctx.evaluations += len(copies)
    ctx.suites = dict(ctx.suites or {}, **{'LIST.copies (helpers::clone_data)': ncopy})
    # paths: a list applied to / accessed with a symbol list follows the keys and indexes one after the other, each step in
    # the value reached by the previous one (Apply); an index outside that value, a missing key, or a value that cannot be
    # looked into ends with unit — never an error. Independent oracle on the terms + the value-level model.
    import opsuite
    from gen import opgen
    def parse_term(t):
        toks = t.replace('(', ' ( ').replace(')', ' ) ').split()
        def rd(i):
            if toks[i] == '(':
                out = []; i += 1
                while toks[i] != ')':
                    x, i = rd(i); out.append(x)
                return out, i + 1
            return toks[i], i + 1
        return rd(0)[0]
    def show(x):
        return x if isinstance(x, str) else '(' + ' '.join(show(y) for y in x) + ')'
    def step(cur, part):
        # cur, part: parsed terms; returns next value or None (= nothing there)
        if not isinstance(cur, list) or not cur or cur[0] != 'l':
            raise KeyError('only steps into lists are decided by this oracle; other values are left to the model comparison')
        if part[0] == 's':
            items = cur[1:]
            hit = None
            for it in items:
                if isinstance(it, list) and it and it[0] == 'p' and it[1] == ['s', part[1]]:
                    hit = it[2]
            return hit
        if part[0] == 'i':
            n = int(part[1])
            if cur[0] == 'l':
                return cur[1 + n] if 0 <= n < len(cur) - 1 else None
            return None
        return None
    def path_value(lst, path):
        cur = parse_term(lst)
        for part in parse_term(path)[1:]:
            cur = step(cur, part)
            if cur is None:
                return 'U'
        return show(cur)
    pcases = []
    for lst in opgen.PATH_LISTS:
        for path in opgen.PATH_PATHS:
            for st in opgen.STORES:
                if st == 'simple' and '(i ' in path:
                    continue
                pcases.append(['OP', 'pa%d' % len(pcases), st, 'Apply', 'decline', lst, path])
    prow = opsuite.run(pcases, 'c16path', drv_ok)
    npath = 0
    for c, ri, rm, skip in prow:
        pi = opsuite.parse_result(ri)
        ctx.distinct.add(('path', c[2], c[5], c[6]))
        try:
            want = path_value(c[5], c[6])
        except KeyError:
            want = None
        npath += 1
        if pi['kind'] != 'ok':
            ctx.fail('oracle', c, impl=ri, model=rm, expect=f'ok {want}', note='a symbol-list path applied to a list must not fail: a step that finds nothing ends with unit')
        elif want is not None and pi['top'] != want:
            ctx.fail('oracle', c, impl=ri, model=rm, expect=f'ok {want}', note=f'path look-up {c[6]} in {c[5]} gives {pi["top"]}, each step must look into the value reached by the previous one: expected {want}')
        elif rm is not None and not skip and ri != rm:
            ctx.fail('corr', c, impl=ri, model=rm, expect=rm, note='implementation differs from the Lean model (OP.Apply, path)')
    ctx.evaluations += len(pcases)
    for c in cases:
        ctx.distinct.add((c[2], c[3]))
    ctx.oblige('suite SIMPLE.list + BASIC.list + runtime access (implementation = Lean models)', 'suite', not dis and drv_ok, f'{len(dis)} disagreement(s)')
    ctx.rule = ('LIST cases: all lists up to length 4 (quick) / 5 (thorough) over item kinds {number, text, symbol, pair keyed by symbol, pair keyed by non-symbol, nested list} under three key schemes (incl. all keys congruent modulo n, 0 and u64::MAX), '
                'random lists of 5-40 items with adversarial symbols, lists containing unit/true/false (addresses 0/1/2 on Simple), concatenations of such lists; each queried at data level (len, nth for -1..n+1, symbol look-up of every present and several absent keys, iteration) and at runtime level (access / apply by number and symbol) on both stores; '
                'symbol-list paths into nested keyed lists (keys present / missing, indexes in and out of range of the value reached, steps into values that cannot be looked into); answers checked against an oracle computed from the item list alone and against the Lean store models; distinct = distinct (store, list).')
    ctx.suites = dict(ctx.suites or {}, **{'LIST': len(cases), 'oracle_answers_checked': nq, 'oracle_failure_classes': classes, 'OP.Apply paths': npath})
    for c in cases[:: max(1, len(cases) // 6)][:6]:
        ctx.sample({'case': c[2:], 'impl': (impl.get(c[1]) or '')[:240]}, cap=80)
    ctx.trusted += ['store-view hypotheses ReadableS / ReadableB of the look-up theorems; Simple address allocation incl. interning is modelled in the driver only', 'duplicate keys are outside the property']
