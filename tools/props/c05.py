"""C05 — built instruction streams are well-formed."""
import json, re
import vlib, treesuite
from gen import parsegen

JUMP_OPS = {'JumpTo', 'JumpIfTrue', 'JumpIfFalse', 'And', 'Or', 'Reapply'}
DATA_OPS = {'Put', 'Resolve'}
TERMINATORS = {'EndExpression', 'JumpTo'}


def wf(pb, n_nodes, n_pre_instr=0, n_pre_jump=0):
    """list of violations of the C05 statement on one dump"""
    entry, instrs, jumps, meta = pb
    bad = []
    for i, (name, op) in enumerate(instrs):
        if name in JUMP_OPS:
            if op is None or not op.isdigit() or int(op) >= len(jumps):
                bad.append(f'jump operand of {name}@{i} names no jump-table entry')
        if name in DATA_OPS:
            if op is None or op.startswith('<'):
                bad.append(f'data operand of {name}@{i} names no value')
            elif name == 'Resolve' and not op.startswith('(s '):
                bad.append(f'Resolve@{i} operand is not a symbol: {op}')
            m = re.match(r'\(e (\d+)\)$', op or '')
            if m and int(m.group(1)) >= len(jumps):
                bad.append(f'expression value of Put@{i} names no jump-table entry')
        if name == 'MakeList' and (op is None or not op.isdigit()):
            bad.append(f'MakeList@{i} without a length')
    for j, t in enumerate(jumps):
        if t >= len(instrs):
            bad.append(f'jump entry {j} -> {t} points at no instruction')
        if j >= n_pre_jump and t == 0 and j != entry and n_pre_instr + 0 == 0 and len(instrs) > 0 and j > entry:
            bad.append(f'jump entry {j} is still the 0 placeholder')
    if entry >= len(jumps):
        bad.append('reported entry names no jump-table entry')
    if instrs and instrs[-1][0] not in TERMINATORS:
        bad.append(f'the stream ends in {instrs[-1][0]}, not in EndExpression / JumpTo')
    # every out-of-line block starts right after a terminator: a jump target t>0 whose predecessor is not a terminator is a
    # join point and must be reachable by falling through, which is fine; a block start is fine by construction
    if len(meta) != len(instrs):
        bad.append(f'{len(meta)} metadata records for {len(instrs)} instructions')
    for k, m in enumerate(meta):
        if m is not None and m >= n_nodes:
            bad.append(f'metadata {k} names parse node {m} of {n_nodes}')
    return bad


def run(ctx):
    drv_ok, h_ok = vlib.standard_proof_obligations(ctx, ['Garnish.Lemmas.Build'] if __import__('os').path.exists(vlib.LEAN + '/Garnish/Lemmas/Build.lean') else None)
    if ctx.replay:
        rp = json.load(open(ctx.replay))
        cases = []
        for f in [rp.get('failure')] + rp.get('more', []):
            if f and f.get('case'):
                cases.append(f['case'][:1] + [str(len(cases))] + f['case'][2:])
    else:
        cases = parsegen.gen_wellformed(ctx.seed, ctx.tier)
        extra = parsegen.gen_cases(ctx.seed, ctx.tier)
        cases = cases + (extra[::6] if ctx.tier == 'quick' else extra)
        cases = [c[:1] + [str(i)] + c[2:] for i, c in enumerate(cases)]
    ctx.evaluations = len(cases)
    if not h_ok:
        return
    res = treesuite.run_pipeline(cases, 'c05', stores=('simple', 'basic'))
    # correspondence of the builder model with the implementation (BUILD suite), on the accepted + rejected inputs alike
    rows = [['BUILD', c[1], 'simple', '0'] + c[2:] for c in cases if res[c[1]]['parse'].startswith('ok root=')]
    bm = vlib.run_model(rows, 'c05bm') if drv_ok else {}
    dis = 0
    stats = {}
    for c in cases:
        def bump(k): stats[k] = stats.get(k, 0) + 1
        r = res[c[1]]
        if not r['parse'].startswith('ok root='):
            bump('parse-rejects'); continue
        root, nodes = treesuite.nodes_of(r['parse'])
        bs = r['build'].get('simple', '')
        m = bm.get(c[1])
        if m is not None:
            canon = lambda x: 'FUELOUT' if x.split(' ')[0] in ('HANG', 'ABORT') else ('PANIC' if x.startswith('PANIC') else x)
            if canon(bs) != canon(m):
                dis += 1
                ctx.fail('corr', c, impl=bs[:300], model=m[:300], note='builder differs from the Lean builder model (BUILD suite)')
        for st, b in r['build'].items():
            if not b.startswith('ok '):
                bump('build-' + b.split(' ')[0].split('\t')[0]); continue
            bump('accepted')
            ctx.distinct.add((st, '\t'.join(c[2:])))
            pb = treesuite.parse_build(b)
            if pb is None:
                if '<none>' in b:
                    ctx.fail('oracle', c, impl=b[:500], model=None, expect='every jump-table entry below the reported length can be read back', note=f'ill-formed object ({st}): a jump-table entry below the reported length cannot be read — {treesuite.tok_text(c)!r}')
                else:
                    ctx.fail('corr', c, impl=b[:300], note='unreadable BUILD dump')
                continue
            bad = wf(pb, len(nodes))
            if bad:
                ctx.fail('oracle', c, impl=b[:500], model=None, expect='well-formed stream', note=f'ill-formed instruction stream ({st}): ' + '; '.join(bad[:4]) + f' — {treesuite.tok_text(c)!r}')
    # the same token lists built after one or two earlier programs (prelude `5 + 5`): implementation vs model, and the
    # whole object must still be well-formed (python checker + the verified Lean checker wfProg through WFCHK)
    if not ctx.replay:
        acc = [c for c in cases if res[c[1]]['parse'].startswith('ok root=')]
        if ctx.tier == 'quick':
            acc = acc[::3]
        prows = []
        for k, c in enumerate(acc):
            prows.append(['BUILD', 'p' + c[1], ('simple', 'basic')[k % 2], str(1 + (k // 2) % 2)] + c[2:])
    else:
        prows = [c for c in cases if c[0] == 'BUILD']
    if prows:
        ctx.evaluations += len(prows)
        pi = vlib.run_impl(prows, 'c05pre', per_case_s=5.0)
        pm = vlib.run_model(prows, 'c05prem') if drv_ok else {}
        wrows = []
        for c in prows:
            a, m = pi.get(c[1], 'missing'), pm.get(c[1])
            canon = lambda x: 'FUELOUT' if x.split(' ')[0] in ('HANG', 'ABORT') else ('PANIC' if x.startswith('PANIC') else x)
            if m is not None and canon(a) != canon(m):
                dis += 1
                ctx.fail('corr', c, impl=a[:300], model=m[:300], note=f'builder differs from the Lean builder model after {c[3]} earlier program(s) (BUILD suite)')
            if a.startswith('ok '):
                stats['accepted-after-earlier'] = stats.get('accepted-after-earlier', 0) + 1
                ctx.distinct.add((c[2], c[3], '\t'.join(c[4:])))
                pb = treesuite.parse_build(a)
                bad = wf(pb, 1 << 30) if pb else (['a jump-table entry below the reported length cannot be read back'] if '<none>' in a else ['unreadable dump'])
                if bad:
                    ctx.fail('oracle', c, impl=a[:500], model=None, expect='well-formed object', note=f'ill-formed object after {c[3]} earlier program(s) ({c[2]}): ' + '; '.join(bad[:4]) + f' — {treesuite.tok_text(c[:2] + c[4:])!r}')
                wrows.append(['WFCHK', c[1], vlib.esc(a), str(1 << 30)])
        # n_pre = 0 dumps through the verified checker too
        for c in cases:
            b = res[c[1]]['build'].get('simple', '') if c[1] in res else ''
            if b.startswith('ok ') and res[c[1]]['parse'].startswith('ok root='):
                wrows.append(['WFCHK', 'z' + c[1], vlib.esc(b), str(len(treesuite.nodes_of(res[c[1]]['parse'])[1]))])
        if drv_ok and wrows:
            wr = vlib.run_model(wrows, 'c05wf')
            nbad = 0
            for w in wrows:
                r = wr.get(w[1], 'missing')
                if r != 'wf=true why=-':
                    nbad += 1
                    ctx.fail('oracle', w[:2] + [w[2][:600], w[3]], impl=vlib.unesc(w[2])[:500], model=r, expect='wf=true', note=f'the verified checker wfProg rejects the implementation`s object: {r}')
            stats['WFCHK'] = len(wrows)
            stats['WFCHK-rejected'] = nbad
    ctx.oblige('suite BUILD.instr+meta (implementation = Lean builder model', 'suite', dis == 0 and drv_ok, f'{dis} disagreement(s)')
    ctx.rule = ('all token lists of the C02/C04 corpora that parse; built into both data implementations; for every accepted one the dumped instruction stream (constants rendered through the getters), jump table and metadata are checked: data operands name existing values of the expected kind, '
                'jump operands and expression values name existing jump entries, every jump entry points at an existing instruction and none is left at the placeholder, the stream ends in EndExpression / JumpTo, one metadata record per instruction naming an existing parse node; plus agreement with the builder model; distinct = distinct (store, accepted token list).')
    ctx.suites = {'PARSE+BUILD': len(cases), 'outcomes': stats}
    for c in cases[:: max(1, len(cases) // 6)][:6]:
        ctx.sample({'tokens': treesuite.tok_text(c), 'build': res[c[1]]['build'].get('simple', '')[:260]}, cap=80)
    ctx.trusted += ['well-formedness checker tools/props/c05.py wf() on the implementation`s dump (harness/src/builds.rs renders operands through public getters)',
                    'builder model Model/Build.lean tied by BUILD; its theorems are in Lemmas/Build.lean']
