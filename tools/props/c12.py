"""C12 — ordering comparisons agree with the natural order."""
import json, random, struct
import re
import vlib, opsuite
from gen import opgen
from props.c09 import lattice, fbits, FLOATS

CMP = ['LessThan', 'LessThanOrEqual', 'GreaterThan', 'GreaterThanOrEqual']


def fterm(x):
    return '(f %016x)' % struct.unpack('<Q', struct.pack('<d', x))[0]


def py_val(t):
    """python value of a number / char / byte / text / bytes term, else None"""
    if t.startswith('(i '): return ('num', int(t[3:-1]))
    if t.startswith('(f '):
        return ('num', struct.unpack('<d', struct.pack('<Q', int(t[3:-1], 16)))[0])
    if t.startswith('(c '): return ('char', int(t[3:-1]))
    if t.startswith('(b '): return ('byte', int(t[3:-1]))
    if t.startswith('(cl'): return ('text', [int(x) for x in t[3:-1].split()])
    if t.startswith('(bl'): return ('bytes', [int(x) for x in t[3:-1].split()])
    return None


def expected(instr, a, b):
    va, vb = py_val(a), py_val(b)
    if va is None or vb is None or va[0] != vb[0]:
        return 'F'
    x, y = va[1], vb[1]
    if va[0] == 'num':
        # exact comparison of int and float: python compares them exactly
        if x != x or y != y:
            return 'U'
    r = {'LessThan': x < y, 'LessThanOrEqual': x <= y, 'GreaterThan': x > y, 'GreaterThanOrEqual': x >= y}[instr]
    return 'T' if r else 'F'


def run(ctx):
    drv_ok, h_ok = vlib.standard_proof_obligations(ctx)
    rnd = random.Random(ctx.seed)
    cases = []
    def add(store, instr, a, b):
        cases.append(['OP', str(len(cases)), store, instr, 'decline', a, b])
    if ctx.replay:
        rp = json.load(open(ctx.replay))
        for f in [rp.get('failure')] + rp.get('more', []):
            if f and f.get('case'):
                cases.append(f['case'][:1] + [str(len(cases))] + f['case'][2:])
    else:
        lat = lattice()
        nums = [f'(i {x})' for x in lat[::3]] + [fterm(x) for x in FLOATS]
        # int/float neighbours
        for x in (0, 1, -1, 2**31 - 1, -2**31, 16777217, 2**24):
            for d in (-0.5, 0.0, 0.5):
                nums.append(fterm(float(x) + d))
        sub = nums if ctx.tier == 'thorough' else nums[::2] + nums[1::7]
        for instr in CMP:
            for a in sub:
                for b in sub:
                    add(rnd.choice(opgen.STORES), instr, a, b)
        # a float operand that is not a number (only reachable through the data interface): all four yield unit, on both
        # stores, whichever side it is on
        for nan in ('(f 7ff8000000000000)', '(f fff8000000000001)', '(f 7ff0000000000001)'):
            for other in ['(i 0)', '(i 1)', '(i -5)', '(i 2147483647)', fterm(0.0), fterm(1.5), fterm(-1e300), nan]:
                for instr in CMP:
                    for st in opgen.STORES:
                        add(st, instr, nan, other); add(st, instr, other, nan)
        # all pairs of strings of length <= 3 over a 3-letter alphabet (incl. proper prefixes, empty), both stores
        alpha = [97, 98, 233]
        strs = [[]]
        for n in (1, 2, 3):
            strs += [s + [c] for s in strs if len(s) == n - 1 for c in alpha]
        for instr in CMP:
            for a in strs:
                for b in strs:
                    ta = '(cl' + ''.join(f' {c}' for c in a) + ')'
                    tb = '(cl' + ''.join(f' {c}' for c in b) + ')'
                    add('simple', instr, ta, tb); add('basic', instr, ta, tb)
                    if max(a + b + [0]) < 256:
                        add(rnd.choice(opgen.STORES), instr, ta.replace('(cl', '(bl'), tb.replace('(cl', '(bl'))
        for a in (97, 98, 0x1F600):
            for b in (97, 98, 0x1F600):
                for instr in CMP:
                    for st in opgen.STORES:
                        add(st, instr, f'(c {a})', f'(c {b})')
                        if a < 256 and b < 256: add(st, instr, f'(b {a})', f'(b {b})')
        # random longer strings with multi-byte characters
        for _ in range(3000 if ctx.tier == 'quick' else 60000):
            def rs():
                n = rnd.randint(0, 8)
                return [rnd.choice([97, 98, 99, 233, 0x20AC, 0x1F600]) for _ in range(n)]
            a = rs(); b = a[:rnd.randint(0, len(a))] + rs() if rnd.random() < 0.5 else rs()
            add(rnd.choice(opgen.STORES), rnd.choice(CMP), '(cl' + ''.join(f' {c}' for c in a) + ')', '(cl' + ''.join(f' {c}' for c in b) + ')')
        # slices of every sequence kind against each other: slices of different kinds are "any other combination" (false, never
        # a failure); slices of the same kind must at least not fail
        SLICES = ['(sl (cl 97 98 99 100) (r (i 1) (i 3)))', '(sl (bl 1 2 3 4) (r (i 1) (i 3)))', '(sl (l (i 1) (i 2) (i 3)) (r (i 0) (i 2)))',
                  '(sl (cat (l (i 1)) (i 2)) (r (i 0) (i 1)))', '(sl (cl) (r (i 0) (i 0)))', '(sl (bl 7) (r (i 0) (i 5)))']
        for instr in CMP:
            for a in SLICES:
                for b in SLICES:
                    for st in opgen.STORES:
                        add(st, instr, a, b)
        # two slices of text / of bytes: the same text under different starts (SimpleGarnishData interns equal texts, so both
        # slices then sit on ONE list address), equal tails of different texts, starts at / beyond the end, ends that differ
        texts = [[], [97], [97, 98, 99, 100], [98, 99, 100], [97, 98, 99, 100, 101, 102], [97, 97, 97, 97], [233, 97, 0x20AC]]
        def slices_of(kind, t):
            body = '(' + kind + ''.join(f' {c}' for c in ([x % 256 for x in t] if kind == 'bl' else t)) + ')'
            n = len(t)
            starts = sorted({0, 1, 2, max(0, n - 1), n, n + 2})
            return [f'(sl {body} (r (i {s_}) (i {e_})))' for s_ in starts for e_ in sorted({s_, s_ + 1, n, n + 3, max(0, s_ - 1)})]
        for kind in ('cl', 'bl'):
            sl_all = [x for t in texts for x in slices_of(kind, t)]
            pairs = [(x, y) for x in sl_all for y in sl_all]
            if ctx.tier == 'quick':
                pairs = rnd.sample(pairs, 2500)
            for x, y in pairs:
                add(rnd.choice(opgen.STORES), rnd.choice(CMP), x, y)
            same = [(x, y) for t in texts[2:] for x in slices_of(kind, t) for y in slices_of(kind, t)]
            for x, y in (same if ctx.tier == 'thorough' else rnd.sample(same, 600)):
                for st in opgen.STORES:
                    add(st, rnd.choice(CMP), x, y)
        # slices that reach the end of their list, under every pair of start offsets, on texts that differ late: the deciding
        # element is the second or a later one of each selected text and sits at different positions of the two lists
        late = [[120, 97, 98, 122], [97, 98, 121], [97, 98, 122], [121, 120, 97, 98, 121, 99], [97, 98], [98, 98, 97, 98, 120]]
        for kind in ('cl', 'bl'):
            for ta_ in late:
                for tb_ in late:
                    for s1 in range(len(ta_)):
                        for s2 in range(len(tb_)):
                            if ctx.tier == 'quick' and rnd.random() < 0.5:
                                continue
                            x = f"(sl ({kind}{''.join(f' {c}' for c in ta_)}) (r (i {s1}) (i {len(ta_) - 1 + rnd.choice((0, 0, 2))})))"
                            y = f"(sl ({kind}{''.join(f' {c}' for c in tb_)}) (r (i {s2}) (i {len(tb_) - 1 + rnd.choice((0, 0, 2))})))"
                            add(rnd.choice(opgen.STORES), rnd.choice(CMP), x, y)
        # every cross-type pair (complete type matrix with all representatives)
        for instr in CMP:
            for lt in opgen.TYPES:
                for rt in opgen.TYPES:
                    for a in opgen.REPS[lt]:
                        for b in opgen.REPS[rt]:
                            for st in opgen.STORES:
                                add(st, instr, a, b)
    ctx.evaluations = len(cases)
    if not h_ok:
        return
    rows = opsuite.run(cases, 'c12', drv_ok)
    SL_RE = re.compile(r'^\(sl \((cl|bl)((?: \d+)*)\) \(r \(i (\d+)\) \(i (\d+)\)\)\)$')
    nslice_nat = [0]
    dis = 0
    kinds = {}
    for c, ri, rm, skip in rows:
        pi = opsuite.parse_result(ri)
        a, b = c[5], c[6]
        ctx.distinct.add((c[3], a, b))
        is_slice = '(sl ' in a or '(sl ' in b
        exp = expected(c[3], a, b)
        kinds[(pi.get('top') if pi['kind'] == 'ok' else pi['kind'])] = kinds.get((pi.get('top') if pi['kind'] == 'ok' else pi['kind']), 0) + 1
        if pi['kind'] != 'ok':
            ctx.fail('oracle', c, impl=ri, model=rm, expect=f'ok {exp}', note='a comparison must never fail')
            continue
        if is_slice and a.startswith('(sl ') and b.startswith('(sl ') and a.split(' ')[1].strip('()') != b.split(' ')[1].strip('()'):
            # slices over different kinds of value: false, one result, no host call
            if pi['top'] != 'F' or pi['regs'] != 1:
                ctx.fail('oracle', c, impl=ri, model=rm, expect='ok F regs=1', note='slices of different kinds of value are not ordered: all four comparisons yield false')
                continue
        if is_slice:
            # two slices of texts / byte lists that both reach the end of their list and whose selected texts differ at a
            # position inside both: the deciding element is the same whatever the offsets, so the natural order of the selected
            # texts must come out (equal tails and ends inside the list are the part the code orders differently: Props/C12)
            ma, mb = SL_RE.match(a), SL_RE.match(b)
            if ma and mb and ma.group(1) == mb.group(1):
                xa, xb = [int(x) for x in ma.group(2).split()], [int(x) for x in mb.group(2).split()]
                sa, ea, sb, eb = int(ma.group(3)), int(ma.group(4)), int(mb.group(3)), int(mb.group(4))
                if sa < len(xa) and sb < len(xb) and ea >= len(xa) - 1 and eb >= len(xb) - 1:
                    ta, tb = xa[sa:], xb[sb:]
                    d = next((i for i in range(min(len(ta), len(tb))) if ta[i] != tb[i]), None)
                    if d is not None:
                        lt = ta[d] < tb[d]
                        want = {'LessThan': lt, 'LessThanOrEqual': lt, 'GreaterThan': not lt, 'GreaterThanOrEqual': not lt}[c[3]]
                        nslice_nat[0] += 1
                        if pi['top'] != ('T' if want else 'F') or pi['regs'] != 1:
                            ctx.fail('oracle', c, impl=ri, model=rm, expect=f"ok {'T' if want else 'F'} regs=1", note=f'slices selecting {ta} and {tb} (first difference at element {d}) are not ordered by that element')
                            continue
        if not is_slice and (pi['top'] != exp or pi['regs'] != 1 or pi['log']):
            ctx.fail('oracle', c, impl=ri, model=rm, expect=f'ok {exp} regs=1 log=', note='comparison result differs from the natural order / false on foreign pairs')
            continue
        if rm is not None and not skip and ri != rm:
            dis += 1
            ctx.fail('corr', c, impl=ri, model=rm, expect=rm, note='implementation differs from the Lean model (OP comparison suite)')
    ctx.oblige('suite OP.{LessThan,LessThanOrEqual,GreaterThan,GreaterThanOrEqual} (implementation = Lean model)', 'suite', dis == 0 and drv_ok, f'{dis} disagreement(s)')
    # program level: operands that SHARE one stored value — two slices of the input text / byte list (one address on both data
    # implementations), the input against itself, a literal against an equal literal (SimpleGarnishData interns them) — through
    # the real pipeline against the reference evaluator (which compares values, never addresses)
    if not ctx.replay and drv_ok:
        import progsuite
        from gen import proggen
        rnd2 = random.Random(ctx.seed + 120)
        pcases, pmeta = [], {}
        OPS = ['<', '<=', '>', '>=']
        def sl(a, b): return proggen.binop('<~', proggen.INPUT(), proggen.binop('..', proggen.lit_int(a), proggen.lit_int(b)))
        rngs = [(0, 3), (1, 4), (0, 0), (2, 2), (1, 1), (0, 5), (3, 9), (5, 6), (4, 4)]
        inputs = ['(cl 97 98 99 100 101 102)', '(bl 97 98 99 100 101 102)', '(cl 97 97 97 97)', '(cl 233 97 8364 97)']
        for (a, b) in rngs:
            for (c_, d_) in rngs:
                for op in (OPS if ctx.tier == 'thorough' else rnd2.sample(OPS, 2)):
                    root = proggen.fix_nodes(proggen.binop(op, sl(a, b), sl(c_, d_)))
                    for inp in inputs:
                        for st in progsuite.STORES:
                            pmeta[progsuite.prog_case(pcases, st, proggen.pp(root), inp, '-', proggen.program_term(root))] = 'shared-slices'
        for op in OPS:
            for mk in (lambda: proggen.INPUT(), lambda: proggen.lit_text('abc'), lambda: proggen.lit_int(7)):
                root = proggen.fix_nodes(proggen.binop(op, mk(), mk()))
                for inp in inputs[:2] + ['(i 3)']:
                    for st in progsuite.STORES:
                        pmeta[progsuite.prog_case(pcases, st, proggen.pp(root), inp, '-', proggen.program_term(root))] = 'shared-whole'
        pimpl = vlib.run_impl(pcases, 'c12prog', per_case_s=5.0)
        pmodel = vlib.run_model(pcases, 'c12prog')
        pstats = progsuite.compare_prog(ctx, pcases, pmeta, pimpl, pmodel, want_balance=False)
        for c in pcases:
            ctx.distinct.add(('prog', c[2], c[3], c[4]))
        ctx.evaluations += len(pcases)
        ctx.suites = dict(ctx.suites or {}, **{'PROG.shared-operands': len(pcases), 'PROG outcomes': pstats})
    ctx.rule = ('OP cases (instr, A, B) for the four comparison instructions: numeric boundary lattice + float lattice + int/float neighbours (all pairs), all pairs of strings of length <= 3 over '
                '{a, b, é} as char lists (both stores) and byte lists, chars and bytes, random longer multi-byte strings incl. proper prefixes, and the complete cross-type matrix (19 types, all representatives, both stores); '
                'each checked against an independent Python oracle (exact int/float comparison, lexicographic lists) and against the Lean model; distinct = distinct (instr, A, B).')
    ctx.suites = dict(ctx.suites or {}, **{'OP.cmp': len(cases), 'slice pairs checked against the natural order of the selected texts': nslice_nat[0]})
    ctx.distribution = {'result_top': {str(k): v for k, v in kinds.items()}}
    for c, ri, rm, skip in rows[:: max(1, len(rows) // 6)][:6]:
        ctx.sample({'case': c[2:], 'impl': ri, 'model': rm}, cap=80)
    ctx.trusted += ['FloatOps F / FloatOrderLaws F: IEEE-754 order is a hypothesis of the mixed-number theorems (not formalised); sampled against hardware by this suite',
                    'value-level model of comparison.rs (Abs/Ops.lean compareVals/cmpList) tied to the code by the OP suite on both data implementations',
                    'two slices: the Slice/Slice arm of perform_comparison is modelled as the code has it (compareSlices / cmpListFrom: start offsets only, ties by the full lengths) and compared on both stores; it is not the order of the selected texts (witness in Props/C12), so slices stay outside the order laws; a slice against a non-slice is not modelled (must not fail)']
