"""C15 — stored values read back unchanged, however the store grows."""
import json
import vlib
from gen import heapgen


def run(ctx):
    drv_ok, h_ok = vlib.standard_proof_obligations(ctx)
    if ctx.replay:
        rp = json.load(open(ctx.replay))
        cases = []
        for f in [rp.get('failure')] + rp.get('more', []):
            if f and f.get('case'):
                cases.append(f['case'])
    else:
        cases = heapgen.gen_cases(ctx.seed, ctx.tier, variant='v1')
        # variant `raw`: the same interning contract through the public inherent method SimpleGarnishData::add(SimpleData) — the only way
        # to hand the store one of its preallocated constants (unit, true, false) as a VALUE; implementation-only oracle
        import random
        r = random.Random(ctx.seed * 31 + 15)
        pool = ['U', 'T', 'F', '(i 0)', '(i 1)', '(i 2)', '(c 97)', '(b 1)', '(s 1)', '(s 2)', '(cl)', '(cl 97)']
        for n in range(1500 if ctx.tier == 'quick' else 8000):
            cases.append(['CACHE', f'w{n}', 'raw'] + [r.choice(pool) for _ in range(r.randint(2, 8))])
        # variant `parse`: constants through the parse_add_* functions the compiler uses for literals, interleaved with ABANDONED
        # constructions (start_char_list / start_byte_list / start_list with items and no end — what an interrupted host or a failed
        # conversion leaves behind): they must not leak into later constants
        ppool = ['(cl 97 98)', '(cl 97)', '(cl)', '(cl 120 121 122)', '(bl 97)', '(bl 97 98)', '(bl)', '(i 5)', '(i 0)',
                 '(xcl 120 121)', '(xcl)', '(xcl 53 32 61 32)', '(xbl 1 2)', '(xbl 97)', '(xl 1 2)', '(xl)']
        for n in range(1500 if ctx.tier == 'quick' else 8000):
            cases.append(['CACHE', f'y{n}', 'parse'] + [r.choice(ppool) for _ in range(r.randint(2, 9))])
        # variant `clone`: the constants of a v1 sequence, the object sealed and cloned with each of the four public clone helpers;
        # on every clone each constant reads back at its address and an equal constant added again gets THAT address (no growth)
        v1 = [c for c in cases if c[0] == 'CACHE' and c[2] == 'v1']
        for n, c in enumerate(v1[:: max(1, len(v1) // (1200 if ctx.tier == 'quick' else 6000))]):
            cases.append(['CACHE', f'z{n}', 'clone'] + c[3:])
        for n in range(300):
            cases.append(['CACHE', f'z_{n}', 'clone'] + [r.choice(pool[3:] + ['(i 100)', '(i 200)', '(cl 97 98 99)', '(bl 1 2)', '(f 1.5 x)'][:4]) for _ in range(r.randint(1, 6))])
    ctx.evaluations = len(cases)
    if not h_ok:
        return
    impl = vlib.run_impl(cases, 'c15', per_case_s=5.0)
    model = vlib.run_model([c for c in cases if not (c[0] == 'CACHE' and c[2] in ('raw', 'parse', 'clone'))], 'c15') if drv_ok else {}
    dis = 0
    streams = {}
    for c in cases:
        ri, rm = impl.get(c[1]), model.get(c[1])
        stream = c[1][0]
        streams[stream] = streams.get(stream, 0) + 1
        ctx.distinct.add('\t'.join(c[2:]))
        rs = heapgen.strip_oracle(ri) if ri else ri
        if c[0] == 'HEAP':
            if stream == 'n':
                bad = []        # non-progressing settings: outside the property ("growth settings that can make progress"), outcomes recorded only
                if ri and (ri.startswith('HANG') or ri.startswith('ABORT')):
                    bad = ['hang']
            else:
                bad = heapgen.heap_oracle(c, ri)
                if stream == 'm':
                    bad = [b for b in bad if not b.lower().startswith('not-ok:err')]   # max_items reached is an Err by design
        else:
            bad = heapgen.cache_oracle(c, ri)
        if bad:
            ctx.fail('oracle', c, impl=ri, model=rm, expect='; '.join(bad), note='C15 violated: ' + ', '.join(bad))
            continue
        if rm is not None and rs != rm:
            dis += 1
            ctx.fail('corr', c, impl=ri, model=rm, expect=rm, note='store differs from the Lean model (HEAP / CACHE suite)')
    ctx.oblige('suite BASIC.heap + SIMPLE.store (implementation = Lean model, cell by cell)', 'suite', dis == 0 and drv_ok, f'{dis} disagreement(s)')
    ctx.rule = ('HEAP cases: all interleavings up to length 6 (quick) / 7 (thorough) of add/push operations over instructions, jump table, symbol table, expression symbols, data, custom data, registers, values, frames, text x initial sizes {0,1,2} x progressing growth policies {+1, +2, x2 from non-zero}; random and long (200-2000 ops) histories with default settings; '
                'non-progressing policies recorded only; CACHE cases: sequences of constants incl. colliding float/integer pairs added to SimpleGarnishData; oracle on the implementation alone: every value reads back unchanged after all later operations, equal constants share an address and different constants do not; plus cell-by-cell agreement with the Lean model; distinct = distinct (settings, history).')
    ctx.suites = {'HEAP+CACHE': len(cases), 'streams': streams}
    for c in cases[:: max(1, len(cases) // 6)][:6]:
        ctx.sample({'case': c[2:], 'impl': (impl.get(c[1]) or '')[:240]}, cap=80)
    ctx.trusted += ['cells are abstract payloads in the model (the property is about positions)', 'SipHash-1-3 reimplemented in Lean and compared value by value through the CACHE suite',
                    'verif hooks verif_blocks / verif_cell expose the raw heap (read-only)']
