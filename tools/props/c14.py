"""C14 — literals denote exactly what they spell."""
import json, re
import vlib
from gen import litgen


def value_of_run(r):
    m = re.match(r'ok (.*) steps=\d+ regs=', r or '')
    return m.group(1) if m else None


def run(ctx):
    drv_ok, h_ok = vlib.standard_proof_obligations(ctx)
    if ctx.replay:
        rp = json.load(open(ctx.replay))
        rows = []
        for f in [rp.get('failure')] + rp.get('more', []):
            if f and f.get('case'):
                rows.append(f['case'])
        exp = {r[1]: (f.get('expect') if f else None) for r, f in zip(rows, [rp.get('failure')] + rp.get('more', []))}
    else:
        rows = litgen.gen_cases(ctx.seed, ctx.tier)
        exp = {r[1]: litgen.expected(r) for r in rows}
    if not ctx.replay:
        # spellings that f64::from_str accepts but that spell no number: rejected (a literal denotes a finite number)
        for k, t in enumerate(['010_nan', '010_NaN', '010_inf', '010_infinity', '1e999', '010_1e999', '9' * 400 + '.0e0' if False else '1e309']):
            rows.append(['LIT', f'nf{k}', 'number', vlib.esc(t)]); exp[f'nf{k}'] = 'err'
            for st in ('simple', 'basic'):
                rows.append(['RUN', f'nf{k}{st[0]}', st, vlib.esc(t), '-', '-']); exp[f'nf{k}{st[0]}'] = 'builderr'
    ctx.evaluations = len(rows)
    if not h_ok:
        return
    impl = vlib.run_impl(rows, 'c14', per_case_s=5.0)
    lit_rows = [r for r in rows if r[0] == 'LIT']
    model = vlib.run_model(lit_rows, 'c14') if drv_ok else {}
    dis = 0
    kinds = {}
    for r in rows:
        ri = impl.get(r[1], 'missing')
        want = exp.get(r[1])
        k = r[0] + ':' + (litgen.kind_of(r) if (not ctx.replay and not r[1].startswith('nf')) else r[2])
        kinds[k] = kinds.get(k, 0) + 1
        ctx.distinct.add((r[0], r[2], r[3]))
        if r[0] == 'LIT':
            got = ri[3:] if ri.startswith('ok ') else ri
            if want is not None and got != want:
                ctx.fail('oracle', r, impl=ri[:300], model=model.get(r[1]), expect=want, note=f'literal {vlib.unesc(r[3])!r} ({r[2]}) does not denote what it spells')
                continue
            rm = model.get(r[1])
            if rm is not None and rm != ri:
                dis += 1
                ctx.fail('corr', r, impl=ri[:300], model=rm[:300], expect=rm[:300], note='literal parser differs from the Lean model (LIT suite)')
        else:
            got = value_of_run(ri)
            if want == 'builderr':
                if not (ri or '').startswith('builderr'):
                    ctx.fail('oracle', r, impl=ri[:300], model=None, expect='builderr', note=f'{vlib.unesc(r[3])!r} spells no finite number and must be rejected')
                continue
            if got is None or (want is not None and got != want):
                ctx.fail('oracle', r, impl=ri[:300], model=None, expect=want, note=f'literal program {vlib.unesc(r[3])!r} on {r[2]} does not evaluate to what it spells')
    # a symbol keeps the name it was written with: the name table of each store is read back (SimpleGarnishData::get_symbols,
    # BasicGarnishData::get_symbol_string) after parse_add_symbol
    srows = [['SYMNAME', 'n' + r[1], r[3]] for r in lit_rows if r[2] == 'symbol']
    if srows:
        sn = vlib.run_impl(srows, 'c14sym', per_case_s=5.0)
        for r in srows:
            want = vlib.unesc(r[2])[1:]
            got = sn.get(r[1], 'missing')
            exps = f'simple={vlib.esc(want)} basic={vlib.esc(want)}'
            kinds['SYMNAME'] = kinds.get('SYMNAME', 0) + 1
            if got != exps:
                ctx.fail('oracle', r, impl=got[:300], model=None, expect=exps, note=f'the symbol {vlib.unesc(r[2])!r} does not keep the name it was written with (name table read back)')
        ctx.evaluations += len(srows)
    ctx.oblige('suite LIT.number+chars+bytes+symbol (implementation = Lean literal model', 'suite', dis == 0 and drv_ok, f'{dis} disagreement(s)')
    ctx.rule = ('LIT rows (the literal parsers directly, both stores) and RUN rows (the literal as a one-literal program through lex, parse, build, execute on SimpleGarnishData and BasicGarnishData): boundary and random non-negative i32 in every radix 2..36 with random `_` placement, '
                'random finite floats in positional shortest form, all strings up to length 3 (quick) / 4 (thorough) over {a, ", \\\\, newline, tab, é, €, 😀} in 1-, 3- and 4-quote forms with the three escaping strategies, random longer ones, all byte vectors up to length 2 in numeric form, quoted byte lists incl. multi-byte characters, symbols; two or three literals of equal magnitude but different type in one program (9, 9.0; "a", \'a\'; 016_ff, 255, 255.0) so that interning in a shared data object cannot substitute one for another; '
                'each checked against the value the spelling functions (mirrors of Spec/Spell.lean) say it denotes, and the parsers against the Lean model; distinct = distinct (suite, kind/store, text).')
    ctx.suites = {'LIT+RUN': len(rows), 'kinds': kinds}
    for r in rows[:: max(1, len(rows) // 6)][:6]:
        ctx.sample({'row': r[:4], 'impl': (impl.get(r[1]) or '')[:160], 'expected': exp.get(r[1])}, cap=80)
    ctx.trusted += ['f64::from_str / shortest Display round trip is Rust std (hypothesis pf (showFloat f) = some f of C14_float_roundtrip_statement); the driver`s decimal→binary64 conversion is an exact big-integer round-half-even implementation compared bit for bit',
                    'spelling functions Spec/Spell.lean (mirrored in tools/gen/litgen.py) define "a spelling that evaluates back"; lexer-level preconditions of raw quotes are covered by RUN rows',
                    'SipHash-1-3 for symbol values reimplemented in Lean and Python, compared through the SYM/LIT suites']
