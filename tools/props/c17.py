"""C17 — host extension points are called exactly as documented."""
import json, random
import vlib, progsuite
from gen import proggen
from gen.siphash import symbol_value


def run(ctx):
    drv_ok, h_ok = vlib.standard_proof_obligations(ctx)
    cases, meta = [], {}
    if ctx.replay:
        rp = json.load(open(ctx.replay))
        for f in [rp.get('failure')] + rp.get('more', []):
            if f and f.get('case'):
                c = f['case']; cases.append(c[:1] + [str(len(cases))] + c[2:])
    else:
        rnd = random.Random(ctx.seed + 17)
        progs = progsuite.gen_programs(ctx, 2000 if ctx.tier == 'quick' else 40000, 1)
        # inputs that carry identifiers' values and externals: found-in-input vs host vs unit
        ins = proggen.INPUTS + ['(x 3)', f'(l (p (s {symbol_value("a")}) (x 3)) (p (s {symbol_value("x")}) (i 1)))']
        for src, ast, root, stream in progs:
            f = proggen.features(root)
            if stream in ('random', 'pairs', 'logic', 'loops', 'equality') and not any(k in f for k in ('id', 'bin:Apply', 'applyto', 'suf')):
                continue      # no identifier, application or external involved: nothing for this property to observe
            for st in progsuite.STORES:
                for host in progsuite.HOSTS:
                    meta[progsuite.prog_case(cases, st, src, rnd.choice(proggen.LOOP_INPUTS if stream == 'loops' else ins), host, ast)] = stream
        # identifiers / externals at every operand position of small templates
        templates = ['%s', '%s + 1', '1 + %s', '%s %s', '(%s, 2)', '%s = 1', '1 = %s', '() ?> %s', '1 ?> %s', '%s ?> 2', '() ?> 1 |> %s', '1 ?> %s |> 3',
                     '() && %s', '1 && %s', '1 || %s', '() || %s', '{ %s } ~~', '{ $ } <~ %s', '%s <~ 5', '5 ~> %s', '%s ~~', '1 [%s]', '%s ; %s', '{ %s } <~ 1 ; %s',
                     '{ !! ($ < 2) ?> %s |> ^~ $ + 1 } <~ 0', '%s . b', '(%s) . 0']
        for t in templates:
            # `name:` — a colon is an identifier character; the symbol of an identifier is that of its name without the colons at its ends
            for name in ('a', 'x', 'name', '$', 'name:', 'a:'):
                src = t.replace('%s', name)
                for st in progsuite.STORES + ['simpleclone', 'simpleclone2', 'simpleclone3', 'simpleclone4', 'simpleabandon', 'basicabandon']:      # executed on a clone of the built SimpleGarnishData made with each of the four public clone helpers
                    for host in progsuite.HOSTS:
                        for inp in ('-', ins[3], '(x 3)', ins[-1], proggen.INPUTS[-1]):
                            cid = str(len(cases))
                            cases.append(['RUN', cid, st, vlib.esc(src), inp, host])
                            meta[cid] = 'template'
    ctx.evaluations = len(cases)
    if not h_ok:
        return
    impl = vlib.run_impl(cases, 'c17', per_case_s=5.0)
    prog_cases = [c for c in cases if c[0] == 'PROG']
    model = vlib.run_model(prog_cases, 'c17') if drv_ok else {}
    stats = progsuite.compare_prog(ctx, prog_cases, meta, impl, model, want_balance=False)
    # template programs: both data implementations must give the same value and the same recorded calls
    by_key = {}
    for c in cases:
        if c[0] == 'RUN':
            by_key.setdefault((c[3], c[4], c[5]), {})[c[2]] = c
    for key, d in by_key.items():
        if 'simple' in d and 'basic' in d:
            ps, pb = progsuite.parse_impl(impl.get(d['simple'][1])), progsuite.parse_impl(impl.get(d['basic'][1]))
            for ab_, pl_ in (('simpleabandon', ps), ('basicabandon', pb)):
                pa_ = progsuite.parse_impl(impl.get(d[ab_][1])) if ab_ in d else None
                if pa_ is not None and pl_['kind'] == 'ok' and (pa_['kind'] != 'ok' or progsuite.canon(pa_['value']) != progsuite.canon(pl_['value']) or progsuite.canon(pa_['log']) != progsuite.canon(pl_['log'])):
                    ctx.fail('oracle', d[ab_], impl=impl.get(d[ab_][1]), model=None, expect=impl.get(d[ab_[:-7]][1]), note=f'after a list was started and never ended on the data object, the input value built next answers identifier look-ups differently (value or host calls) on {vlib.unesc(key[0])!r}')
            for cl in ('simpleclone', 'simpleclone2', 'simpleclone3', 'simpleclone4'):
                pc_ = progsuite.parse_impl(impl.get(d[cl][1])) if cl in d else None
                if pc_ is not None and ps['kind'] == 'ok' and (pc_['kind'] != 'ok' or progsuite.canon(pc_['value']) != progsuite.canon(ps['value']) or progsuite.canon(pc_['log']) != progsuite.canon(ps['log'])):
                    ctx.fail('oracle', d[cl], impl=impl.get(d[cl][1]), model=None, expect=impl.get(d['simple'][1]), note=f'a clone of the built data object ({cl}) does not behave like the original (value or host calls) on {vlib.unesc(key[0])!r}')
            if ps['kind'] == 'ok' and pb['kind'] == 'ok':
                # External application is a BasicGarnishData feature (apply callback): skip programs whose traces contain it
                if 'apply(' in (ps.get('log') or '') + (pb.get('log') or '') or '(x ' in key[1]:
                    continue
                if progsuite.canon(ps['value']) != progsuite.canon(pb['value']) or progsuite.canon(ps['log']) != progsuite.canon(pb['log']):
                    ctx.fail('oracle', d['basic'], impl=impl.get(d['basic'][1]), model=None, expect=impl.get(d['simple'][1]), note=f'the two data implementations disagree on the value or on the host calls of {vlib.unesc(key[0])!r}')
    # template programs: protocol checked directly on the recorded calls
    import re
    nt = 0
    for c in cases:
        if c[0] != 'RUN':
            continue
        nt += 1
        pi = progsuite.parse_impl(impl.get(c[1]))
        ctx.distinct.add((c[3], c[4], c[5], c[2]))
        if pi['kind'] in ('PANIC', 'HANG', 'ABORT', 'missing'):
            ctx.fail('oracle', c, impl=impl.get(c[1]), expect='a result', note='panic/hang in a host-protocol template')
            continue
        log = pi.get('log', '')
        calls = [x for x in log.split(';') if x]
        if c[5] == '-' and calls:
            ctx.fail('oracle', c, impl=impl.get(c[1]), expect='no calls recorded without callbacks', note='calls recorded with no host installed')
        # an identifier present in the input value must not reach the host
        inp = c[4]
        for name in ('a', 'x', 'name'):
            sv = symbol_value(name)
            present = f'(p (s {sv})' in inp
            n = sum(1 for x in calls if x == f'resolve({sv})')
            src = vlib.unesc(c[3])
            if present and n > 0 and ';' not in src and '<~' not in src and '~>' not in src and '~~' not in src:
                ctx.fail('oracle', c, impl=impl.get(c[1]), expect=f'no resolve({sv}): the input value has the key', note=f'host consulted although the identifier is in the input value: {src!r}')
        # apply callback: only on Basic, exactly once per application, with the external's number
        for x in calls:
            if x.startswith('apply(') and c[2] == 'simple':
                ctx.fail('oracle', c, impl=impl.get(c[1]), expect='SimpleGarnishData has no apply hook', note='apply call recorded on Simple')
    ctx.oblige('reference evaluator available (trace oracle)', 'suite', drv_ok, '')
    ctx.rule = ('PROG cases with identifiers / applications (evalF trace = recorded resolve/apply/defer calls, in order, with arguments) x both stores x hosts {absent, declining, accepting} x inputs that do / do not contain the identifiers and externals; '
                'RUN templates placing an identifier or `$` (possibly an external) at every operand position: operands of operators, list items, pair sides, tests and arms of conditionals and else-chains, both sides of && and ||, nested bodies, apply positions, side-effect blocks, after `;`, inside a reapply loop; distinct = distinct (source, input, host, store).')
    ctx.suites = {'PROG': len(prog_cases), 'RUN.templates': nt, 'outcomes': stats}
    for c in cases[:: max(1, len(cases) // 6)][:6]:
        ctx.sample({'source': vlib.unesc(c[3]), 'store': c[2], 'input': c[4], 'host': c[5], 'impl': impl.get(c[1]), 'evalF': model.get(c[1])}, cap=80)
    ctx.trusted += ['scripted recording host in harness/src/store.rs (Simple: resolver/op handler; Basic: companion)', 'evalF trace as the statement of which calls must happen']
