"""C07 — executing a built program never panics the host."""
import json, os, random
import vlib, progsuite, opsuite
from gen import proggen, opgen, panic_sites, accessgen, optgen

BOUNDARY_LITS = ['2147483647', '2147483648', '0', '1', '1e308', '1.7976931348623157e308', '0.0000001', '""', '"é"', '"😀a"', "''", "'a'", '31', '32', '33', '1000000',
                 '(0 - 1)', '(0 - 2147483647 - 1)', '1.5', '(0 - 0.5)', '()', '$?', ':a', ':café', ':日本_x']
OPS2 = ['+', '-', '*', '/', '//', '%', '**', '<<', '>>', '&', '|', '^', '.', '<~', '~>', '..', '>..', '..<', '>..<', '<>', '~#', '==', '<', '~']


def run(ctx):
    drv_ok, h_ok = vlib.standard_proof_obligations(ctx)
    cur, new = panic_sites.compare(vlib.REPO, os.path.join(vlib.VERIF, 'tools', 'panic_sites_baseline.json'))
    ctx.oblige('panic-site inventory: no panic-capable construct outside the reviewed baseline', 'translator', not new,
               '\n'.join(panic_sites.key(s) for s in new[:20]))
    cases = []
    acc_cases = []
    reach_cases = []
    if ctx.replay:
        rp = json.load(open(ctx.replay))
        for f in [rp.get('failure')] + rp.get('more', []):
            if f and f.get('case'):
                c = f['case']
                if c[0] == 'ACCESS':
                    acc_cases.append(c)
                elif c[0] in ('OPT', 'CLONE'):
                    reach_cases.append(c)
                else:
                    cases.append(c[:1] + [str(len(cases))] + c[2:])
    else:
        rnd = random.Random(ctx.seed + 7)
        def add(src, st, inp='-', host='-'):
            cases.append(['RUN', str(len(cases)), st, vlib.esc(src), inp, host])
        # boundary literals under every binary operator, both orders, plus indexing / casting shapes
        for a in BOUNDARY_LITS:
            for b in BOUNDARY_LITS:
                for op in (OPS2 if ctx.tier == 'thorough' else rnd.sample(OPS2, 8)):
                    add(f'{a} {op} {b}', rnd.choice(progsuite.STORES), host=rnd.choice(progsuite.HOSTS))
        shapes = ['(1 2 3) . %s', '"héllo" . %s', "'abc' . %s", '(1 .. 5) . %s', '(1 2 3) <~ %s', '"héllo" <~ (%s .. 3)', '(1 2 3) <~ (0 .. %s)', '(1 .. %s) ~# (1,)',
                  '"héllo" ~# (1,)', '%s ~# "a"', '(%s = 1) ~# ""', '(1, %s) ~# ""', '(%s 2) ~# :a', '%s ~# 1', '%s ~# :a', "%s ~# 'a'", '(1 <> 2 <> (3 4)) . %s', '((1 2 3) <~ (0 .. 1)) . %s', '1 << %s', '1 >> %s', '2 ** %s', '%s // 0.0000001',
                  '_. (%s .. 2)', '(%s .. 2) .|', '(1 = %s) . 0', '{ $ . %s } <~ (1 2)', '(:a :b) . %s']
        for sh in shapes:
            for a in BOUNDARY_LITS:
                if sh.startswith('(1 .. %s) ~#') and a == '1000000':
                    continue      # a million-item list is slow to build, not a failure
                for st in progsuite.STORES:
                    add(sh.replace('%s', a), st, host=rnd.choice(progsuite.HOSTS))
        # ranges with both ends on a boundary lattice (ascending, descending, empty, beyond the end) used as values,
        # as casts and as slices of every sequence kind, the slice then consumed by every kind of operation;
        # a leading constant shifts where the range's numbers are stored
        ends = ['0', '1', '2', '3', '5', '-1', '7', '2147483647', '-2147483648', '1.5'] if ctx.tier == 'thorough' else ['0', '1', '3', '5', '-1', '2147483647', '1.5']
        conts = ['(1 2 3 4)', '"héllo"', "'abcd'", '(:a :b :c)', '((1 2) <> (3 4))', '(:k = 1, :j = 2, 3)']
        uses = ['%s', '(%s) == (%s)', '(%s) != "l"', '(%s) ~# (,)', '(%s) ~# ""', "(%s) ~# ''", '(%s) . 0', '(%s) .|', '_. (%s)', '(%s) <> (%s)', '((%s) <> 9) . 1', '(%s) . :k', '(%s) <~ (0 .. 1)', '#(%s)', '(%s) < (%s)', '7 8, (%s)']
        walked = ['((%s) <> 9) == (4 <> 5)', '(8 <> (%s)) != (8 <> (%s))', '((%s) <> 9) ~# (,)', '(8 <> (%s)) ~# ""', '((%s) <> 9) . :k', '((%s) <> 9) . 2', '((%s) <> 9) <~ (0 .. 1)', '(8 <> (%s) <> 9) .|']
        for a in ends:
            for b in ends:
                if (a, b) in (('-2147483648', '2147483647'), ('0', '2147483647'), ('1', '2147483647'), ('-1', '2147483647'), ('1.5', '2147483647'), ('3', '2147483647'), ('5', '2147483647'), ('2', '2147483647'), ('7', '2147483647')):
                    rng_cast = False          # billions of items: recorded separately (F-C07-range-cast-unbounded)
                else:
                    rng_cast = True
                for rop in ('..', '>..', '..<', '>..<'):
                    if rop != '..' and ctx.tier == 'quick' and rnd.random() < 0.6:
                        continue
                    r = f'({a} {rop} {b})'
                    for st in progsuite.STORES:
                        if rng_cast:
                            add(f'{r} ~# (,)', st); add(f'3, ({r} ~# (,))', st); add(f'{b}, {a}, ({r} ~# (,))', st)
                        add(f'{r} == {r}', st); add(f'{r} . 0', st); add(f'{r} .|', st)
                    for cont in conts:
                        sl = f'{cont} <~ {r}'
                        for u in (uses if ctx.tier == 'thorough' else rnd.sample(uses, 5)):
                            add(u.replace('%s', sl), rnd.choice(progsuite.STORES), host=rnd.choice(progsuite.HOSTS))
                        # the slice as an ITEM of a concatenation that is then walked (equality, casts, access, length): the
                        # data implementations flatten such a concatenation with their own extent arithmetic (both stores, always)
                        for u in walked:
                            for st in progsuite.STORES:
                                add(u.replace('%s', sl), st)
        # generated programs (deeply nested data included), both stores, three host modes
        progs = progsuite.gen_programs(ctx, 1500 if ctx.tier == 'quick' else 40000, 1)
        for src, ast, root, stream in progs:
            add(src, rnd.choice(progsuite.STORES), rnd.choice(proggen.LOOP_INPUTS if stream == 'loops' else proggen.INPUTS), rnd.choice(progsuite.HOSTS))
        # deep nesting
        for d in (10, 100, 400):
            add('(' * d + '1' + ')' * d, 'simple'); add('(' * d + '1' + ')' * d, 'basic')
            add(' , '.join(['(1 2)'] * d), 'basic'); add('1' + ' + 1' * d, 'simple')
            add('{ ' * min(d, 60) + '1' + ' }' * min(d, 60), 'basic')
    # deeply nested DATA consumed by one instruction (the nesting above is of syntax): a pair chain tens of thousands of levels deep
    # cast to text / to a symbol, compared with itself, asked for its type — recorded finding on BasicGarnishData (native stack)
    deep_cases = []
    if not ctx.replay:
        for n in (2000, 40000):
            chain = '(' + ' = '.join(['1'] * n) + ')'
            for use in ('%s ~# ""', '%s ~# :a', '%s == %s', '# %s'):
                for st in progsuite.STORES:
                    if n == 40000 and use == '%s == %s':
                        continue          # minutes of honest work, no recursion
                    deep_cases.append(['RUN', 'deep%d' % len(deep_cases), st, vlib.esc(use.replace('%s', chain)), '-', '-'])
    else:
        deep_cases = [c for c in cases if c[0] == 'RUN' and len(c[3]) > 50000]
        cases = [c for c in cases if c not in deep_cases]
    ops_cases = [] if ctx.replay else opgen.gen_cases()
    if ctx.tier == 'quick' and ops_cases:
        ops_cases = ops_cases[::3]
    if not ctx.replay:
        acc_cases = accessgen.gen_cases(ctx.seed, ctx.tier)
        # op sequences of the OPT / CLONE scripts that use the store as a host may (Props/C07Reach: `run ops Store.fresh`)
        reach_cases = [c for c in optgen.gen_cases(ctx.seed + 3, ctx.tier)
                       if c[2] != 'run' and optgen.stream_of(c[1]) in optgen.WELLFORMED]
        if ctx.tier == 'quick':
            reach_cases = reach_cases[::2]
    ctx.evaluations = len(cases) + len(deep_cases) + len(ops_cases) + len(acc_cases) + len(reach_cases)
    if not h_ok:
        return
    impl = vlib.run_impl(cases, 'c07', per_case_s=5.0)
    if deep_cases:
        impl.update(vlib.run_impl(deep_cases, 'c07deep', per_case_s=60.0, extra_env={'GHARNESS_STEP_LIMIT': '4000000'}))
        cases = cases + deep_cases
    stats = {}
    for c in cases:
        r = impl.get(c[1], 'missing')
        k = r.split(' ')[0].split('@')[0]
        stats[k] = stats.get(k, 0) + 1
        ctx.distinct.add((c[3], c[2]))
        if k in ('PANIC', 'ABORT', 'missing') or (k == 'HANG'):
            ctx.fail('oracle', c, impl=r, expect='Ok or Err from every step', note=f'{k} while compiling/stepping {vlib.unesc(c[3])!r}')
    if ops_cases:
        oi = vlib.run_impl(ops_cases, 'c07op', per_case_s=5.0)
        for c in ops_cases:
            r = oi.get(c[1], 'missing')
            k = r.split(' ')[0]
            if k in ('PANIC', 'ABORT', 'missing', 'HANG'):
                ctx.fail('oracle', c, impl=r, expect='Ok or Err', note=f'{k} executing one instruction')
            stats['op:' + k] = stats.get('op:' + k, 0) + 1
    # correspondence: the index / extent arithmetic of the accessors, iterator constructors and of the runtime's access path,
    # real code against the statement-level models of Model/Access*.lean (the theorems of Props/C07Access are about those)
    if acc_cases:
        ai = vlib.run_impl(acc_cases, 'c07acc', per_case_s=5.0)
        am = vlib.run_model(acc_cases, 'c07acc') if drv_ok else {}
        for c in acc_cases:
            ri, rm = ai.get(c[1], 'missing'), am.get(c[1], 'missing')
            k = ri.split(' ')[0]
            ctx.distinct.add((c[3], c[2], c[4]))
            if k in ('PANIC', 'ABORT', 'missing', 'HANG'):
                ctx.fail('oracle', c, impl=ri, model=rm, expect='ok / none / err from every accessor', note=f'{k} in an accessor, iterator constructor or access step (ACCESS suite)')
            elif drv_ok and ri != rm:
                ctx.fail('corr', c, impl=ri, model=rm, expect=rm, note='index / extent arithmetic differs from Model/Access*.lean (ACCESS suite)')
            stats['acc:' + ('agree' if ri == rm else k)] = stats.get('acc:' + ('agree' if ri == rm else k), 0) + 1
        for c in acc_cases[:: max(1, len(acc_cases) // 4)][:4]:
            ctx.sample({'suite': 'ACCESS', 'store': c[2], 'term': c[3][:120], 'queries': c[4][:160], 'impl': ai.get(c[1], '')[:300], 'model': am.get(c[1], '')[:300]}, cap=90)
    # reachability tie: `Heap.WF` — the hypothesis of every theorem of Props/C07Access, a theorem for every reachable store in
    # Props/C07Reach — decided by the driver (` awf=`) on the heap view of the model store after every opt / clone record and at
    # the end of every generated op sequence; the model store is the real heap (raw cells, block table, heads compared)
    if reach_cases and drv_ok:
        ri = vlib.run_impl(reach_cases, 'c07reach', per_case_s=10.0)
        rm = vlib.run_model(reach_cases, 'c07reach')
        judged, flags, good, bad = optgen.access_wf_stats(reach_cases, ri, rm)
        by_id = {c[1]: c for c in reach_cases}
        for c in reach_cases:
            ctx.distinct.add(('reach', c[2]))
        for cid, script, why in bad:
            ctx.fail('corr', by_id[cid], impl=ri.get(cid, '')[:400], model=rm.get(cid, '')[:400], expect='awf=1 on a store equal to the real heap',
                     note=f'Heap.WF (hypothesis of the C07Access theorems, C07_reachable_no_panic) not observed on a reachable heap: {why} (REACH suite)')
        ctx.oblige('suite BASIC.reach (Heap.WF decided on the heap of every generated op sequence; model store = real heap)', 'suite', not bad and judged > 0,
                   f'{len(bad)} of {judged} scripts; {good}/{flags} flags true')
        stats['reach:scripts'] = judged
        stats['reach:awf=1'] = good
        stats['reach:awf=0'] = flags - good
        # the invariant of Props/C07ReachV (stores with in-place updates of the input value) and the side condition of its optimize step,
        # decided on the same stores: recorded (a 0 is outside the hypotheses of C07_reachable_no_panic_mut, not a failure)
        ex = getattr(optgen.access_wf_stats, 'extra', {})
        stats['reach:setval-scripts'] = ex.get('setval', 0)
        stats['reach:wfq=0'] = ex.get('wfq0', 0)
        stats['reach:noStale=0'] = ex.get('ns0', 0)
    ctx.rule = ('RUN cases: boundary literals (i32 limits, huge floats, empty and multi-byte text, shift counts 31/32/33, negative and fractional numbers) under binary operators in both orders and in indexing / slicing / casting / range shapes, '
                'generated core-language programs, deeply nested groups/lists/expressions, pair chains 2 000 and 40 000 levels deep consumed by casts / equality / type-of; OP matrix (every instruction x every type pair); all on both stores with callbacks absent / declining / accepting; oracle: no PANIC, no ABORT, no HANG — every step returns Ok or Err; '
                'plus the regenerated panic-site inventory against its reviewed baseline; '
                'ACCESS cases: every item getter and iterator constructor of both data objects, and access / apply with integer and symbol keys, on sequences of length 0..5 and long ones '
                '(multi-byte text, byte extremes, symbol lists with numbers, nested lists, concatenations with lists / slices / slices of concatenations inside, slices of slices) with indexes and extents from '
                '{MIN, MIN+1, -2, -1, 0, 1, len-1, len, len+1, MAX-1, MAX} and float indexes (fractional, huge, infinite, NaN); model answer must equal the implementation answer; '
                'distinct = distinct (source, store) resp. (term, store, queries).')
    ctx.suites = {'RUN': len(cases), 'OP': len(ops_cases), 'ACCESS': len(acc_cases), 'REACH': len(reach_cases), 'outcomes': stats, 'panic_sites': len(cur)}
    for c in cases[:: max(1, len(cases) // 6)][:6]:
        ctx.sample({'source': vlib.unesc(c[3]), 'store': c[2], 'impl': impl.get(c[1])}, cap=80)
    ctx.trusted += ['panic-site inventory is a syntactic over-approximation of the anchored files (tools/gen/panic_sites.py); panics inside std or unanchored files are only visible to the oracle',
                    'allocation failure and native stack exhaustion are outside any model']
