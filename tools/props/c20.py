"""C20 — programs built into a shared data object do not disturb each other."""
import itertools, json, random, re
import vlib, progsuite
from gen import proggen


def run(ctx):
    drv_ok, h_ok = vlib.standard_proof_obligations(ctx)
    if not h_ok:
        return
    rnd = random.Random(ctx.seed + 20)
    progs = [p for p in progsuite.gen_programs(ctx, 600 if ctx.tier == 'quick' else 6000, 1)]
    rnd.shuffle(progs)
    # programs run with the unit input here: the loop-nesting stream needs numeric inputs to terminate
    pool = [src for src, ast, root, stream in progs if len(src) < 120 and stream != 'loops']
    # the first three: a symbol created at run time from text, then the same symbol written as a literal and turned back into
    # text — what one program leaves in the object (a nameless symbol cell) must not change what a later one computes
    # `( )`, `( ( ) )`: programs whose main expression emits no instruction of its own (stand-alone they end with a run-time error)
    empties = ['( )', '( ( ) )']
    fixed = ['"abc" ~# :x', ':abc ~# ""', '(:abc, :k) ~# ""', '5 + 5', '{ $ * 2 } <~ 4', '1 > 2 ?> 3 |> 4', '(1, :a = 2) . a', '{ !! ($ < 3) ?> $ |> ^~ $ + 1 } <~ 0', 'x && 1', '"ab" == "ab"', '1 [2] 3', '5 ; $ + 1']
    cases = []
    seqs = []
    def add_seq(store, srcs, interleave):
        items = []
        for i, s in enumerate(srcs):
            items.append('b:' + vlib.esc(s))
            if interleave:
                items.append(f'r:{rnd.randint(0, i)}')      # run some earlier program between builds (residue of executions)
        for i in range(len(srcs)):
            items.append(f'r:{i}')
        for i in range(len(srcs)):
            items.append(f'r:{i}')         # and once more: a second run in the same object, after every other program has run
        cid = str(len(cases))
        cases.append(['MULTI', cid, store, progsuite.HOSTS[1]] + items)
        seqs.append((cid, store, srcs))
    # every order of small fixed sets, both stores, with and without interleaved executions
    for k in (2, 3) if ctx.tier == 'quick' else (2, 3, 4):
        for combo in itertools.islice(itertools.combinations(fixed, k), 40 if ctx.tier == 'quick' else 200):
            for perm in itertools.permutations(combo):
                for st in progsuite.STORES:
                    add_seq(st, list(perm), interleave=rnd.random() < 0.5)
    for e in empties:
        for other in fixed[3:9]:
            for st in progsuite.STORES:
                add_seq(st, [other, e, fixed[3]], interleave=False); add_seq(st, [e, other], interleave=True); add_seq(st, [other, e], interleave=False)
    # LONG sequences: many programs in one object, so that every table of the object (instructions, jump table, symbol table,
    # data) grows more than once while earlier programs are already in place — symbol-heavy, jump-heavy and instruction-heavy mixes
    symprogs = [f'(:s{i}a = 1, :s{i}b = {i}, :s{i}c = 3) . :s{i}b' for i in range(10)]
    jumpprogs = [f'{i} > 2 ?> {i} |> ({i} < 1 ?> 0 |> {i} + 1)' for i in range(10)]
    longprogs = [' + '.join(str(i + j) for j in range(7)) for i in range(8)]
    callprogs = [f'{{ $ * {i + 2} }} <~ {i}' for i in range(8)]
    for st in progsuite.STORES:
        add_seq(st, symprogs, interleave=False); add_seq(st, symprogs[:6] + jumpprogs[:6], interleave=True)
        add_seq(st, jumpprogs, interleave=False); add_seq(st, longprogs + symprogs[:4], interleave=False)
        add_seq(st, [x for pair in zip(symprogs, longprogs, callprogs) for x in pair], interleave=True)
        add_seq(st, callprogs + jumpprogs[:4] + symprogs[:5], interleave=False)
    # a program whose run FAILS half-way through a conversion (a partial application inside a pair cannot be rendered as text or
    # bytes, after part of the output was produced), run before the next program is built: what the failed run leaves in the
    # object must not reach the constants or the results of the programs built afterwards
    failers = ['(5 = ({ $ } ~ 1)) ~# ""', "(5 = ({ $ } ~ 1)) ~# ''", '(1, 2, ({ $ + 1 } ~ 2)) ~# ""', '("ab" = ({ $ } ~ 1)) ~# ""']
    texty = ['"abc" <> "def"', '"abc"', "'xy' <> 'z'", '"q" ~# \'\'', '7 ~# ""', '(:k = "v") . :k', "'ab'"]
    for f_ in failers:
        for t_ in texty:
            for st in progsuite.STORES:
                # the failing program comes first: a rendered expression shows its jump-table index, which depends on what was built before
                add_seq(st, [f_, t_], interleave=True); add_seq(st, [f_, t_, t_ + ' '], interleave=True)
    for _ in range(400 if ctx.tier == 'quick' else 6000):
        k = rnd.randint(2, 4)
        add_seq(rnd.choice(progsuite.STORES), [rnd.choice(pool + fixed) for _ in range(k)], interleave=rnd.random() < 0.6)
    # stand-alone results
    alone = {}
    solo = []
    for cid, st, srcs in seqs:
        for s in srcs:
            if (st, s) not in alone:
                alone[(st, s)] = str(len(solo))
                solo.append(['RUN', str(len(solo)), st, vlib.esc(s), '-', progsuite.HOSTS[1]])
    ctx.evaluations = len(cases) + len(solo)
    impl = vlib.run_impl(cases, 'c20', per_case_s=10.0)
    simpl = vlib.run_impl(solo, 'c20s', per_case_s=5.0)
    def val(r):
        pi = progsuite.parse_impl(r)
        return ('ok', progsuite.canon(pi['value']), progsuite.canon(pi['log'])) if pi['kind'] == 'ok' else (pi['kind'],)
    stats = {}
    for cid, st, srcs in seqs:
        r = impl.get(cid, 'missing')
        c = cases[int(cid)]
        ctx.distinct.add((st, tuple(srcs)))
        if r.split(' ')[0] in ('PANIC', 'HANG', 'ABORT', 'missing'):
            ctx.fail('oracle', c, impl=r, expect='results', note='panic/hang while building or running programs in a shared data object')
            continue
        parts = r.split(' | ')
        builds = [p for p in parts if p.startswith('b:')]
        runs = [p for p in parts if re.match(r'r\d+:', p)]
        ok_builds = [b.startswith('b:ok') for b in builds]
        for i, b in enumerate(builds):
            if b.startswith('b:ok') and ('undisturbed=true' not in b or 'own=true' not in b):
                ctx.fail('oracle', c, impl=r, expect='undisturbed=true own=true', note=f'building program {i} ({srcs[i]!r}) changed an earlier program`s instructions / jump entries / constants, or refers to pieces that are not its own')
                stats['disturbed'] = stats.get('disturbed', 0) + 1
        # final runs (the last len(srcs) run items) against the stand-alone result
        for i, s in enumerate(srcs):
            if not ok_builds[i]:
                continue
            want = val(simpl.get(alone[(st, s)]))
            got_items = [p for p in runs if p.startswith(f'r{i}:')]
            if not got_items:
                continue
            got = val(got_items[-1].split(':', 1)[1])
            if len(got_items) >= 2 and val(got_items[-2].split(':', 1)[1]) != got and not any('steplimit' in x for x in runs):
                ctx.fail('oracle', c, impl=got_items[-2] + ' | ' + got_items[-1], expect='the same result from both final runs', note=f'program {i} ({s!r}) gives different results when it is run twice in the shared object')
                stats['different'] = stats.get('different', 0) + 1
            # the harness keeps at most 400 host-call records per object: after a run that was cut at the step limit the
            # trace of later runs may be truncated, so only the value is compared then
            if any('steplimit' in x for x in runs) and want[0] == 'ok' and got[0] == 'ok':
                got, want = got[:2], want[:2]
            if want[0] == 'runerr' and got[0] == 'ok':
                # stand-alone the program ends with a run-time error: in the shared object it must not quietly compute a value
                # (e.g. by running into a neighbour's instructions)
                ctx.fail('oracle', c, impl=got_items[-1], expect=simpl.get(alone[(st, s)]), note=f'program {i} ({s!r}) ends with a run-time error when built alone but computes a value in the shared object')
                stats['different'] = stats.get('different', 0) + 1
            elif want[0] == 'ok' and got != want:
                ctx.fail('oracle', c, impl=got_items[-1], expect=simpl.get(alone[(st, s)]), note=f'program {i} ({s!r}) computes a different result in the shared object than when built alone')
                stats['different'] = stats.get('different', 0) + 1
            else:
                stats['same'] = stats.get('same', 0) + 1
    # tie of the shared-object compile theorems (Props/C20Compile.lean: C20_compileInto_extends, C20_own_pieces,
    # C20_compile_correct_shared, C20_compileAll_correct) to the real build: sequences of programs built into ONE object by the
    # real lexer+parser+builder (DUMP2) must equal the chained structured compiler compileInto (COMPILE2), line for line
    if drv_ok:
        from gen import compilegen
        roots = [(root, src) for src, ast, root, stream in progs if root is not None and len(src) < 120]
        rnd2 = random.Random(ctx.seed + 202)
        seqs2 = []
        small = [r for r in roots if True][:30 if ctx.tier == 'quick' else 80]
        for x in small:
            for y in small:
                seqs2.append([x, y])
        for _ in range(1500 if ctx.tier == 'quick' else 20000):
            seqs2.append([rnd2.choice(roots) for _ in range(rnd2.choice([2, 2, 3]))])
        comp, dump = [], []
        for k, sq in enumerate(seqs2):
            comp.append(['COMPILE2', 'q%d' % k] + [compilegen.program_term(r) for r, _ in sq])
            for st in progsuite.STORES:
                dump.append(['DUMP2', f'q{k}:{st}', st] + [vlib.esc(src) for _, src in sq])
        di = vlib.run_impl(dump, 'c20dump2', per_case_s=5.0)
        cm = vlib.run_model(comp, 'c20comp2')
        nd = 0
        for c in comp:
            for st in progsuite.STORES:
                r, m = di.get(f'{c[1]}:{st}', 'missing'), cm.get(c[1], 'missing')
                if r != m:
                    nd += 1
                    d = [x for x in dump if x[1] == f'{c[1]}:{st}'][0]
                    ctx.fail('corr', d, impl=r[:500], model=m[:500], expect=m[:300], note='building these programs into one object differs from the chained structured compiler compileInto (COMPILE2 suite)')
        stats['COMPILE2=DUMP2 sequences'] = len(comp)
        stats['COMPILE2!=DUMP2'] = nd
        ctx.evaluations += len(dump)
        ctx.oblige('suite COMPILE2 (real build of several programs into one object = chained compileInto)', 'suite', nd == 0, f'{nd} difference(s)')
    ctx.rule = ('MULTI cases: sequences of 2..4 programs built into one data object in every order (fixed small set), random sequences of generated programs and long sequences (10-24 symbol-, jump-, instruction- and call-heavy programs: every table of the object grows more than once), on both stores, with executions of earlier programs interleaved between the builds; '
                'oracle: each build leaves every earlier instruction (constants rendered), every earlier jump entry unchanged and its own jumps / expression values / jump targets lie in its own ranges; each program run from its reported entry gives the same value and host-call trace as when built alone into a fresh object; distinct = distinct (store, program sequence).')
    ctx.suites = {'MULTI': len(cases), 'stand-alone RUN': len(solo), 'outcomes': stats}
    for cid, st, srcs in seqs[:: max(1, len(seqs) // 5)][:5]:
        ctx.sample({'store': st, 'programs': srcs, 'impl': (impl.get(cid) or '')[:300]}, cap=80)
    ctx.trusted += ['undisturbed / own checks are computed in harness/src/runs.rs through the public getters',
                    'the universal statement (build only appends, never patches entries below the initial lengths) is a theorem on the builder model when present (Lemmas/Build.lean)']
