"""C08 — undefined operand combinations yield unit, after offering them to the host."""
import json
import vlib, opsuite
from gen import opgen

ARITH = ['Add', 'Subtract', 'Multiply', 'Divide', 'IntegerDivide', 'Power', 'Remainder', 'BitwiseAnd', 'BitwiseOr', 'BitwiseXor',
         'BitwiseShiftLeft', 'BitwiseShiftRight']
RANGE = ['MakeRange', 'MakeStartExclusiveRange', 'MakeEndExclusiveRange', 'MakeExclusiveRange']
TOTAL = ['Xor', 'TypeEqual', 'Equal', 'NotEqual', 'LessThan', 'LessThanOrEqual', 'GreaterThan', 'GreaterThanOrEqual', 'MakePair', 'Concat', 'PartialApply']

ACCESS_DEF = set()
for l, r in [('Symbol', 'Symbol'), ('Symbol', 'SymbolList'), ('SymbolList', 'Symbol'), ('SymbolList', 'SymbolList'), ('SymbolList', 'Number'),
             ('Number', 'SymbolList'), ('Symbol', 'Number'), ('Number', 'Symbol')]:
    ACCESS_DEF.add((l, r))
for l in ['Pair', 'List', 'Concatenation', 'Slice']:
    ACCESS_DEF.add((l, 'Number')); ACCESS_DEF.add((l, 'Symbol'))
for l in ['CharList', 'ByteList', 'Range']:
    ACCESS_DEF.add((l, 'Number'))
APPLY_DEF = {('Symbol', 'SymbolList'), ('SymbolList', 'Symbol'), ('SymbolList', 'SymbolList'), ('Range', 'Range'), ('Slice', 'Range'),
             ('SymbolList', 'Number'), ('List', 'Number'), ('Pair', 'Number'), ('Pair', 'Symbol'), ('List', 'Symbol'), ('List', 'SymbolList'),
             ('List', 'Range'), ('Concatenation', 'Range'), ('CharList', 'Range'), ('ByteList', 'Range'), ('SymbolList', 'Range')}
UNARY_DEF = {
    'Opposite': {'Number'}, 'AbsoluteValue': {'Number'}, 'BitwiseNot': {'Number'},
    'AccessLeftInternal': {'Pair', 'Range', 'Slice', 'Concatenation'}, 'AccessRightInternal': {'Pair', 'Range', 'Slice', 'Concatenation'},
    'AccessLengthInternal': {'Pair', 'List', 'CharList', 'ByteList', 'Range', 'Slice', 'Concatenation'},
    'EmptyApply': {'Expression', 'External', 'Partial'},
}


CAST_ANY = ('CharList', 'ByteList', 'Symbol', 'True', 'False')
CAST_DEF = {'Number': {'CharList', 'Char', 'Byte'}, 'Char': {'Number', 'Byte', 'CharList'}, 'Byte': {'Number', 'Char'},
            'List': {'SymbolList', 'Range', 'CharList', 'ByteList', 'Concatenation', 'Slice'}}


def cast_defined(lt, rt):
    """mirror of Spec.castDefined (lean/Garnish/Lemmas/Casts.lean): lt = type of the value, rt = TARGET type"""
    return lt == rt or lt == 'Unit' or rt in CAST_ANY or lt in CAST_DEF.get(rt, ())


def defined(instr, lt, rt):
    """mirror of Spec/Defined.lean (kept equal by the test below against the Lean model's dispatch)"""
    if instr == 'ApplyType':
        return cast_defined(lt, rt)
    if instr in ARITH or instr in RANGE:
        return lt == 'Number' and rt == 'Number'
    if instr in TOTAL:
        return True
    if instr == 'Access':
        return (lt, rt) in ACCESS_DEF
    if instr == 'Apply':
        return lt in ('Expression', 'External', 'Partial') or (lt, rt) in APPLY_DEF
    if instr in UNARY_DEF:
        return lt in UNARY_DEF[instr]
    return None   # no claim (testers)


def run(ctx):
    drv_ok, h_ok = vlib.standard_proof_obligations(ctx)
    if ctx.replay:
        rp = json.load(open(ctx.replay))
        cases = []
        for f in [rp.get('failure')] + rp.get('more', []):
            if f and f.get('case'):
                cases.append(f['case'][:1] + [str(len(cases))] + f['case'][2:])
    else:
        cases = opgen.gen_cases()
    ctx.evaluations = len(cases)
    if not h_ok:
        return
    rows = opsuite.run(cases, 'c08', drv_ok)
    dis = 0
    n_undef = 0
    n_unbuildable = 0
    per_instr = {}
    for c, ri, rm, skip in rows:
        instr, store, mode = c[3], c[2], c[4]
        l, r = opsuite.operands(c)
        lt, rt = opgen.type_of_term(l), (opgen.type_of_term(r) if r != '-' else 'Unit')
        if instr == 'ApplyType':
            # the right operand of a cast stands for its TARGET type (a Type value names it); that is the type handed to the host
            rt = opgen.target_type_of_term(r)
        pi = opsuite.parse_result(ri)
        if pi['kind'] == 'SETUP-ERR' and skip and skip.startswith('SimpleGarnishData symbol lists cannot hold numbers'):
            n_unbuildable += 1    # the operand cannot be built on this data implementation: no instruction was executed
            continue
        if pi['kind'] in ('PANIC', 'HANG', 'ABORT', 'missing'):
            ctx.fail('oracle', c, impl=ri, model=rm, expect='no panic', note='execution of one instruction panicked / hung')
            continue
        d = defined(instr, lt, rt)
        if d is False:
            n_undef += 1
            per_instr[instr] = per_instr.get(instr, 0) + 1
            ctx.distinct.add((instr, lt, rt, store, mode))
            # the harness log prints a unit-typed operand as U without looking at the address (unary filler, cast target Unit)
            rr = 'U' if (r == '-' or (instr == 'ApplyType' and rt == 'Unit')) else r
            want_log = [] if mode == 'absent' else [f'defer({instr},{lt}:{l},{rt}:{rr})']
            want_top = '(i 777)' if mode == 'accept' else 'U'
            ok = (pi['kind'] == 'ok' and pi['top'] == want_top and pi['regs'] == 1 and pi['log'] == want_log and pi['vals'] == 0 and pi['frames'] == 0)
            if not ok:
                ctx.fail('oracle', c, impl=ri, model=rm, expect=f'ok {want_top} regs=1 vals=0 frames=0 log={";".join(want_log)}',
                         note='undefined combination: exactly one offer (op, left, right in source order), unit if declined, host value unchanged if accepted, exactly one result, no error')
                continue
        elif d is True and pi['kind'] == 'ok' and any(x.startswith('defer(') for x in pi['log']) and instr not in ('Apply', 'EmptyApply'):
            # a combination the language defines must not be handed to the host instead
            ctx.fail('oracle', c, impl=ri, model=rm, expect='no defer for a defined combination', note='defined combination was deferred')
            continue
        if rm is not None and not skip and ri != rm and ri and ri.startswith('err UnsupportedOpTypes') and rm.startswith('ok '):
            # the step FAILS with the very error code that stands for "no result defined for these operand types", on operands for
            # which the model — and the code before — continue with a value: execution must not fail on such a combination
            ctx.fail('oracle', c, impl=ri, model=rm, expect=rm, note='execution fails with UnsupportedOpTypes instead of continuing (unit after one offer to the host, or the defined result)')
            continue
        if rm is not None and not skip and ri != rm:
            dis += 1
            ctx.fail('corr', c, impl=ri, model=rm, expect=rm, note='implementation differs from the Lean model (OP suite)')
    # the same protocol through the whole pipeline, also on a CLONE of the built data object (`simpleclone`: programs are
    # commonly built once and executed on clones): one undefined combination per operator x stores x host modes
    if not ctx.replay:
        import progsuite
        PROGS = ['5 + "abc"', '"a" - 1', '() * 2', '(1 2) / 3', ':a // 1', '"x" % 2', '1 ** "a"', '"a" & 1', '1 | "a"', '"a" ^ 1', '"a" << 1', '1 >> "a"',
                 '"a" .. 1', '"a" >.. 5', '"a" ..< 5', '() >..< 1', '1 . 2', '5 <~ 5', '5 ~> 6', '-- "a"', '++ "a"', '! "a"', '_. 5', '5 ._', '5 .|', '#5 ~# #5', '5 ~# (1 = 2)',
                 '$ + (1, 2)', '{ $ + "a" } <~ 3']
        pc = []
        for k, src in enumerate(PROGS):
            for st in ('simple', 'basic', 'simpleclone', 'simpleclone2', 'simpleclone3', 'simpleclone4'):
                for host in progsuite.HOSTS:
                    pc.append(['RUN', f'pg{k}{st[0]}{st[-2:]}{progsuite.HOSTS.index(host)}', st, vlib.esc(src), '(i 9)', host])
        pr = vlib.run_impl(pc, 'c08prog', per_case_s=5.0)
        for c in pc:
            pi = progsuite.parse_impl(pr.get(c[1]))
            ctx.distinct.add(('prog', c[2], c[3], c[5]))
            src = vlib.unesc(c[3])
            if pi['kind'] != 'ok':
                ctx.fail('oracle', c, impl=pr.get(c[1]), expect='unit or the host value', note=f'an undefined combination failed the program {src!r} on {c[2]}')
                continue
            calls = [x for x in (pi.get('log') or '').split(';') if x.startswith('defer(')]
            host = c[5]
            want_calls = 0 if host == '-' else 1
            want_val = '(i 777)' if host.startswith('d1') else 'U'
            if len(calls) != want_calls or pi['value'] != want_val:
                ctx.fail('oracle', c, impl=pr.get(c[1]), expect=f'{want_val} after {want_calls} offer(s) to the host', note=f'undefined combination in {src!r} on {c[2]}: {len(calls)} offer(s), value {pi["value"]}')
        ctx.evaluations += len(pc)
        ctx.suites['RUN.undefined-in-programs (incl. clone of the data object)'] = len(pc)
        # histories on ONE data object under a host whose handler accepts, but itself FAILS on `-` / `--`: the failing offer ends that
        # run with the host's error; every later undefined operation must still be offered to the same handler, exactly once
        import re as _re
        mc = []
        OKS = [':s + 5', '"a" * 2', '1 . 2', '! "a"', '(1 2) / 3', '5 ._']
        ERRS = [':s - 5', '-- "a"', '"x" - (1, 2)']
        for st in ('simple', 'basic'):
            for i, a_ in enumerate(OKS):
                for j, e_ in enumerate(ERRS):
                    mc.append(['MULTI', f'he{st[0]}{i}{j}', st, 'd2a1', 'b:' + vlib.esc(a_), 'b:' + vlib.esc(e_), 'r:0', 'r:1', 'r:0', 'r:1', 'r:0'])
        # ... and under a handler that DECLINES: the same undefined combination executed again on the same object is offered again
        rc2 = []
        for st in ('simple', 'basic'):
            for i, a_ in enumerate(OKS + ERRS):
                rc2.append(['MULTI', f'hd{st[0]}{i}', st, 'd0a0', 'b:' + vlib.esc(a_), 'r:0', 'r:0', 'r:0'])
        mr2 = vlib.run_impl(rc2, 'c08multi2', per_case_s=10.0)
        for c in rc2:
            r = mr2.get(c[1], 'missing')
            ctx.distinct.add(('history-decline', c[2], c[4]))
            runs = [p_ for p_ in r.split(' | ') if _re.match(r'r\d+:', p_)]
            for k, p_ in enumerate(runs):
                pi = progsuite.parse_impl(p_.split(':', 1)[1])
                ncalls = len([x for x in (pi.get('log') or '').split(';') if x.startswith('defer(')])
                if len(runs) != 3 or pi['kind'] != 'ok' or pi['value'] != 'U' or ncalls != 1:
                    ctx.fail('oracle', c, impl=r[:600], expect='unit after exactly one offer to the host, in each of the three runs', note=f'run {k + 1} of 3 of {vlib.unesc(c[4])[2:]!r} on one data object under a declining handler: {ncalls} offer(s), outcome {pi.get("value") or pi["kind"]}')
                    break
        ctx.evaluations += len(rc2)
        mr = vlib.run_impl(mc, 'c08multi', per_case_s=10.0)
        for c in mc:
            r = mr.get(c[1], 'missing')
            ctx.distinct.add(('history', c[2], c[4], c[5]))
            runs = [p_ for p_ in r.split(' | ') if _re.match(r'r\d+:', p_)]
            if len(runs) != 5:
                ctx.fail('oracle', c, impl=r[:400], expect='five runs', note='a history with a failing host handler could not be executed')
                continue
            ok_runs = [progsuite.parse_impl(runs[k].split(':', 1)[1]) for k in (0, 2, 4)]
            err_runs = [progsuite.parse_impl(runs[k].split(':', 1)[1]) for k in (1, 3)]
            for k, pi in enumerate(ok_runs):
                calls = [x for x in (pi.get('log') or '').split(';') if x.startswith('defer(')]
                # the host log accumulates over the object's life: look at the value and at the number of NEW offers
                if pi['kind'] != 'ok' or pi['value'] != '(i 777)':
                    ctx.fail('oracle', c, impl=r[:600], expect='(i 777) from the host in every run of the accepted operation', note=f'after the host handler failed once, a later undefined operation ({vlib.unesc(c[4])[2:]!r}, run {k + 1} of 3) is no longer answered by the host: {pi.get("value") or pi["kind"]}')
                    break
            for pi in err_runs:
                if not pi['kind'].startswith('runerr'):
                    ctx.fail('oracle', c, impl=r[:600], expect='the host`s error ends the run', note='an error returned by the host handler was swallowed')
                    break
        ctx.evaluations += len(mc)
        ctx.suites['MULTI.histories with a failing host handler'] = len(mc)
    ctx.oblige('suite OP.* complete type-pair matrix (implementation = Lean model)', 'suite', dis == 0 and drv_ok, f'{dis} disagreement(s)')
    ctx.exhaustive = True
    ctx.rule = ('complete matrix: 30 binary + 14 unary instructions x every ordered pair of 19 value types x all representative values per type (empty, singleton, typical, nested) '
                'plus the cast matrix (ApplyType: ~330 left representatives incl. slices of every sequence kind, float / descending / i32::MAX ranges, multi-byte text x 21 target types, each as a Type value and as a value of that type) '
                'x {SimpleGarnishData, BasicGarnishData} x callback {absent, declining, accepting}; histories of runs on one data object under a handler that fails on some operations (later offers must still reach it); for every combination Spec/Defined.lean (casts: Spec.castDefined) leaves undefined the oracle demands exactly one defer_op call with the operation and both operands in source order, '
                'unit when declined, the host value unchanged when accepted, exactly one result, no error; distinct_nontrivial = distinct undefined (instr, ltype, rtype, store, mode).')
    ctx.suites.update({'OP.matrix': len(cases), 'undefined_cases': n_undef, 'operand_not_buildable_on_simple': n_unbuildable})
    ctx.distribution = {'undefined_cases_per_instruction': per_instr}
    for c, ri, rm, skip in rows[:: max(1, len(rows) // 6)][:6]:
        ctx.sample({'case': c[2:], 'impl': ri, 'model': rm}, cap=80)
    ctx.trusted += ['value-level model of the handlers (Abs/Ops.lean) tied to the code by the exhaustive OP matrix on both data implementations',
                    'Spec/Defined.lean is the hand-written statement of which combinations the language defines; tools/props/c08.py mirrors it',
                    'casts (ApplyType): value-level model Abs/Casts.lean `castOp` (per data implementation where the two differ), table Spec.castDefined (Lemmas/Casts.lean) mirrored by cast_defined(); '
                    'not compared: float -> text (f64 Display), operands SimpleGarnishData cannot build, BasicGarnishData nested byte list -> ByteList (heap-layout dependent); slice operands of the other instructions: executed (no panic/no hang) but outside the model']
