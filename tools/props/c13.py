"""C13 — lexing is lossless, positions are exact, nothing is skipped."""
import json
import vlib
from gen import lexgen


def run(ctx):
    drv_ok, h_ok = vlib.standard_proof_obligations(ctx, ['Garnish.Lemmas.Lexer'])
    if ctx.replay:
        rp = json.load(open(ctx.replay))
        cases = []
        for f in [rp.get('failure')] + rp.get('more', []):
            if f and f.get('case'):
                cases.append(f['case'][:1] + [str(len(cases))] + f['case'][2:])
    else:
        cases = lexgen.gen_cases(ctx.seed, ctx.tier)
    ctx.evaluations = len(cases)
    if not h_ok:
        return
    impl = vlib.run_impl(cases, 'c13', per_case_s=5.0)
    model = vlib.run_model(cases, 'c13') if drv_ok else {}
    dis = 0
    verdicts = {}
    lens = {}
    for c in cases:
        text = vlib.unesc(c[2])
        ri, rm = impl.get(c[1]), model.get(c[1])
        v = (ri or 'missing').split('\t')[0].split(' ')[0]
        verdicts[v] = verdicts.get(v, 0) + 1
        b = min(len(text), 60) // 5 * 5
        lens[b] = lens.get(b, 0) + 1
        if len(text) >= 2:
            ctx.distinct.add(c[2])
        bad = lexgen.oracle(text, ri or 'missing')
        # classification both ways: a Subexpression token is a run of blanks with at least two newlines, nothing else
        if not bad and ri and ri.startswith('ok'):
            for f in ri.split('\t')[1:]:
                ty, row, col, tx = f.split(',', 3)
                tx = vlib.unesc(tx)
                if ty == 'Subexpression' and tx.count('\n') < 2 and all(ch in ' \t\n' for ch in tx):
                    bad = ['subexpression-without-blank-line']
                if ty == 'Whitespace' and '\r' not in tx and '\x0c' not in tx and tx.count('\n') >= 2:
                    bad = ['blank-line-typed-whitespace']
        if bad:
            ctx.fail('oracle', c, impl=ri, model=rm, expect='; '.join(bad), note='C13 violated on this input: ' + ', '.join(bad))
            continue
        if rm is not None and ri != rm:
            dis += 1
            ctx.fail('corr', c, impl=ri, model=rm, expect=rm, note='lexer differs from the Lean lexer model (LEX suite)')
    ctx.oblige('suite LEX.text+type+pos+err (implementation = Lean lexer model)', 'suite', dis == 0 and drv_ok, f'{dis} disagreement(s)')
    ctx.rule = ('LEX cases: all strings up to length 4 (quick) / 5 (thorough) over a rotating ~18-symbol alphabet with one representative per character class (letter, digit, _, :, ., quotes, backslash, @, backtick, space, tab, newline, CR, operator characters of every trie depth, €, é, 😀), '
                'every ordered pair of operator spellings adjacent and separated, random longer token mixes (radix numbers, floats, identifiers, symbols, char/byte lists with 1-4 quotes and escapes, annotations, blank lines with trailing spaces, unicode digits, control characters); '
                'oracle on the implementation: concatenated token texts = input, no empty token, row/column of every token = position of its first character, a foreign character outside a literal is an error, a blank line yields a Subexpression token; plus token-by-token agreement with the Lean model; distinct = distinct inputs of length >= 2.')
    ctx.suites = {'LEX': len(cases), 'verdicts': verdicts}
    ctx.distribution = {'input_length_buckets': {str(k): v for k, v in sorted(lens.items())}}
    for c in cases[:: max(1, len(cases) // 6)][:6]:
        ctx.sample({'input': c[2], 'impl': (impl.get(c[1]) or '')[:200], 'model': (model.get(c[1]) or '')[:200]}, cap=80)
    ctx.trusted += ['CharClass: Unicode predicates are a parameter of the theorems; the driver uses range tables dumped from Rust char methods by the harness (Gen/CharRanges.lean), with the Sane hypotheses proved on them by decide',
                    'operator table regenerated from Lexer::new (Gen/LexTables.lean)', 'hand transliteration Model/Lexer.lean tied to lexer.rs by the LEX suite']
