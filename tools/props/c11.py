"""C11 — equality is structural and an equivalence relation."""
import json, random
import vlib, opsuite
from gen import opgen
from props.c12 import fterm


def gen_values(rnd, depth):
    """random value term over the property's kinds"""
    k = rnd.random()
    if depth <= 0 or k < 0.45:
        return rnd.choice(['U', 'T', 'F', '(i 0)', '(i 1)', '(i 2)', '(i -1)', fterm(1.0), fterm(1.5), fterm(2.0), '(c 97)', '(c 98)', '(c 233)', '(b 97)', '(b 1)',
                           '(s 5)', '(s 6)', '(syl (s 5) (s 6))', '(syl (s 5) (s 7))', '(cl)', '(cl 97)', '(cl 97 98)', '(cl 233)', '(bl)', '(bl 97)', '(bl 1 2)'])
    if k < 0.6:
        return f'(p {gen_values(rnd, depth - 1)} {gen_values(rnd, depth - 1)})'
    if k < 0.85:
        n = rnd.randint(0, 3)
        return '(l' + ''.join(' ' + gen_values(rnd, depth - 1) for _ in range(n)) + ')'
    return f'(cat {gen_values(rnd, depth - 1)} {gen_values(rnd, depth - 1)})'


def tokenize(t):
    return t.replace('(', ' ( ').replace(')', ' ) ').split()


def parse(t):
    toks = tokenize(t)
    pos = [0]
    def go():
        x = toks[pos[0]]; pos[0] += 1
        if x == '(':
            items = []
            while toks[pos[0]] != ')':
                items.append(go())
            pos[0] += 1
            return items
        return x
    return go()


def norm(v):
    """independent Python oracle for structural identity: normal form"""
    import struct
    if isinstance(v, str):
        return ('atom', v)
    h = v[0]
    if h == 'i': return ('num', float(int(v[1])), int(v[1]))
    if h == 'f':
        x = struct.unpack('<d', struct.pack('<Q', int(v[1], 16)))[0]
        return ('num', x, int(x) if x == int(x) and abs(x) < 2**53 else None)
    if h == 'c': return ('text', (int(v[1]),))
    if h == 'b': return ('blob', (int(v[1]),))
    if h == 'cl': return ('text', tuple(int(x) for x in v[1:]))
    if h == 'bl': return ('blob', tuple(int(x) for x in v[1:]))
    if h == 's': return ('sym', v[1])
    if h == 'syl':
        parts = []
        for x in v[1:]:
            nx = norm(x)
            parts += list(nx[1]) if nx[0] == 'syl' else [nx]      # a symbol list merged into a symbol list is one flat list
        return ('syl', tuple(parts))
    if h == 'p': return ('pair', norm(v[1]), norm(v[2]))
    if h == 'l': return ('seq', tuple(norm(x) for x in v[1:]))
    if h == 'cat': return ('seq', tuple(flat(v[1]) + flat(v[2])))
    if h in ('e', 'x', 'ty'): return (h, v[1])
    return ('opaque', id(v))


def flat(v):
    if not isinstance(v, str) and v[0] == 'l': return [norm(x) for x in v[1:]]
    if not isinstance(v, str) and v[0] == 'cat': return flat(v[1]) + flat(v[2])
    return [norm(v)]


def neq(a, b):
    if a[0] == 'num' and b[0] == 'num':
        return a[1] == b[1] if (a[2] is None or b[2] is None) else a[2] == b[2]
    if a[0] != b[0]: return False
    if a[0] in ('pair',): return neq(a[1], b[1]) and neq(a[2], b[2])
    if a[0] in ('seq', 'syl'): return len(a[1]) == len(b[1]) and all(neq(x, y) for x, y in zip(a[1], b[1]))
    if a[0] == 'opaque': return False
    return a == b


def mutate(rnd, t):
    """near-miss mutant: change one leaf / drop an item / regroup"""
    choices = [('(i 1)', '(i 2)'), ('(c 97)', '(c 98)'), ('(cl 97)', '(cl 97 98)'), ('(s 5)', '(s 6)'), ('(b 1)', '(b 97)'), ('T', 'F'), ('(cl)', '(bl)'),
               ('(i 1)', fterm(1.0)), ('(c 97)', '(cl 97)'), ('(b 97)', '(bl 97)'), ('(l', '(l (i 1)'), ('(i 2)', fterm(2.0))]
    rnd.shuffle(choices)
    for a, b in choices:
        if a in t:
            i = t.index(a)
            return t[:i] + b + t[i + len(a):]
    return t


def run(ctx):
    drv_ok, h_ok = vlib.standard_proof_obligations(ctx)
    rnd = random.Random(ctx.seed)
    cases = []
    meta = {}
    def add(store, instr, a, b, tag):
        cid = str(len(cases))
        cases.append(['OP', cid, store, instr, 'decline', a, b])
        meta[cid] = tag
    if ctx.replay:
        rp = json.load(open(ctx.replay))
        for f in [rp.get('failure')] + rp.get('more', []):
            if f and f.get('case'):
                cid = str(len(cases)); cases.append(f['case'][:1] + [cid] + f['case'][2:]); meta[cid] = 'replay'
    else:
        # complete type-pair matrix with all representatives
        for lt in opgen.TYPES:
            for rt in opgen.TYPES:
                for a in opgen.REPS[lt]:
                    for b in opgen.REPS[rt]:
                        for st in opgen.STORES:
                            add(st, 'Equal', a, b, 'matrix'); add(st, 'NotEqual', a, b, 'matrix')
        n = 4000 if ctx.tier == 'quick' else 80000
        vals = [gen_values(rnd, rnd.randint(0, 3)) for _ in range(n)]
        for v in vals:
            st = rnd.choice(opgen.STORES)
            add(st, 'Equal', v, v, 'refl')                 # equal values at different addresses
            m = mutate(rnd, v)
            add(st, 'Equal', v, m, 'mutant'); add(st, 'Equal', m, v, 'mutant-sym')
            add(st, 'NotEqual', v, m, 'mutant-ne')
            w = rnd.choice(vals)
            add(st, 'Equal', v, w, 'pair'); add(st, 'Equal', w, v, 'pair-sym')
        # symbol lists MERGED from symbol lists of unequal lengths (every split of 2..6 parts, both nestings) against the flat list
        # of the same parts and against near misses — the second operand is allocated after the merge
        for n_ in range(2, 7):
            parts = ['(s %d)' % (5 + k) for k in range(n_)]
            flat_ = '(syl ' + ' '.join(parts) + ')'
            miss = '(syl ' + ' '.join(parts[:-1] + ['(s 99)']) + ')'
            for cut in range(1, n_):
                l_ = parts[0] if cut == 1 else '(syl ' + ' '.join(parts[:cut]) + ')'
                r_ = parts[cut] if n_ - cut == 1 else '(syl ' + ' '.join(parts[cut:]) + ')'
                merged = f'(syl {l_} {r_})'
                for st in opgen.STORES:
                    for instr in ('Equal', 'NotEqual'):
                        add(st, instr, merged, flat_, 'merged-symlist'); add(st, instr, flat_, merged, 'merged-symlist')
                        add(st, instr, merged, miss, 'merged-symlist'); add(st, instr, merged, merged, 'merged-symlist')
                        add(st, instr, f'(p {merged} (i 1))', f'(p {flat_} (i 1))', 'merged-symlist')
        # numbers that are different but close: neighbouring doubles (1 ulp apart), tiny magnitudes, 0.1 + 0.2 against 0.3, an integer
        # against the doubles next to it — as scalars and as leaves of pairs, lists and concatenations (equality is exact)
        import struct as _st
        def _next(x, k=1):
            bits = _st.unpack('<q', _st.pack('<d', x))[0]
            return _st.unpack('<d', _st.pack('<q', bits + (k if x >= 0 else -k)))[0]
        near = []
        for x in (0.3, 1.0, 1.5, 100.0, 1e15, 1e-300, 5e-324, 2.2250738585072014e-308, -0.3, -1.0, 4503599627370496.0, 0.1):
            near += [(x, _next(x)), (x, _next(x, 2)), (_next(x), x)]
        near += [(0.1 + 0.2, 0.3), (0.0, 5e-324), (0.0, 1.5e-16), (1.5e-16, 3.0e-16), (0.0, 3.0e-16), (1e-300, 2e-300), (0.0, -0.0), (1e-17, 1.1e-16)]
        shapes = ['%s', '(p (i 1) %s)', '(l (i 1) %s)', '(l %s (cl 97))', '(cat (i 1) %s)', '(l (l %s))']
        for x, y in near:
            for sh in shapes:
                for st in opgen.STORES:
                    add(st, 'Equal', sh % fterm(x), sh % fterm(y), 'float-neighbours'); add(st, 'NotEqual', sh % fterm(x), sh % fterm(y), 'float-neighbours')
        for k in (1, 2, 3, 16777216, 2147483647, -2147483648):
            for y in (_next(float(k)), _next(float(k), -1) if k > 0 else _next(float(k), 1)):
                for st in opgen.STORES:
                    add(st, 'Equal', f'(i {k})', fterm(y), 'int-float-neighbours'); add(st, 'Equal', fterm(y), f'(i {k})', 'int-float-neighbours')
        # equivalent spellings: list vs concatenation of its parts, char vs one-element text
        for _ in range(n // 4):
            xs = [gen_values(rnd, 1) for _ in range(rnd.randint(0, 3))]
            ys = [gen_values(rnd, 1) for _ in range(rnd.randint(0, 3))]
            l = '(l' + ''.join(' ' + x for x in xs + ys) + ')'
            c = '(cat (l' + ''.join(' ' + x for x in xs) + ') (l' + ''.join(' ' + y for y in ys) + '))'
            st = rnd.choice(opgen.STORES)
            add(st, 'Equal', l, c, 'list-vs-concat'); add(st, 'Equal', c, l, 'list-vs-concat-sym')
    # histories: the second operand built AFTER a list was started and never ended on the same data object (what a failed MakeList or
    # an interrupted host leaves behind) — the verdict must be that of the plain store
    hist = []
    if not ctx.replay:
        for c in cases:
            if c[0] == 'OP' and c[2] in ('simple', 'basic') and ('(l' in c[6] or '(cat' in c[6]) and meta.get(c[1]) in ('refl', 'mutant', 'list-vs-concat', 'matrix'):
                hist.append(c)
        hist = hist[:: max(1, len(hist) // (1500 if ctx.tier == 'quick' else 20000))]
        hist = [['OP', 'h' + c[1], c[2] + 'abandon'] + c[3:] for c in hist]
    ctx.evaluations = len(cases) + len(hist)
    if not h_ok:
        return
    rows = opsuite.run(cases, 'c11', drv_ok)
    if hist:
        hi_ = vlib.run_impl(hist, 'c11hist', per_case_s=5.0)
        plain_ = {c[1]: ri for c, ri, rm, skip in rows}
        for c in hist:
            ctx.distinct.add(('history', c[2], c[3], c[5], c[6]))
            a_, b_ = hi_.get(c[1]), plain_.get(c[1][1:])
            if b_ is not None and b_.startswith('ok') and a_ != b_:
                ctx.fail('oracle', c, impl=a_, model=None, expect=b_, note='== / != on a value built after a list was started and never ended gives another verdict than on a fresh data object')
    dis = 0
    tags = {}
    results = {}
    for c, ri, rm, skip in rows:
        instr, a, b = c[3], c[5], c[6]
        pi = opsuite.parse_result(ri)
        tag = meta.get(c[1], '')
        tags[tag] = tags.get(tag, 0) + 1
        ctx.distinct.add((instr, a, b))
        if pi['kind'] != 'ok':
            ctx.fail('oracle', c, impl=ri, model=rm, expect='ok', note='== / != must not fail')
            continue
        results[(c[2], instr, a, b)] = pi['top']
        if pi['regs'] != 1 or pi['vals'] != 0 or pi['log']:
            ctx.fail('oracle', c, impl=ri, model=rm, expect='regs=1 vals=0 log=', note='a comparison must leave exactly its result on the operand stack, however early it decides')
            continue
        if '(sl ' in a or '(sl ' in b or '(pa ' in a or '(pa ' in b or '(r ' in a or '(r ' in b:
            pass
        else:
            eq = neq(norm(parse(a)), norm(parse(b)))
            want = ('T' if eq else 'F') if instr == 'Equal' else ('F' if eq else 'T')
            if pi['top'] != want:
                ctx.fail('oracle', c, impl=ri, model=rm, expect=f'ok {want}', note='== differs from structural identity (independent oracle)')
                continue
        if rm is not None and not skip and ri != rm:
            dis += 1
            ctx.fail('corr', c, impl=ri, model=rm, expect=rm, note='implementation differs from the Lean model (OP.Equal/NotEqual)')
    # symmetry and negation on everything that was run both ways
    for (st, instr, a, b), top in results.items():
        if instr == 'Equal':
            o = results.get((st, 'Equal', b, a))
            if o is not None and o != top:
                ctx.fail('oracle', ['OP', '-', st, 'Equal', 'decline', a, b], impl=top, expect=o, note='== is not symmetric on this pair')
            ne = results.get((st, 'NotEqual', a, b))
            if ne is not None and ne == top:
                ctx.fail('oracle', ['OP', '-', st, 'NotEqual', 'decline', a, b], impl=ne, expect='negation of ==', note='!= is not the negation of ==')
    # shared sub-values: the same value (one address) used several times inside one operand, built at run time from `$`,
    # compared with the same structure spelled out literally (separate copies) — "regardless of how, where or in which order
    # the values were created". Programs through the whole pipeline on both stores.
    if not ctx.replay:
        import progsuite
        VALS = ['(1 <> 2)', '(1, 2)', '(1 2 3)', '"ab"', "'ab'", '(:a = 5)', '((1 <> 2) <> 3)', '(1, (2 <> 3))', '5', ':s', '(:a :b)', '(,)', '""']
        SHAPES = ['($ <> $)', '($, $)', '($ = $)', '(($ <> $) <> $)', '($ <> ($ <> $))', '(($ <> $), $)', '(($, $) <> ($, $))', '(1, $, $)', '(($ = 1), ($ = 2))', '(($ <> $) = ($ <> $))']
        prows = []
        pexp = {}
        def padd(src, want):
            for st in progsuite.STORES:
                cid = 'sh%d' % len(prows)
                prows.append(['RUN', cid, st, vlib.esc(src), '-', '-'])
                pexp[cid] = want
        for v in VALS:
            for sh in SHAPES:
                lit = sh.replace('$', v)
                padd(f'{v} ~> {{ {sh} == {lit} }}', 'T')
                padd(f'{v} ~> {{ {lit} == {sh} }}', 'T')
                padd(f'{v} ~> {{ {sh} != {lit} }}', 'F')
                padd(f'{v} ~> {{ {sh} == {sh} }}', 'T')
                # near miss: one copy fewer / a different last item
                padd(f'{v} ~> {{ {sh} == {v} }}', 'T' if sh == '$' else None)
                padd(f'{v} ~> {{ {sh} == ({lit} <> 9) }}', 'F')
        pi_ = vlib.run_impl(prows, 'c11sh', per_case_s=5.0)
        nsh = 0
        for r in prows:
            want = pexp[r[1]]
            got = progsuite.parse_impl(pi_.get(r[1]))
            ctx.distinct.add(('shared', r[2], r[3]))
            if got['kind'] != 'ok':
                ctx.fail('oracle', r, impl=pi_.get(r[1]), expect='a boolean', note=f'comparison of shared sub-values failed to run: {vlib.unesc(r[3])!r}')
                continue
            nsh += 1
            if want is not None and got['value'] != want:
                ctx.fail('oracle', r, impl=pi_.get(r[1]), expect=want, note=f'== depends on how the operands were created (a value used several times vs separate copies): {vlib.unesc(r[3])!r}')
        tags['shared-subvalues(programs)'] = nsh
        ctx.evaluations += len(prows)
    ctx.oblige('suite OP.Equal/OP.NotEqual (implementation = Lean model)', 'suite', dis == 0 and drv_ok, f'{dis} disagreement(s)')
    ctx.rule = ('Equal/NotEqual on: the complete type-pair matrix with all representatives (both stores); random value trees (depth <= 3, width <= 3) over units, booleans, ints, floats, chars, bytes, symbols, symbol lists, char lists, byte lists, pairs, lists, concatenations, '
                'each compared with a separately built copy of itself (equal values at different addresses), with a near-miss mutant in both orders, and with another random value in both orders; lists vs the concatenation of their parts; programs that build an operand from several uses of ONE value (`$ <> $`, `($, $)`, `($ <> $) = ($ <> $)`, ...) and compare it with the same structure spelled out from separate copies, both orders, `!=`, near misses, on both stores. '
                'Oracles: independent Python structural normal form, symmetry on every pair run both ways, != is the negation, register delta exactly 1; distinct = distinct (instr, A, B).')
    ctx.suites = {'OP.Equal+NotEqual': len(cases)}
    ctx.distribution = {'streams': tags}
    for c, ri, rm, skip in rows[:: max(1, len(rows) // 6)][:6]:
        ctx.sample({'case': c[2:], 'impl': ri, 'model': rm}, cap=80)
    ctx.trusted += ['FloatEqLaws F (reflexivity on non-NaN, symmetry, transitivity of IEEE ==, exactness of i32 -> f64) are hypotheses of the equivalence theorems',
                    'value-level valEq = nvalEq o norm tied to equality.rs by the OP suite on both data implementations; the register-stack work-list of perform_equality_check is observed through the register delta',
                    'slices, partials and ranges with non-number ends are outside the theorems’ domain (Clean)']
