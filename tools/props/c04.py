"""C04 — an accepted program accounts for every token, in order."""
import json
import vlib, treesuite
from gen import parsegen


def run(ctx):
    drv_ok, h_ok = vlib.standard_proof_obligations(ctx, ['Garnish.Lemmas.Parser'])
    if ctx.replay:
        rp = json.load(open(ctx.replay))
        cases = []
        for f in [rp.get('failure')] + rp.get('more', []):
            if f and f.get('case'):
                cases.append(f['case'][:1] + [str(len(cases))] + f['case'][2:])
    else:
        cases = parsegen.gen_cases(ctx.seed, ctx.tier)
        if ctx.tier == 'quick':
            cases = cases[::3] + parsegen.gen_wellformed(ctx.seed, 'quick')[::2]
        else:
            cases = cases + parsegen.gen_wellformed(ctx.seed, 'thorough')
        cases = [c[:1] + [str(i)] + c[2:] for i, c in enumerate(cases)]
    ctx.evaluations = len(cases)
    if not h_ok:
        return
    res = treesuite.run_pipeline(cases, 'c04', stores=('simple', 'basic') if ctx.tier == 'thorough' else ('simple',))
    chk = treesuite.treechk(cases, res, 'c04') if drv_ok else {}
    stats = {}
    for c in cases:
        r = res[c[1]]
        p = r['parse']
        def bump(k): stats[k] = stats.get(k, 0) + 1
        if p.split(' ')[0].split('\t')[0] in ('PANIC', 'HANG', 'ABORT', 'missing'):
            bump('parse-' + p.split(' ')[0]); continue
        if not p.startswith('ok root='):
            bump('parse-rejects'); continue
        accepted = [st for st, b in r['build'].items() if b.startswith('ok ')]
        if not accepted:
            bump('build-rejects'); continue
        bump('accepted')
        ctx.distinct.add('\t'.join(c[2:]))
        f = chk.get(c[1])
        src = treesuite.tok_text(c)
        if f is None or 'proper' not in f:
            if drv_ok:
                ctx.fail('corr', c, impl=p[:300], model=(f or {}).get('_raw'), note='verified checker could not read the implementation`s node dump')
            continue
        if f.get('proper') != 'true':
            ctx.fail('oracle', c, impl=p[:400], model=f['_raw'][:300], expect='proper=true', note=f'parse and build accept an improper tree (links disagree, shared node or cycle): {src!r}')
            continue
        if f.get('inorder_sorted') != 'true':
            ctx.fail('oracle', c, impl=p[:400], model=f['_raw'][:300], expect='inorder_sorted=true', note=f'in-order walk is not in source order: {src!r}')
            continue
        if f.get('covers_significant') != 'true':
            ctx.fail('oracle', c, impl=p[:400], model=f['_raw'][:300], expect='covers_significant=true', note=f'a significant token is not visited exactly once (missing={f.get("missing")} extra={f.get("extra")}): {src!r}')
            continue
        # every value and operator node is attributed at least one emitted instruction
        root, nodes = treesuite.nodes_of(p)
        reach = treesuite.reachable(root, nodes)
        for st in accepted:
            pb = treesuite.parse_build(r['build'][st])
            if pb is None:
                continue
            entry, instrs, jumps, meta = pb
            attributed = {m for m in meta if m is not None}
            silent = [i for i in sorted(reach) if nodes[i][0] not in treesuite.STRUCTURAL and i not in attributed]
            if silent:
                ctx.fail('oracle', c, impl=r['build'][st][:400], model=None, expect='every value/operator node attributed an instruction',
                         note=f'accepted program silently ignores node(s) {[(i, nodes[i][0]) for i in silent]} ({st}): {src!r}')
                break
    ctx.oblige('verified checker ran on the implementation`s dumps', 'suite', drv_ok, '')
    # source TEXT through the real lexer and parser: the in-order walk of the tree visits the tokens in SOURCE order — the (row, column)
    # each node's lex token carries is strictly increasing along the walk — for operators written with and without surrounding spaces,
    # not at column 0, and on later lines
    if not ctx.replay:
        import random as _r
        rnd_ = _r.Random(ctx.seed + 44)
        OPS_ = ['+', '-', '*', '/', '//', '%', '**', '<', '<=', '>', '>=', '==', '!=', '..', '>..', '..<', '>..<', '=', '<>', '&&', '||', '^^', '?>', '!>', '<~', '~>', '.', '<<', '>>', '&', '|', '^', '#=', '~']
        atoms = ['1', '10', 'x', 'name', '"s"', ':k', '3.5', '$']
        texts = []
        for op in OPS_:
            for sp in ('', ' '):
                for pre in ('', '5 + ', '(', 'y = ', 'x = 2\n\ny = ', '{ ', '1, '):
                    a_, b_ = rnd_.choice(atoms), rnd_.choice(atoms)
                    close = ')' if pre == '(' else (' }' if pre == '{ ' else '')
                    texts.append(pre + a_ + sp + op + sp + b_ + close)
        pc = [['PTEXT', f'pt{i}', vlib.esc(t)] for i, t in enumerate(texts)]
        pi_ = vlib.run_impl(pc, 'c04text', per_case_s=5.0)
        nt = 0
        for c in pc:
            r = pi_.get(c[1], 'missing')
            ctx.distinct.add(('text', c[2]))
            if not r.startswith('ok '):
                if r.split(' ')[0] in ('PANIC', 'HANG', 'ABORT', 'missing', 'improper'):
                    ctx.fail('oracle', c, impl=r[:300], expect='a proper tree or an error', note=f'{r.split(" ")[0]} on source text {vlib.unesc(c[2])!r}')
                continue
            nt += 1
            pos = [tuple(int(x) for x in p_.split(':')) for p_ in r.split(' | ')[1].split(',') if p_]
            if any(pos[i] >= pos[i + 1] for i in range(len(pos) - 1)):
                ctx.fail('oracle', c, impl=r[:300], expect='strictly increasing (row, column) along the in-order walk', note=f'the in-order walk of the parse tree of {vlib.unesc(c[2])!r} does not visit the tokens in source order: {pos}')
        ctx.evaluations += len(pc)
        stats['PTEXT in-order positions checked'] = nt
    ctx.rule = ('token-list cases: every sequence of token classes up to length 4 (sampled 1/3 in the quick tier) over a rotating class alphabet, operator pairs/triples with and without whitespace, random well-formed-looking expressions and random token soups; '
                'each parsed and built by the real code; for every input that BOTH accept the implementation`s own node array is fed to the Lean checker proved sound and complete (properTree, in-order order, coverage of the significant tokens) '
                'and the instruction metadata is checked to attribute every reachable value/operator node (all but Group, List/CommaList, ElseJump, Subexpression); distinct = distinct accepted token lists.')
    ctx.suites = {'PARSE+BUILD+TREECHK': len(cases), 'outcomes': stats}
    for c in cases[:: max(1, len(cases) // 6)][:6]:
        ctx.sample({'tokens': treesuite.tok_text(c), 'parse': res[c[1]]['parse'][:160], 'check': (chk.get(c[1]) or {}).get('_raw', '')[:160]}, cap=80)
    ctx.trusted += ['`significant` (Spec/Tree.lean) is a function of the token list validated empirically against the parser on well-formed programs', 'checker theorems C04_properTree_sound/complete, C04_inorder_visits_all, C04_inorderSorted_iff are about the checker, for all parse results',
                    'parser model tied by PARSE (Model/Parser.lean), parse_safe proved; the universal "parse ⇒ proper" statement is false without the build-side validation and is certified per input']
