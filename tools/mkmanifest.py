#!/usr/bin/env python3
"""writes MANIFEST.json from the table below (kept in one place so it stays valid)"""
import json, os
V = os.path.dirname(os.path.dirname(os.path.abspath(__file__)))
props = [json.loads(l) for l in open(os.path.join(V, 'properties.jsonl'))]
CLAIMS = {
 'C09': dict(
   technique='Lean 4 theorems: model of number.rs = exact-or-none spec for all i32 operands (17 ops); correspondence of the model with the Rust on the boundary lattice + random pairs',
   text='Kernel-checked theorems state, for all i32 operands without bound or sampling, that each of the 17 GarnishNumber operations of the Lean model of data/src/data/number.rs equals the exact-or-none specification (floats: decision logic over an abstract IEEE type). The model is tied to the code by differential execution on ~600k cases per quick run (full 183-value boundary lattice squared x every operation, exhaustive; shift counts and exponents -3..69; random pairs; float and mixed lattices by bit pattern) plus an independent exact-integer oracle.',
   note='Trusted: Lean kernel; Rust std overflowing_*/pow/f64 semantics as documented; IEEE-754 arithmetic is a parameter (FloatOps F) of the theorems, instantiated by hardware doubles in the driver; harness and oracle code. `<<` specified as the 32-bit shift. Known finding F-C09-1 (// with a float operand saturates; pinned by a repository test).',
   ref='DESIGN.md §6 C09'),
 'C08': dict(
   technique='Lean 4 theorems over the value-level model of every handler: an undefined type pair is deferred exactly once and yields unit; exhaustive OP matrix (instruction x type pair x representatives x store x host mode) ties the model to the code',
   text='Kernel-checked theorems state for all values of all types (no sampling: dispatch depends on types only, the proofs split over the complete 20x20 type square and lift over all values) that every arithmetic, bitwise, range, access, apply and internal-accessor instruction on a combination Spec/Defined.lean leaves undefined produces exactly one offer to the host with (op, left, right), then unit if it declines or the host value unchanged, exactly one result, no error, and that the machine continues with the next instruction. The model is tied to both data implementations by the complete matrix (291k cases, exhaustive) run on every check.',
   note='Trusted: Lean kernel; the hand-written value-level model Abs/Ops.lean + Abs/Machine.lean as far as the exhaustive OP matrix exercises it; Spec/Defined.lean as the statement of what the language defines; harness. Casts (ApplyType) and slice operands are executed but not modelled.',
   ref='DESIGN.md §6 C08'),
 'C10': dict(
   technique='Lean 4 theorems: exactly two values are false and all seven testing instructions of the machine model use that one classification; falsy sets regenerated from logical.rs / jumps.rs and bridged by decide; exhaustive OP matrix for the testers',
   text='Theorems (all values, all types): truthy v is false iff v is unit or $!; JumpIfTrue/JumpIfFalse/And/Or/Xor/Not/Tis of the machine model are functions of truthy and And/Or always leave a boolean. The three places where the Rust spells the falsy set are re-extracted from the source on every run and a bridge theorem (decide) equates each with the language set, so a table edit breaks a proof obligation while the behavioural OP matrix (every type x every tester x 2 stores x 3 host modes, exhaustive) finds the misclassified value.',
   note='Trusted: Lean kernel; translator tools/gen/runtime_tables.py; value-level machine tied to the handlers by the OP suite. Program-level short-circuit/arm selection is decided with the compiled-code model (C01 machinery).',
   ref='DESIGN.md §6 C10'),
 'C11': dict(
   technique='Lean 4 theorems: valEq = equality of structural normal forms is reflexive, symmetric, transitive on the property domain (mutual induction over nested values), != is its negation, == leaves exactly one result; OP.Equal/NotEqual correspondence + independent structural oracle on both stores',
   text='Kernel-checked mutual-induction proofs over all value trees (unbounded depth and width): reflexivity, symmetry, transitivity of the value-level equality, its case-by-case structural characterisation (numbers numerically, char = one-element text, pairs component-wise, lists and concatenations as flat item sequences), negation, and the machine step replacing exactly the two operands by one boolean. Tied to equality.rs on both data implementations by the OP suite (complete type matrix + random trees with copies at different addresses, near-miss mutants in both orders, list-vs-concatenation spellings), with an independent Python normal-form oracle, symmetry and register-delta checks.',
   note='Trusted: Lean kernel; FloatEqLaws F (IEEE == laws, exact i32->f64) as hypotheses; value-level model tied by the OP suite; the register-stack work-list of perform_equality_check is observed through the register delta (its L2 refinement proof is future work). Domain excludes NaN, slices, partials.',
   ref='DESIGN.md §6 C11'),
 'C12': dict(
   technique='Lean 4 theorems: the four comparison operators of the model equal the Int / Nat / lexicographic order (cmpList = List <), foreign pairs are false, swap law under FloatOrderLaws; OP comparison suite + independent oracle on both stores',
   text='Theorems for all integers, all code points, all char/byte lists of any length: < <= > >= of the model decide exactly the natural order (cmpList xs ys = lt iff xs < ys in the lexicographic order with the shorter prefix first, by induction on the lists), trichotomy and <= = not > on every ordered pair, all four false on every foreign type pair (complete type square), unit on unordered floats, a < b iff b > a for mixed numbers under stated IEEE order laws. Tied to comparison.rs by the OP suite: numeric lattice incl. int/float neighbours, all string pairs <= 3 over {a,b,é} on both stores, random multi-byte strings, complete cross-type matrix; each also checked against an exact Python oracle.',
   note='Trusted: Lean kernel; FloatOrderLaws F hypotheses for mixed numbers; value-level model tied by the OP suite; slices outside the model.',
   ref='DESIGN.md §6 C12'),
}
checks = []
na = []
for p in props:
    i = p['id']
    if i in CLAIMS:
        c = CLAIMS[i]
        checks.append({
            'property_id': i,
            'quick_cmd': f'./check {i} --tier quick',
            'thorough_cmd': f'./check {i} --tier thorough',
            'evidence_file': f'/verif/evidence/{i}.json',
            'replay_cmd_template': f'./check {i} --replay {{path}}',
            'engine': 'lean4+correspondence',
            'level_claimed': {'category': 'proof', 'text': c['text'], 'design_ref': c['ref']},
            'level_note': c['note'],
            'technique': c['technique'],
        })
    else:
        na.append({'property_id': i, 'reason': 'not yet claimed: the Lean model, theorems and correspondence suite for this property are still being built (see DESIGN.md §6); no property is inapplicable in principle'})
m = {
 'version': 1,
 'setup_cmd': './setup.sh',
 'hooks': {
   'guard': '--cfg garnish_verif',
   'enable': 'harness/.cargo/config.toml sets rustflags = ["--cfg", "garnish_verif"]; the harness crate path-depends on /repo/{traits,data,compiler,runtime}',
   'baseline_off_cmd': 'python3 /verif/tools/baseline.py /repo',
   'source_commits': [],
   'add_only': True,
 },
 'engines': [
   {'name': 'lean4+correspondence', 'path': '/verif/lean, /verif/harness, /verif/tools', 'serves_properties': [c['property_id'] for c in checks],
    'kind_free_text': 'Lean 4 model + kernel-checked theorems; tables regenerated from the Rust source; Rust harness running the real code and compiled Lean driver on the same case files; failing-input search with oracles'},
 ],
 'checks': checks,
 'not_applicable': na,
 'notes': 'See DESIGN.md. Every check regenerates tables from /repo, rebuilds the Lean theorems and the harness against the working tree, audits axioms, runs the correspondence suites and the property oracle, and writes evidence/<id>.json. known_findings.json lists genuine defects that were not repaired.',
}
json.dump(m, open(os.path.join(V, 'MANIFEST.json'), 'w'), indent=1, ensure_ascii=False)
print('claimed', [c['property_id'] for c in checks])
