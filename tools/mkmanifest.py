#!/usr/bin/env python3
"""writes MANIFEST.json from the table below (kept in one place so it stays valid)"""
import json, os
V = os.path.dirname(os.path.dirname(os.path.abspath(__file__)))
props = [json.loads(l) for l in open(os.path.join(V, 'properties.jsonl'))]
CLAIMS = {
 'C09': dict(
   technique='Lean 4 theorems: model of number.rs = exact-or-none spec for all i32 operands (17 ops); correspondence of the model with the Rust on the boundary lattice + random pairs',
   text='Kernel-checked theorems state, for all i32 operands without bound or sampling, that each of the 17 GarnishNumber operations of the Lean model of data/src/data/number.rs equals the exact-or-none specification (floats: decision logic over an abstract IEEE type). The model is tied to the code by differential execution on ~600k cases per quick run (full 183-value boundary lattice squared x every operation, exhaustive; shift counts and exponents -3..69; random pairs; float and mixed lattices by bit pattern) plus an independent exact-integer oracle.',
   note='Trusted: Lean kernel; Rust std overflowing_*/pow/f64 semantics as documented; IEEE-754 arithmetic is a parameter (FloatOps F) of the theorems, instantiated by hardware doubles in the driver; harness and oracle code. `<<` specified as the 32-bit shift. Known finding F-C09-1 (// with a float operand saturates; pinned by a repository test).',
   ref='DESIGN.md §6 C09'),
}
checks = []
na = []
for p in props:
    i = p['id']
    if i in CLAIMS:
        c = CLAIMS[i]
        checks.append({
            'property_id': i,
            'quick_cmd': f'./check {i} --tier quick',
            'thorough_cmd': f'./check {i} --tier thorough',
            'evidence_file': f'/verif/evidence/{i}.json',
            'replay_cmd_template': f'./check {i} --replay {{path}}',
            'engine': 'lean4+correspondence',
            'level_claimed': {'category': 'proof', 'text': c['text'], 'design_ref': c['ref']},
            'level_note': c['note'],
            'technique': c['technique'],
        })
    else:
        na.append({'property_id': i, 'reason': 'not yet claimed: the Lean model, theorems and correspondence suite for this property are still being built (see DESIGN.md §6); no property is inapplicable in principle'})
m = {
 'version': 1,
 'setup_cmd': './setup.sh',
 'hooks': {
   'guard': '--cfg garnish_verif',
   'enable': 'harness/.cargo/config.toml sets rustflags = ["--cfg", "garnish_verif"]; the harness crate path-depends on /repo/{traits,data,compiler,runtime}',
   'baseline_off_cmd': 'python3 /verif/tools/baseline.py /repo',
   'source_commits': [],
   'add_only': True,
 },
 'engines': [
   {'name': 'lean4+correspondence', 'path': '/verif/lean, /verif/harness, /verif/tools', 'serves_properties': [c['property_id'] for c in checks],
    'kind_free_text': 'Lean 4 model + kernel-checked theorems; tables regenerated from the Rust source; Rust harness running the real code and compiled Lean driver on the same case files; failing-input search with oracles'},
 ],
 'checks': checks,
 'not_applicable': na,
 'notes': 'See DESIGN.md. Every check regenerates tables from /repo, rebuilds the Lean theorems and the harness against the working tree, audits axioms, runs the correspondence suites and the property oracle, and writes evidence/<id>.json. known_findings.json lists genuine defects that were not repaired.',
}
json.dump(m, open(os.path.join(V, 'MANIFEST.json'), 'w'), indent=1, ensure_ascii=False)
print('claimed', [c['property_id'] for c in checks])
