#!/usr/bin/env python3
"""writes MANIFEST.json from the table below (kept in one place so it stays valid)"""
import json, os
V = os.path.dirname(os.path.dirname(os.path.abspath(__file__)))
props = [json.loads(l) for l in open(os.path.join(V, 'properties.jsonl'))]
CLAIMS = {
 'C09': dict(
   technique='Lean 4 theorems: model of number.rs = exact-or-none spec for all i32 operands (17 ops); correspondence of the model with the Rust on the boundary lattice + random pairs',
   text='Kernel-checked theorems state, for all i32 operands without bound or sampling, that each of the 17 GarnishNumber operations of the Lean model of data/src/data/number.rs equals the exact-or-none specification (floats: decision logic over an abstract IEEE type). The model is tied to the code by differential execution on ~600k cases per quick run (full 183-value boundary lattice squared x every operation, exhaustive; shift counts and exponents -3..69; random pairs; float and mixed lattices by bit pattern) plus an independent exact-integer oracle.',
   note='Trusted: Lean kernel; Rust std overflowing_*/pow/f64 semantics as documented; IEEE-754 arithmetic is a parameter (FloatOps F) of the theorems, instantiated by hardware doubles in the driver; harness and oracle code. `<<` specified as the 32-bit shift. Known finding F-C09-1 (// with a float operand saturates; pinned by a repository test).',
   ref='DESIGN.md §6 C09'),
 'C08': dict(
   technique='Lean 4 theorems over the value-level model of every handler: an undefined type pair is deferred exactly once and yields unit; exhaustive OP matrix (instruction x type pair x representatives x store x host mode) ties the model to the code',
   text='Kernel-checked theorems state for all values of all types (no sampling: dispatch depends on types only, the proofs split over the complete 20x20 type square and lift over all values) that every arithmetic, bitwise, range, access, apply and internal-accessor instruction on a combination Spec/Defined.lean leaves undefined produces exactly one offer to the host with (op, left, right), then unit if it declines or the host value unchanged, exactly one result, no error, and that the machine continues with the next instruction. The model is tied to both data implementations by the complete matrix (291k cases, exhaustive) run on every check.',
   note='Trusted: Lean kernel; the hand-written value-level model Abs/Ops.lean + Abs/Machine.lean as far as the exhaustive OP matrix exercises it; Spec/Defined.lean as the statement of what the language defines; harness. Casts (ApplyType) and slice operands are executed but not modelled.',
   ref='DESIGN.md §6 C08'),
 'C10': dict(
   technique='Lean 4 theorems: exactly two values are false and all seven testing instructions of the machine model use that one classification; falsy sets regenerated from logical.rs / jumps.rs and bridged by decide; exhaustive OP matrix for the testers',
   text='Theorems (all values, all types): truthy v is false iff v is unit or $!; JumpIfTrue/JumpIfFalse/And/Or/Xor/Not/Tis of the machine model are functions of truthy and And/Or always leave a boolean. The three places where the Rust spells the falsy set are re-extracted from the source on every run and a bridge theorem (decide) equates each with the language set, so a table edit breaks a proof obligation while the behavioural OP matrix (every type x every tester x 2 stores x 3 host modes, exhaustive) finds the misclassified value.',
   note='Trusted: Lean kernel; translator tools/gen/runtime_tables.py; value-level machine tied to the handlers by the OP suite. Program-level short-circuit/arm selection is decided with the compiled-code model (C01 machinery).',
   ref='DESIGN.md §6 C10'),
 'C11': dict(
   technique='Lean 4 theorems: valEq = equality of structural normal forms is reflexive, symmetric, transitive on the property domain (mutual induction over nested values), != is its negation, == leaves exactly one result; OP.Equal/NotEqual correspondence + independent structural oracle on both stores',
   text='Kernel-checked mutual-induction proofs over all value trees (unbounded depth and width): reflexivity, symmetry, transitivity of the value-level equality, its case-by-case structural characterisation (numbers numerically, char = one-element text, pairs component-wise, lists and concatenations as flat item sequences), negation, and the machine step replacing exactly the two operands by one boolean. Tied to equality.rs on both data implementations by the OP suite (complete type matrix + random trees with copies at different addresses, near-miss mutants in both orders, list-vs-concatenation spellings), with an independent Python normal-form oracle, symmetry and register-delta checks.',
   note='Trusted: Lean kernel; FloatEqLaws F (IEEE == laws, exact i32->f64) as hypotheses; value-level model tied by the OP suite; the register-stack work-list of perform_equality_check is observed through the register delta (its L2 refinement proof is future work). Domain excludes NaN, slices, partials.',
   ref='DESIGN.md §6 C11'),
 'C12': dict(
   technique='Lean 4 theorems: the four comparison operators of the model equal the Int / Nat / lexicographic order (cmpList = List <), foreign pairs are false, swap law under FloatOrderLaws; OP comparison suite + independent oracle on both stores',
   text='Theorems for all integers, all code points, all char/byte lists of any length: < <= > >= of the model decide exactly the natural order (cmpList xs ys = lt iff xs < ys in the lexicographic order with the shorter prefix first, by induction on the lists), trichotomy and <= = not > on every ordered pair, all four false on every foreign type pair (complete type square), unit on unordered floats, a < b iff b > a for mixed numbers under stated IEEE order laws. Tied to comparison.rs by the OP suite: numeric lattice incl. int/float neighbours, all string pairs <= 3 over {a,b,é} on both stores, random multi-byte strings, complete cross-type matrix; each also checked against an exact Python oracle.',
   note='Trusted: Lean kernel; FloatOrderLaws F hypotheses for mixed numbers; value-level model tied by the OP suite; slices outside the model.',
   ref='DESIGN.md §6 C12'),
 'C01': dict(
   technique='Lean 4 reference evaluator evalF (Spec/Eval.lean) + value-level abstract machine with per-construct execution theorems; PROG suite: the real lex/parse/build/execute pipeline vs evalF on generated ASTs, both stores, all inputs, scripted hosts',
   text='The meaning of a program is a Lean big-step evaluator over the AST (independent of lexer, parser, builder, bytecode); the VM is modelled value-level (Abs/Machine.lean) and kernel-checked theorems give, for all states and hosts, what each construct executes to (literals, $, binary operators incl. deferred ones, pairs, lists, `;`, identifier resolution = evalF resolveVal, apply/return frames, reapply, program end). The compile-correctness statement for all programs is stated (C01_compile_correct_statement) and not yet proved: until then every generated program (small-exhaustive + random, minimal parentheses) is run through the real pipeline on both stores with every input value and compared with evalF (value up to expression-table indices, host-call trace).',
   note='Partial: per-construct machine theorems, not yet the end-to-end compile theorem. Trusted: evalF as the statement of meaning; value-level operator semantics (tied by the OP matrix, related to exact specs by C09/C11/C12); generator printer; harness. Known finding: SimpleGarnishData symbol lists cannot hold numbers.',
   ref='DESIGN.md §6 C01'),
 'C06': dict(
   technique='Lean 4 theorems on the abstract machine: fixed arity of every operator outcome, call/return restores all three stacks, reapply and side-effect blocks run in constant depth; dynamic per-step depth monitor on every generated program (both stores)',
   text='Theorems for all machine states: every operator outcome (value, deferred, accepted) pushes exactly one operand; binary operators net -1; apply + EndExpression restore operand stack (result replaces the two operands, leftovers discarded), input-value stack and frame chain; `^~` replaces the input value in place, creates no frame; StartSideEffect/EndSideEffect are balanced. The all-paths statement over built programs is stated, not yet proved (needs the compile model); the RUN suite checks at every executed step of every generated program that the frame-relative operand count is a function of the instruction address, never negative and exactly 1 at EndExpression, and that completion leaves all stacks at their initial depths; reapply loops for iteration counts 0..N.',
   note='Partial: instruction-level balance theorems + dynamic monitor; static abstract interpretation over all paths (absDepth) not built yet. Programs with bare `;;` excluded as the property says.',
   ref='DESIGN.md §6 C06'),
 'C07': dict(
   technique='Lean 4 theorems: every Rust panic condition of number arithmetic is an explicit guard yielding none for all i32 (division by zero, MIN / -1, shift counts, negative exponents), positional access never leaves the sequence, step is total; regenerated panic-site inventory vs reviewed baseline; RUN/OP no-panic oracle on boundary programs',
   text='What a proof can carry here is the absence of the modelled panic conditions: C07_int_guards (all i32 operands), C07_index_guarded (all indexes, all lists), C07_step_outcomes. The tie to the code is (a) the panic-site inventory regenerated from the anchored files on every run and compared with a reviewed baseline, so a new unwrap / index / unreachable / unchecked arithmetic is an undischarged obligation, and (b) the oracle: 100k+ executions per quick run (boundary literals under every operator and in indexing, slicing, casting and range shapes; generated programs; deep nesting; the OP matrix) on both stores with callbacks absent / declining / accepting must never PANIC, ABORT or HANG.',
   note='Partial by nature: panics inside std or unmodelled code, allocation failure and stack exhaustion are runtime facts watched by the oracle only. Known finding: range-to-list cast with an astronomically large end never returns.',
   ref='DESIGN.md §6 C07'),
 'C13': dict(
   technique='Lean 4 theorems about a statement-level transliteration of lexer.rs (induction over the character list): lossless, no empty token, exact positions, foreign characters rejected, blank line separates, totality; operator table and Unicode classes regenerated from the Rust; LEX correspondence + oracle',
   text='For all strings and all character classifications satisfying three checked sanity facts: C13_lossless (token texts concatenate to the input), C13_nonempty, C13_positions_all (row/column of every token = position of its first character, CR included after the repair), C13_rejects_foreign / C13_error_sticky (a character that cannot start a token in NoToken state makes lex fail; a recorded error is never lost), C13_blank_line_separates_general (spaces/tabs before a blank line do not matter), lex_total (never panics, runs out of fuel only never). Longest match is partial (every table spelling is recognised with its type; an operator token ends only where no longer spelling continues). The model is tied to lexer.rs by ~160k LEX cases per quick run (exhaustive short strings over a class alphabet, all operator pairs, random token mixes) with zero disagreements and an independent oracle on the implementation.',
   note='Trusted: Lean kernel; transliteration Model/Lexer.lean as far as LEX exercises it; regenerated operator table and char-class ranges (dumped from Rust char methods); five lexer defects were repaired with fix: commits, the model follows the repaired code. Global form of foreign-character rejection and full longest-match are stated, not proved.',
   ref='DESIGN.md §6 C13'),
 'C15': dict(
   technique='Lean 4 refinement proof: BasicGarnishData heap (six growable blocks, reallocate, unchecked write) refines six independent tables for every history under progressing growth policies; SimpleGarnishData intern cache theorem; HEAP/CACHE correspondence cell by cell',
   text='heap_refines: for every operation history of any length, every initial size and every growth policy that makes progress (additive >= 1; multiplicative >= 2 from non-zero), the abstraction of the model heap equals the six-table specification, pushes never panic, and C15_read_back: an address returned earlier reads the same cell after any later history on any table (sorted symbol tables: the entry is still found). Witness theorems show why progress is needed. simple_intern: with the repaired cache_add (hit confirmed by comparison) equal constants share an address and different constants never do, existing cells never change. Tied to the code by exhaustive interleavings to length 6/7 x sizes {0,1,2} x policies, random and long histories, through read-only heap hooks, plus an implementation-only read-back oracle.',
   note='Trusted: Lean kernel; transliteration Store/BasicHeap.lean, Store/SimpleCache.lean tied by HEAP/CACHE; hooks verif_blocks/verif_cell; hash collision Float 1.5 / Integer -13291983 was a genuine defect, repaired.',
   ref='DESIGN.md §6 C15'),
 'C16': dict(
   technique='Lean 4 theorems on transliterations of both list implementations: Simple open-addressing placement + full-scan look-up, Basic association sort + binary search, index_list bounds; LIST correspondence at data and runtime level + item-list oracle',
   text='For all item lists and all symbols (no bound): simple_lookup and basic_lookup return exactly the value of the pair keyed by the symbol / absent, never an error, for every mix of keyed and unkeyed items with functional keys (address 0 and the 0 = empty convention included); binsearch_correct (loop invariant), sort_puts_assoc_first, nth in/out of range at runtime level on both stores, iteration = insertion order, concat_lookup. Tied to the code by ~17k lists x dozens of queries per quick run (exhaustive to length 4 over six item kinds x adversarial key schemes, random, concatenations) on both stores at data and runtime level, against the models and an oracle computed from the item list alone.',
   note='Trusted: Lean kernel; store-view hypotheses (ReadableS/ReadableB); transliteration Store/Lists.lean tied by LIST. Known finding: BasicGarnishData::get_list_item (data level) errs beyond the end, pinned by a repository test; the runtime masks it.',
   ref='DESIGN.md §6 C16'),
 'C17': dict(
   technique='Lean 4 theorems: Resolve consults the input value first, then the host exactly once, then unit; External apply calls the host exactly once with (number, argument); evalF emits the same calls; PROG trace oracle + operand-position templates under scripted recording hosts',
   text='Handler-level theorems for all states, symbols and hosts (C17_resolve_found_in_input, C17_resolve_protocol, C17_apply_external_protocol, C17_emptyApply_external, C17_evalF_resolve_calls) and, program level, the PROG oracle: the recorded resolve/apply/defer calls of the real pipeline equal evalF`s trace in order, count and arguments for generated programs with identifiers and applications, plus templates placing an identifier or external at every operand position (operators, lists, pairs, tests and arms, both sides of && and ||, nested bodies, side-effect blocks, after `;`, inside a reapply loop) x hosts {absent, declining, accepting} x inputs that do / do not contain the key; resolve on both stores, external apply on Basic.',
   note='Partial at program level until the compile theorem transfers evalF traces to compiled code for all programs. Trusted: recording host in the harness; evalF trace as specification.',
   ref='DESIGN.md §6 C17'),
 'C02': dict(
   technique='Lean 4: verified reference parser refParse over the language operator table (C02_refParse_precOK for every accepted token list) + bridge theorems regenerated-table = language-table; per-input validation toTree(implementation nodes) = refParse(tokens) through the verified tree conversion',
   text='"The tree the operator table dictates" is defined by a precedence-climbing reference parser in Lean over the committed language table; C02_refParse_precOK proves, for every token list it accepts (binary, prefix, suffix, implicit space list, comma list, conditionals, apply forms, groups, nested expressions, separators), that its tree satisfies the declarative precedence/associativity predicate PrecOK. C02_bridge_priority/definition/table (re-checked on every run against the tables regenerated from parser.rs) tie the language table to the code. The real parser is tied to it per input: for every ordered pair (quick) / triple (thorough) of operator token types around atoms with and without whitespace and random deeper expressions (61k+ token lists per quick run) the implementation`s own node array, converted by the verified toTree, must equal refParse`s tree; the statement-level parser model agrees with the implementation on the same inputs (PARSE suite).',
   note='Partial: the real parser is proved correct only through per-input validation (and on a binary-operator fragment when Lemmas/ParserInv is present); uniqueness of the PrecOK tree and in-order of refParse are stated, proved on fragments. Side-effect blocks and `;;` are outside the reference grammar. Equal-priority prefix/binary tie broken by the later operator`s class, as observed.',
   ref='DESIGN.md §6 C02, §11'),
 'C04': dict(
   technique='Lean 4 verified checker (properTree sound+complete, toTree, in-order order and coverage) run on the implementation`s own node dump for every input that parse and build accept; instruction-metadata attribution check; parse_safe',
   text='C04_properTree_sound/complete, C04_toTree_some_iff, C04_inorder_visits_all, C04_inorderSorted_iff are theorems about the checker for ALL parse results; the check feeds the real parser`s node array (137k token lists per quick run: exhaustive short token-class sequences, operator pairs/triples, random expressions, soups) to that checker whenever parse AND build accept, and additionally requires every reachable value/operator node to be attributed an emitted instruction in the build metadata. Two fix: commits made build reject improper trees and unscheduled nodes, after which no accepted input violates the property on the corpora.',
   note='The universal "parse yields a proper tree" is false for the parser alone (cyclic trees exist) and is enforced by build`s validation; it is certified per input. `significant` is a function of the token list validated empirically. Structural nodes (Group, List/CommaList, ElseJump, Subexpression) forward to their children and need no instruction of their own.',
   ref='DESIGN.md §6 C04, §11'),
 'C18': dict(
   technique='Lean 4 theorems on evalF: adding/removing a side-effect block with a pure body leaves value, input value and trace unchanged (all expressions); grouping is not a node of the semantics; metamorphic RUN+DUMP suite applies every rewrite at every applicable position',
   text='Semantic half proved for all expressions (C18_pure_side_effect, C18_remove_pure_side_effect, C18_literal_block). Syntactic half certified per program: for every generated program the real lexer`s token list is edited only at whitespace tokens (extra space/tab, doubled spaces, annotation, comment line, spaces before/inside a blank line, leading/trailing whitespace) — at every position for small programs — and the rewritten text must give the identical result, host-call trace and built instruction stream; wrapping complete operands in parentheses and hanging pure side-effect blocks on atoms must give the identical result.',
   note='Partial by design: no universal parser theorem for whitespace insensitivity (fragment lemmas in Props/C18Lex / C18Parse when present). Known finding: a side-effect block directly after a closed group is spliced inside the group.',
   ref='DESIGN.md §6 C18, §11'),
 'C20': dict(
   technique='Lean 4 theorems: build only appends and never patches earlier jump entries (build_appends_only on the builder model, all trees and start states); a program`s steps are unchanged in any extension of its object (C20_*_unchanged, extends_of_append); MULTI suite on both stores',
   text='Builder side: build_appends_only (Lemmas/Build.lean) — for every parse tree, fuel and non-empty initial object, the earlier instructions, constants and metadata are prefixes of the result and every earlier jump entry is unchanged. Machine side: what an instruction does depends only on the pieces it names, which an extension preserves. Tied to the code by BUILD with n_pre in {0,1,2} (model = implementation) and by MULTI: every order of 2..3 (quick) / 4 (thorough) programs built into one object with executions interleaved, each build must leave all earlier instructions / jump entries / constants unchanged and refer only to its own entries, and each program run from its reported entry must compute the value and trace it computes alone.',
   note='Trusted: builder transliteration tied by BUILD; SimpleGarnishData interning covered by C15 simple_intern.',
   ref='DESIGN.md §6 C20, §11'),
}
checks = []
na = []
for p in props:
    i = p['id']
    if i in CLAIMS:
        c = CLAIMS[i]
        checks.append({
            'property_id': i,
            'quick_cmd': f'./check {i} --tier quick',
            'thorough_cmd': f'./check {i} --tier thorough',
            'evidence_file': f'/verif/evidence/{i}.json',
            'replay_cmd_template': f'./check {i} --replay {{path}}',
            'engine': 'lean4+correspondence',
            'level_claimed': {'category': 'proof', 'text': c['text'], 'design_ref': c['ref']},
            'level_note': c['note'],
            'technique': c['technique'],
        })
    else:
        na.append({'property_id': i, 'reason': 'not yet claimed: the Lean model, theorems and correspondence suite for this property are still being built (see DESIGN.md §6); no property is inapplicable in principle'})
m = {
 'version': 1,
 'setup_cmd': './setup.sh',
 'hooks': {
   'guard': '--cfg garnish_verif',
   'enable': 'harness/.cargo/config.toml sets rustflags = ["--cfg", "garnish_verif"]; the harness crate path-depends on /repo/{traits,data,compiler,runtime}',
   'baseline_off_cmd': 'python3 /verif/tools/baseline.py /repo',
   'source_commits': [],
   'add_only': True,
 },
 'engines': [
   {'name': 'lean4+correspondence', 'path': '/verif/lean, /verif/harness, /verif/tools', 'serves_properties': [c['property_id'] for c in checks],
    'kind_free_text': 'Lean 4 model + kernel-checked theorems; tables regenerated from the Rust source; Rust harness running the real code and compiled Lean driver on the same case files; failing-input search with oracles'},
 ],
 'checks': checks,
 'not_applicable': na,
 'notes': 'See DESIGN.md. Every check regenerates tables from /repo, rebuilds the Lean theorems and the harness against the working tree, audits axioms, runs the correspondence suites and the property oracle, and writes evidence/<id>.json. known_findings.json lists genuine defects that were not repaired.',
}
json.dump(m, open(os.path.join(V, 'MANIFEST.json'), 'w'), indent=1, ensure_ascii=False)
print('claimed', [c['property_id'] for c in checks])
