#!/usr/bin/env python3
"""Run the repository's baseline test suite (guard off) and compare with /root/.vp/BASELINE.json.
Exit 0 iff every stable_pass test passes."""
import json, re, subprocess, sys, os
repo = sys.argv[1] if len(sys.argv) > 1 else '/repo'
base = json.load(open('/root/.vp/BASELINE.json'))
env = dict(os.environ, CARGO_NET_OFFLINE='true')
env.pop('RUSTFLAGS', None)
p = subprocess.run(['cargo', 'test', '--workspace', '--no-fail-fast', '--offline'], cwd=repo, env=env,
                   stdout=subprocess.PIPE, stderr=subprocess.STDOUT, text=True)
crate = None
passed, failed = set(), set()
for line in p.stdout.splitlines():
    m = re.search(r'Running (?:unittests )?(\S+) \(target/debug/deps/([A-Za-z0-9_]+)-[0-9a-f]+\)', line)
    if m:
        crate = m.group(2)
        src = m.group(1)
        continue
    m = re.search(r'Doc-tests (\S+)', line)
    if m:
        crate = None
        continue
    m = re.match(r'test (\S+) \.\.\. (ok|FAILED|ignored)', line)
    if m and crate:
        name = m.group(1)
        full = f'{crate}::{name}'
        if crate == 'mod':
            full = f'garnish_lang_tests::mod::{name}'
        (passed if m.group(2) == 'ok' else failed).add(full)
missing = [t for t in base['stable_pass'] if t not in passed]
print(f'passed={len(passed)} failed={len(failed)} stable_pass={len(base["stable_pass"])} missing={len(missing)}')
for t in missing[:40]:
    print('  MISSING', t, '(FAILED)' if t in failed else '')
sys.exit(1 if missing else 0)
