"""Parse-tree suites shared by C02 C03 C04 C05: PARSE on the implementation (token lists), BUILD on the implementation,
the implementation's own node dump through the verified checker (TREECHK) and the reference parser (REFPARSE)."""
import re
import vlib

STRUCTURAL = {'Group', 'ElseJump', 'CommaList', 'List', 'Subexpression'}   # nodes that forward to their children


def tok_text(c):
    return ' '.join(t.split(',', 1)[1] for t in c[2:])


def run_pipeline(cases, tag, stores=('simple',), build_deadline=2.0):
    """cases: ['PARSE', id, tok...]. Returns dict id -> {'parse': str, 'build': {store: str}}"""
    tagged = [c[:2] + ['!tokidx'] + c[2:] for c in cases]
    impl = vlib.run_impl(tagged, tag + 'p', per_case_s=5.0)
    out = {c[1]: {'parse': impl.get(c[1], 'missing'), 'build': {}} for c in cases}
    for st in stores:
        rows = [['BUILD', c[1], st, '0'] + c[2:] for c in cases if out[c[1]]['parse'].startswith('ok root=')]
        b = vlib.run_impl(rows, tag + 'b' + st, per_case_s=build_deadline)
        for r in rows:
            out[r[1]]['build'][st] = b.get(r[1], 'missing')
    return out


def treechk(cases, res, tag):
    """feed the implementation's node dumps to the verified checker; returns dict id -> fields"""
    chk = []
    for c in cases:
        r = res[c[1]]['parse']
        if not r.startswith('ok root='):
            continue
        parts = r.split('\t')
        root = parts[0][len('ok root='):]
        chk.append(['PARSE', c[1], '!treechk', root, str(len(parts) - 1)] + parts[1:] + c[2:])
    m = vlib.run_model(chk, tag + 'chk')
    out = {}
    for c in chk:
        line = m.get(c[1], '')
        out[c[1]] = dict(kv.split('=', 1) for kv in line.split(' ', 5) if '=' in kv)
        out[c[1]]['_raw'] = line
    return out


def refparse(cases, tag):
    rows = [['PARSE', c[1], '!refparse'] + c[2:] for c in cases]
    return vlib.run_model(rows, tag + 'ref')


def parse_build(line):
    """BUILD result -> (entry, instrs [(name, operand)], jumps [int], meta [int|None]) or None"""
    m = re.match(r'ok entry=(\d+) I=\[(.*)\] J=\[(.*)\] M=\[(.*)\]$', line, re.S)
    if not m:
        return None
    instrs = []
    for x in (m.group(2).split(';') if m.group(2) else []):
        name, _, op = x.partition(':')
        instrs.append((name, op if op != '' else None))
    # `<none>`: an entry below the reported jump-table length that the data object cannot read back (an ill-formed object)
    try:
        jumps = [int(x) for x in m.group(3).split(';') if x != '']
    except ValueError:
        return None
    meta = [None if x == '-' else int(x) for x in m.group(4).split(';') if x != '']
    return int(m.group(1)), instrs, jumps, meta


def nodes_of(parse_line):
    """PARSE (!tokidx) result -> (root, [(definition, parent, left, right)])"""
    parts = parse_line.split('\t')
    root = int(parts[0][len('ok root='):])
    nodes = []
    for n in parts[1:]:
        d, rest = n.split(',', 1)
        parent, left, right, _ = rest.split(',', 3)
        f = lambda x: None if x == '-' else int(x)
        nodes.append((d.split('/')[0], f(parent), f(left), f(right)))
    return root, nodes


def reachable(root, nodes):
    seen, st = set(), [root]
    while st:
        i = st.pop()
        if i in seen or i is None or i >= len(nodes):
            continue
        seen.add(i)
        st.append(nodes[i][2]); st.append(nodes[i][3])
    return seen
