"""Program-level suites (PROG / RUN / MULTI) shared by C01 C06 C07 C10 C17 C18 C20."""
import random, re
import vlib
from gen import proggen
from gen.siphash import symbol_value

RESOLVE = [('x', 40), ('count', 41)]
RES_FIELD = 'r:' + ','.join(f'{symbol_value(n)}={v}' for n, v in RESOLVE)
HOSTS = ['-', 'd0a0;x=40;count=41', 'd1a1;x=40;count=41']
STORES = ['simple', 'basic']


def canon(s):
    return re.sub(r'\(e \d+\)', '(e _)', s)


def parse_impl(r):
    """RUN/PROG result of the harness -> dict"""
    if r is None:
        return {'kind': 'missing'}
    m = re.match(r'ok (.*) steps=(\d+) regs=(-?\d+) vals=(-?\d+) frames=(-?\d+) depth=(\S+) log=(.*)$', r)
    if m:
        return {'kind': 'ok', 'value': m.group(1), 'steps': int(m.group(2)), 'regs': int(m.group(3)), 'vals': int(m.group(4)),
                'frames': int(m.group(5)), 'depth': m.group(6), 'log': m.group(7)}
    m = re.match(r'runerr@(\d+) (\S+) depth=(\S+) log=(.*?) msg=(.*)$', r)
    if m:
        return {'kind': 'runerr', 'step': int(m.group(1)), 'depth': m.group(3), 'log': m.group(4), 'msg': m.group(5)}
    m = re.match(r'steplimit depth=(\S+) log=(.*)$', r)
    if m:
        return {'kind': 'steplimit', 'depth': m.group(1), 'log': m.group(2)}
    return {'kind': r.split(' ')[0], 'raw': r}


def parse_spec(r):
    if r is None:
        return {'kind': 'missing'}
    m = re.match(r'ok (.*) log=(.*)$', r)
    if m:
        return {'kind': 'ok', 'value': m.group(1), 'log': m.group(2)}
    return {'kind': r.split(' ')[0], 'raw': r}


def prog_case(cases, store, src, inp, host, ast):
    cid = str(len(cases))
    cases.append(['PROG', cid, store, vlib.esc(src), inp, host, ast, RES_FIELD])
    return cid


def small_ops(tier):
    if tier == 'thorough':
        return {'pre': ['--', '!!'], 'bin': ['+', '-', '*', '<', '==', '.', '<~'], 'other': ['pair', 'slist', 'clist', 'cond', 'else', 'and', 'or', 'apply']}
    return {'pre': ['--', '!!'], 'bin': ['+', '*', '<', '=='], 'other': ['pair', 'slist', 'clist', 'cond', 'else', 'and', 'or', 'apply']}


def gen_programs(ctx, n_random, max_small_ops, extra_parens=False):
    """yields (src, ast, root, stream)"""
    rnd = random.Random(ctx.seed * 7919 + 13)
    out = []
    for root in proggen.enumerate_small(max_small_ops, small_ops(ctx.tier)):
        out.append((proggen.pp(root), proggen.program_term(root), root, f'small<={max_small_ops}'))
    for name, root in proggen.operator_pairs():
        out.append((proggen.pp(root), proggen.program_term(root), root, 'pairs'))
    for name, root in proggen.logic_shapes():
        out.append((proggen.pp(root), proggen.program_term(root), root, 'logic'))
    for name, root in proggen.loop_shapes():
        out.append((proggen.pp(root), proggen.program_term(root), root, 'loops'))
    for name, root in proggen.equality_shapes():
        out.append((proggen.pp(root), proggen.program_term(root), root, 'equality'))
    for _ in range(n_random):
        root = proggen.gen_program(rnd, rnd.randint(1, 4))
        src = proggen.pp(root, rnd if extra_parens else None)
        out.append((src, proggen.program_term(root), root, 'random'))
    return out


def compare_prog(ctx, cases, meta, impl, model, want_balance=True, log_check=True):
    """the C01-style oracle: value, host-call trace, stack balance. Returns (stats, disagreements)."""
    stats = {}
    # a run cut at the harness's default step budget while the reference evaluator finishes within its fuel says nothing
    # about termination: such cases are run again with an 80-fold budget before they are compared
    cut = [c for c in cases if parse_impl(impl.get(c[1]))['kind'] == 'steplimit' and parse_spec(model.get(c[1]))['kind'] == 'ok'][:200]
    if cut:
        again = vlib.run_impl(cut, 'steplimit-retry', per_case_s=60.0, extra_env={'GHARNESS_STEP_LIMIT': '400000'})
        for c in cut:
            if again.get(c[1]):
                impl[c[1]] = again[c[1]]
        stats['re-run with a larger step budget'] = len(cut)
    for c in cases:
        cid = c[1]
        pi, ps = parse_impl(impl.get(cid)), parse_spec(model.get(cid))
        src = vlib.unesc(c[3])
        key = None
        if pi['kind'] in ('PANIC', 'HANG', 'ABORT', 'missing', 'lexerr', 'parseerr', 'builderr'):
            key = pi['kind']
            ctx.fail('oracle', c, impl=impl.get(cid), model=model.get(cid), expect='a generated well-formed program compiles and runs',
                     note=f'pipeline outcome {pi["kind"]} on a generated well-formed program: {src!r}')
        elif ps['kind'] in ('BAD-CASE', 'missing', 'UNIMPLEMENTED'):
            key = 'spec-' + ps['kind']
            ctx.fail('corr', c, impl=impl.get(cid), model=model.get(cid), note='reference evaluator could not read the case')
        elif pi['kind'] == 'steplimit' or ps['kind'] == 'fuelout':
            key = 'diverges-both' if (pi['kind'] == 'steplimit' and ps['kind'] == 'fuelout') else 'diverges-one'
            if key == 'diverges-one':
                ctx.fail('oracle', c, impl=impl.get(cid), model=model.get(cid), expect=model.get(cid), note=f'termination differs from the reference evaluator: {src!r}')
        elif pi['kind'] == 'runerr':
            if ps['kind'] == 'err':
                key = 'error-both'
            else:
                key = 'runerr'
                ctx.fail('oracle', c, impl=impl.get(cid), model=model.get(cid), expect=model.get(cid),
                         note=f'execution failed where the reference evaluator assigns a value: {src!r} msg={pi.get("msg", "")}')
        elif ps['kind'] != 'ok':
            key = 'spec-err'
            ctx.fail('oracle', c, impl=impl.get(cid), model=model.get(cid), expect=model.get(cid), note=f'implementation yields a value where the reference evaluator reports an error: {src!r}')
        else:
            if canon(pi['value']) != canon(ps['value']):
                key = 'value'
                ctx.fail('oracle', c, impl=impl.get(cid), model=model.get(cid), expect=ps['value'], note=f'result differs from the reference evaluator: {src!r}')
            elif log_check and canon(pi['log']) != canon(ps['log']):
                key = 'trace'
                ctx.fail('oracle', c, impl=impl.get(cid), model=model.get(cid), expect=ps['log'], note=f'host calls (order, count, arguments) differ from the reference evaluator: {src!r}')
            elif want_balance and (pi['regs'], pi['vals'], pi['frames']) != (0, 1, 0):
                key = 'balance'
                ctx.fail('oracle', c, impl=impl.get(cid), model=model.get(cid), expect='regs=0 vals=1 frames=0', note=f'stacks not back at their initial depths after completion: {src!r}')
            elif want_balance and pi['depth'] != 'ok':
                key = 'depth'
                ctx.fail('oracle', c, impl=impl.get(cid), model=model.get(cid), expect='depth=ok', note=f'operand depth differs by path / is not 1 at an expression end: {src!r}')
            else:
                key = 'agree'
        stats[key] = stats.get(key, 0) + 1
    return stats


def feature_distribution(progs):
    acc = {}
    sizes = {}
    for src, ast, root, stream in progs:
        proggen.features(root, acc)
        n = proggen.count_ops(root)
        b = '0' if n == 0 else '1-3' if n <= 3 else '4-8' if n <= 8 else '9-20' if n <= 20 else '>20'
        sizes[b] = sizes.get(b, 0) + 1
    return {'constructs': acc, 'operator_nodes': sizes}
