"""OP suite runner shared by C07 C08 C10 C11 C12 C16: runs implementation and model, applies the documented
comparison limits, returns rows."""
import re
import vlib
from gen import opgen

FLOAT_RE = re.compile(r'^\(f ')
CMP_INSTRS = ('LessThan', 'LessThanOrEqual', 'GreaterThan', 'GreaterThanOrEqual')
SLICE_RE = re.compile(r'^\(sl \((cl|bl)[ \d]*\) \(r \(i (-?\d+)\) \(i (-?\d+)\)\)\)$')

# Documented limits of the value-level model: such cases are still executed on the implementation (no panic,
# no hang), but implementation and model are not compared on them.
def skip_reason(c):
    instr, store, a, b = c[3], c[2], c[5], c[6]
    if instr == 'ApplyType':
        return cast_skip_reason(store, a, b)
    if instr in CMP_INSTRS and a.startswith('(sl ') and b.startswith('(sl '):
        # the Slice/Slice arm of perform_comparison IS modelled (Abs/Ops.lean compareSlices): text against text and bytes against
        # bytes from non-negative integer starts whose extent does not overflow; every other pair of slices is "not ordered"
        ma, mb = SLICE_RE.match(a), SLICE_RE.match(b)
        if ma and mb and ma.group(1) == mb.group(1):
            for m in (ma, mb):
                s_, e_ = int(m.group(2)), int(m.group(3))
                if s_ < 0 or not (-2**31 <= e_ - s_ <= 2**31 - 1) or not (-2**31 <= e_ - s_ + 1 <= 2**31 - 1):
                    return 'slice with a negative start or an overflowing extent: the item getters of the two data implementations fail each in its own way'
            return None
        ka, kb = a.split(' ')[1].strip('()'), b.split(' ')[1].strip('()')
        if ka != kb or ka not in ('cl', 'bl'):
            return None
        return 'slice of text / bytes with a non-integer range'
    if '(sl ' in a or '(sl ' in b:
        return 'slices are not modelled at value level'
    if instr in ('Access', 'Apply') and FLOAT_RE.match(b):
        return 'fractional index: the two data implementations differ (Simple: data error, Basic: truncation)'
    if store == 'simple' and instr in ('Access', 'Apply'):
        ta, tb = opgen.type_of_term(a), opgen.type_of_term(b)
        if 'Number' in (ta, tb) and (ta in ('Symbol', 'SymbolList') or tb in ('Symbol', 'SymbolList')):
            return 'SimpleGarnishData symbol lists cannot hold numbers (data error)'
    return None


SYL_NUM_RE = re.compile(r'\(syl(?: \([sif] [^()]*\))*? \([if] ')


def cast_skip_reason(store, a, b):
    """ApplyType is compared with Abs/Casts.lean `castOp` (slices included); the exceptions, each for its reason"""
    target = opgen.target_type_of_term(b)
    if store == 'simple' and SYL_NUM_RE.search(a):
        return 'SimpleGarnishData symbol lists cannot hold numbers (the operand cannot be built: data error)'
    if store == 'basic' and target == 'ByteList' and a.startswith('(l ') and re.search(r'\(bl \d', a):
        return ('BasicGarnishData add_byte_list_from reads a nested byte list at heap-absolute instead of block-relative cells: '
                'the outcome (data error) depends on the heap layout (reported defect)')
    if target in ('CharList', 'Symbol') and '(f ' in a and opgen.type_of_term(a) != target:
        return "float -> text: Rust's f64 Display is not reproduced by the Lean driver (castOp takes it as the parameter showF)"
    return None


def parse_result(r):
    """ok <top> regs=<d> next=<n> vals=<d> frames=<k> log=<...>  ->  dict"""
    if r is None:
        return {'kind': 'missing'}
    if not r.startswith('ok '):
        return {'kind': r.split(' ')[0], 'raw': r}
    m = re.match(r'ok (.*) regs=(-?\d+) next=(\S+) vals=(-?\d+) frames=(\d+) log=(.*)$', r)
    if not m:
        return {'kind': 'unparsed', 'raw': r}
    return {'kind': 'ok', 'top': m.group(1), 'regs': int(m.group(2)), 'next': m.group(3), 'vals': int(m.group(4)),
            'frames': int(m.group(5)), 'log': [x for x in m.group(6).split(';') if x]}


def flat_syl(t):
    """a symbol list merged from symbol lists IS the flat list of the parts (that is what merge_to_symbol_list is for): the model
    is given the flat term, the implementation the merges in the order written"""
    while True:
        m = re.search(r'\(syl((?: \([a-z]+ [^()]*\))*) \(syl((?: \([a-z]+ [^()]*\))+)\)', t)
        if not m:
            return t
        t = t[:m.start()] + '(syl' + m.group(1) + m.group(2) + t[m.end():]


def flat_syl_case(c):
    return c[:5] + [flat_syl(x) if isinstance(x, str) and x.count('(syl') > 1 else x for x in c[5:]]


def run(cases, tag, drv_ok=True):
    impl = vlib.run_impl(cases, tag, per_case_s=5.0)
    model = vlib.run_model([flat_syl_case(c) for c in cases], tag) if drv_ok else {}
    rows = []
    for c in cases:
        rows.append((c, impl.get(c[1]), model.get(c[1]), skip_reason(c)))
    return rows


def operands(c):
    """(left, right) in source order"""
    return (c[6], c[5]) if c[3] == 'MakePair' else (c[5], c[6])
