#!/usr/bin/env python3
"""Translator: regenerates the Lean tables under <lean>/Garnish/Gen/ from the Rust source of <repo>.
usage: gen_tables.py <repo> <leandir>.  Exit 1 if a construct can no longer be read (a broken tie).
Each generator lives in tools/gen/<name>_tables.py and exposes generate(repo) -> {relative lean path: text}.
Files are only rewritten when their content changes (keeps lake's incremental build quiet)."""
import importlib, json, os, sys, traceback
HERE = os.path.dirname(os.path.abspath(__file__))
sys.path.insert(0, HERE)
GENERATORS = ['enums', 'lex', 'parse', 'runtime']


def main():
    repo, lean = sys.argv[1], sys.argv[2]
    ok = True
    tables = {}
    for g in GENERATORS:
        modp = os.path.join(HERE, 'gen', f'{g}_tables.py')
        if not os.path.exists(modp):
            continue
        try:
            mod = importlib.import_module(f'gen.{g}_tables')
            files, js = mod.generate(repo)
        except Exception as e:
            ok = False
            print(f'GEN {g} FAILED')
            print(f'gen_tables: generator {g} FAILED: {e}')
            traceback.print_exc()
            continue
        print(f'GEN {g} OK')
        tables[g] = js
        for rel, text in files.items():
            p = os.path.join(lean, rel)
            os.makedirs(os.path.dirname(p), exist_ok=True)
            old = open(p, encoding='utf-8').read() if os.path.exists(p) else None
            if old != text:
                open(p, 'w', encoding='utf-8').write(text)
                print(f'gen_tables: wrote {rel}' + (' (changed)' if old is not None else ' (new)'))
    outj = os.path.join(os.path.dirname(HERE), '.work')
    os.makedirs(outj, exist_ok=True)
    json.dump(tables, open(os.path.join(outj, 'tables.json'), 'w'), indent=1)
    sys.exit(0 if ok else 1)


if __name__ == '__main__':
    main()
