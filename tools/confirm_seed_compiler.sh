#!/bin/sh
# confirm_seed_compiler.sh <worktree>: like confirm_seed.sh for a demonstration that is an integration test of the compiler crate
# (copied to compiler/tests/, run with cargo test -p garnish_lang_compiler --test <name>)
WT="$1"; cd "$WT" || exit 2
DEMO=$(ls MUTANT/demo/*.rs | head -1); NAME=$(basename "$DEMO" .rs)
git diff -- . ':!MUTANT' ':!compiler/tests' > /tmp/confirmc_$NAME.diff
B1=$(python3 /verif/tools/baseline.py "$WT" | head -1)
mkdir -p compiler/tests; cp "$DEMO" compiler/tests/$NAME.rs
W=$(cargo test -p garnish_lang_compiler --test $NAME --offline 2>&1 | grep -E "^test result" | tail -1)
git apply -R /tmp/confirmc_$NAME.diff
WO=$(cargo test -p garnish_lang_compiler --test $NAME --offline 2>&1 | grep -E "^test result" | tail -1)
rm -f compiler/tests/$NAME.rs; rmdir compiler/tests 2>/dev/null
B0=$(python3 /verif/tools/baseline.py "$WT" | head -1)
git apply /tmp/confirmc_$NAME.diff
echo "baseline_with_change: $B1"
echo "baseline_without:     $B0"
echo "demo_with_change:     $W (cargo test -p garnish_lang_compiler --test $NAME, demo copied to compiler/tests/)"
echo "demo_without:         $WO"
