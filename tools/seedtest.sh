#!/bin/sh
# seedtest.sh <worktree-with-mutant-applied> <PROP>...  — run checks against a scratch worktree (self-test of the machinery).
# Builds a private copy of the harness against that tree; evidence/replays of these runs go to a scratch directory.
set -e
WT="$1"; shift
NAME=$(basename "$WT")
H=/tmp/seedwork/harness-$NAME
mkdir -p "$H"
rsync -a --exclude target /verif/harness/ "$H/"
sed -i "s#/repo/#$WT/#g" "$H/Cargo.toml"
# a private copy of the Lean tree (with its build output): a change that edits a table regenerates Garnish/Gen/*.lean, which
# must not happen in /verif/lean while other checks or proof work use it
L=/tmp/seedwork/lean-$NAME
rsync -a --delete /verif/lean/ "$L/" || [ $? -eq 24 ]      # 24: a file vanished while another build was writing it
export VERIF_REPO="$WT" VERIF_HARNESS="$H" VERIF_OUT=/tmp/seedwork/out-$NAME VERIF_WORK=/tmp/seedwork/work-$NAME VERIF_LEAN="$L"
mkdir -p "$VERIF_OUT" "$VERIF_WORK"
for P in "$@"; do
  (cd /verif && ./check "$P" 2>/dev/null | grep -E "VIOLATION|KNOWN-FINDING|^C[0-9]+:" | cut -c1-220) || true
done
rm -rf "$L"
