"""Shared machinery of /verif/check: builds, supervised execution of the Rust harness, the Lean driver,
known findings, replays, evidence."""
import hashlib, json, os, re, resource, select, subprocess, sys, threading, time

VERIF = os.path.dirname(os.path.dirname(os.path.abspath(__file__)))
REPO = os.environ.get('VERIF_REPO', '/repo')
LEAN = os.environ.get('VERIF_LEAN', os.path.join(VERIF, 'lean'))     # VERIF_LEAN: private copy for self-tests against scratch worktrees
# self-test overrides (seeded-mutant runs against a scratch worktree without touching /repo or the committed evidence):
#   VERIF_REPO = source tree, VERIF_HARNESS = a copy of harness/ whose path dependencies point at that tree,
#   VERIF_OUT = where evidence/ and replays/ are written, VERIF_WORK = scratch directory
HARNESS = os.environ.get('VERIF_HARNESS', os.path.join(VERIF, 'harness'))
OUT = os.environ.get('VERIF_OUT', VERIF)
WORK = os.environ.get('VERIF_WORK', os.path.join(VERIF, '.work'))
HBIN = os.path.join(HARNESS, 'target', 'debug', 'gharness')
DRV = os.path.join(LEAN, '.lake', 'build', 'bin', 'garnish-drv')
NCPU = min(16, os.cpu_count() or 4)
ALLOWED_AXIOMS = {'propext', 'Classical.choice', 'Quot.sound'}


def log(*a):
    print(*a, file=sys.stderr, flush=True)


def sh(cmd, cwd=None, timeout=3600, env=None):
    e = dict(os.environ)
    e['CARGO_NET_OFFLINE'] = 'true'
    if env:
        e.update(env)
    p = subprocess.run(cmd, cwd=cwd, stdout=subprocess.PIPE, stderr=subprocess.STDOUT, text=True, timeout=timeout,
                       env=e, shell=isinstance(cmd, str))
    return p.returncode, p.stdout


# ------------------------------------------------------------------ builds

_lock_path = os.path.join(WORK, 'build.lock')


class BuildLock:
    def __enter__(self):
        import fcntl
        os.makedirs(WORK, exist_ok=True)
        self.f = open(_lock_path, 'w')
        fcntl.flock(self.f, fcntl.LOCK_EX)

    def __exit__(self, *a):
        import fcntl
        fcntl.flock(self.f, fcntl.LOCK_UN)
        self.f.close()


def gen_tables():
    """regenerate Garnish/Gen/Tables.lean from /repo's working tree; returns (ok, log)"""
    gt = os.path.join(VERIF, 'tools', 'gen_tables.py')
    if not os.path.exists(gt):
        return True, ''
    rc, out = sh([sys.executable, gt, REPO, LEAN])
    return rc == 0, out


def build_lean(targets):
    with BuildLock():
        rc, out = sh(['lake', 'build'] + targets, cwd=LEAN, timeout=3000)
    return rc == 0, out


def build_harness():
    with BuildLock():
        lock_src = os.path.join(REPO, 'Cargo.lock')
        lock_dst = os.path.join(HARNESS, 'Cargo.lock')
        if not os.path.exists(lock_dst) and os.path.exists(lock_src):
            import shutil
            shutil.copy(lock_src, lock_dst)
        rc, out = sh(['cargo', 'build', '--offline'], cwd=HARNESS, timeout=3000)
    return rc == 0, out


# which regenerated tables each property's model, theorems or generators use (enums: every Lean file)
GEN_DEPENDS = {
    'C01': ['enums', 'parse'], 'C02': ['enums', 'lex', 'parse'], 'C03': ['enums', 'lex', 'parse'], 'C04': ['enums', 'lex', 'parse'],
    'C05': ['enums', 'parse'], 'C06': ['enums'], 'C07': ['enums'], 'C08': ['enums'],
    'C09': ['enums'], 'C10': ['enums', 'runtime'], 'C11': ['enums'], 'C12': ['enums'],
    'C13': ['enums', 'lex'], 'C14': ['enums', 'lex'], 'C15': ['enums'], 'C16': ['enums'],
    'C17': ['enums'], 'C18': ['enums', 'lex', 'parse'], 'C19': ['enums'], 'C20': ['enums', 'parse'],
}

# extra property modules per property: (module under Garnish.Props, namespace to list, regex on the short name or None)
AUDIT_EXTRA = {
    'C05': [('SourceProps', 'Garnish.Props.SourceProps', r'^C05_')],
    'C14': [('SourceProps5', 'Garnish.Props.SourceProps', r'^C14_'), ('C14Lex', 'Garnish.Props.C14Lex', r'^(C14_|lex_|toP_binop|two_|three_|escaped_|double_|trailing_|asciiCC_lit|opTok_spelled)')],
    'C19': [('C19Store', 'Garnish.Props.C19Store', None), ('C19StoreOn', 'Garnish.Props.C19StoreOn', None), ('C19ListOn', 'Garnish.Props.C19ListOn', r'^(basic_makeList_law|listLaw|binvL_init)$'), ('C19StoreOnL', 'Garnish.Props.C19StoreOnL', r'^basicStore_'), ('C19MakeList', 'Garnish.Props.C19MakeList', r'^basic_makeListPop_law$'), ('C19NoStale', 'Garnish.Props.C19NoStale', r'^(optimize_|noDangling_|frameCell)')],
    'C15': [('C15Reach', 'Garnish.Props.C15Reach', None), ('RuntimeRefineSimple2', 'Garnish.Props.RuntimeRefine', r'^C15_'), ('RuntimeRefineSimple3', 'Garnish.Props.RuntimeRefine', r'^C15_')],
    'C01': [('C01Compile', 'Garnish.Props.C01', None), ('C01Build', 'Garnish.Props.C01Build', None), ('C01Source', 'Garnish.Props.C01Source', None), ('C02Numbered', 'Garnish.Props.C02Numbered', r'^C01_'), ('C01Text', 'Garnish.Props.C01Text', None), ('C01Blocks', 'Garnish.Props.C01Blocks', None), ('RuntimeRefineStep', 'Garnish.Props.RuntimeRefine', r'^C01_'), ('C02Support', 'Garnish.Props.C02Support', r'^C01_'), ('SourceProps', 'Garnish.Props.SourceProps', r'^C01_'), ('RuntimeRefineStepFull', 'Garnish.Props.RuntimeRefine', r'^C01_'), ('RuntimeRefineRun', 'Garnish.Props.RuntimeRefine', r'^C01_'), ('C01TextStore', 'Garnish.Props.C01TextStore', None), ('RuntimeRefineCast', 'Garnish.Props.RuntimeRefine', r'^(C01_refine_(step|handler)_applyType|handlerSim_of_refinesCast)$'), ('C19Store', 'Garnish.Props.C19Store', r'^(basicStore_|decodes_of_unfold$)'), ('SourceProps5', 'Garnish.Props.SourceProps', r'^C01_'), ('RuntimeRefineSimple', 'Garnish.Props.RuntimeRefine', r'^C01_'), ('RuntimeRefineSimple2', 'Garnish.Props.RuntimeRefine', r'^C01_'), ('C01TextStoreSimple', 'Garnish.Props.C01TextStore', r'^C01_'), ('RuntimeRefineSimpleOn', 'Garnish.Props.RuntimeRefine', r'^C01_'), ('RuntimeRefineOn', 'Garnish.Props.RuntimeRefine', r'^C01_'), ('C01TextStoreOn', 'Garnish.Props.C01TextStore', r'^C01_'), ('RuntimeRefineOn1', 'Garnish.Props.RuntimeRefine', r'^C01_'), ('RuntimeRefineOn1', 'Garnish.Props.C01TextStore', r'^C01_'), ('RuntimeRefineOn2', 'Garnish.Props.RuntimeRefine', r'^C01_'), ('RuntimeRefineOn2', 'Garnish.Props.C01TextStore', r'^C01_'), ('C19StoreOn', 'Garnish.Props.C19StoreOn', r'^(basicStore_|basic_)'), ('RuntimeRefineOn3', 'Garnish.Props.RuntimeRefine', r'^C01_'), ('RuntimeRefineOn3', 'Garnish.Props.C01TextStore', r'^C01_'), ('RuntimeRefineOn4', 'Garnish.Props.RuntimeRefine', r'^C01_'), ('RuntimeRefineOn4', 'Garnish.Props.C01TextStore', r'^C01_'), ('RuntimeRefineOnBalanced', 'Garnish.Props.RuntimeRefine', r'^C01_'), ('C01TextStoreOnBalanced', 'Garnish.Props.C01TextStore', r'^C01_'), ('RuntimeRefineNoCustom', 'Garnish.Props.RuntimeRefine', r'^C01_'), ('C01TextStoreOnBalancedFull', 'Garnish.Props.C01TextStore', r'^C01_'), ('C01TextStoreOnBy', 'Garnish.Props.C01TextStore', r'^C01_'), ('C01BuilderAddresses', 'Garnish.Props.C01TextStore', r'^real_|^reloc_'), ('RuntimeRefineNoHcalls', 'Garnish.Props.RuntimeRefine', r'^C01_'), ('RuntimeRefineNoHcalls', 'Garnish.Props.C01TextStore', r'^C01_'), ('C01TextStoreStatic', 'Garnish.Props.C01TextStore', r'^C01_text_to_simple_store_(static|scalar)'), ('C01TextStoreStaticEx', 'Garnish.Props.C01TextStore', r'^(cond_static|nested_static|cond_static_scalar)$'), ('C01TextStoreScalar', 'Garnish.Props.C01TextStore', r'^C01_text_to_simple_store_scalar'), ('C01TextStoreScalarEx', 'Garnish.Props.C01TextStore', r'^(cond_static|nested_static|cond_static_scalar)$'), ('C01TextStoreOwn', 'Garnish.Props.C01TextStore', r'^(C01_builder_run_agrees|C01_text_to_simple_store_own|C01_text_to_simple_store_own_leaf|buildText_consts_leaf|hitEq_sound|cellEqB_eq|real_equal_literals_own|real_unit_literal_own)$'), ('C19ListOn', 'Garnish.Props.C19ListOn', r'^(basic_makeList_law|listLaw|binvL_init)$'), ('C19MakeList', 'Garnish.Props.C19MakeList', r'^basic_makeListPop_law$'), ('C19NoStale', 'Garnish.Props.C19NoStale', r'^(optimize_|noDangling_|frameCell)'), ('RuntimeRefineOnL', 'Garnish.Props.RuntimeRefine', r'^C01_refine_(step|run)_on(L|_basic)'), ('C01RefineBasic', 'Garnish.Props.RuntimeRefine', r'^(C01_refine_step_on_basic|basic_shadow_laws|basic_storeLawsOnL)'), ('ListSymRun', 'Garnish.Props.ListSymRun', r'^ListSymRun_'), ('ListSymText', 'Garnish.Props.ListSymText', r'^ListSym_'), ('C01BasicAddresses', 'Garnish.Props.C01TextStore', r'^(C01_basic_builder_run_agrees|basic_real_equal_literals|basic_real_unit_literal|basic_real_nested|basic_real_footprints|basic_real_symbol_text)$'), ('C01RefineBasicList', 'Garnish.Props.RuntimeRefine', r"^(C01_basic_storeLawsOnL|C01_refine_step_on_basic_makeList'|C01_refine_run_on_basic'|basic_listPopLaw)$"), ('C01RefineBasicLen', 'Garnish.Props.RuntimeRefine', r'^C01_refine_step_on_basic_accessLength$')],
    'C06': [('C06Static', 'Garnish.Props.C06', None), ('RuntimeRefineData', 'Garnish.Props.RuntimeRefine', r'^C06_'), ('SourceProps', 'Garnish.Props.SourceProps', r'^C06_'), ('RuntimeRefineSimple2', 'Garnish.Props.RuntimeRefine', r'^C06_'), ('RuntimeRefineOnBalanced', 'Garnish.Props.RuntimeRefine', r'^C06_'), ('C19NoStale', 'Garnish.Props.C19NoStale', r'^(optimize_|noDangling_|frameCell)')],
    'C10': [('C01Compile', 'Garnish.Props.C01', r'^(C10_|C01_compile_correct$)'), ('C10Compile', 'Garnish.Props.C10', None), ('RuntimeRefineLogic', 'Garnish.Props.RuntimeRefine', r'^C10_'), ('SourceProps', 'Garnish.Props.SourceProps', r'^C10_')],
    'C17': [('C01Compile', 'Garnish.Props.C01', r'^(C17_|C01_compile_correct$|compile_env$)'), ('RuntimeRefineAccess', 'Garnish.Props.RuntimeRefine', r'^C17_'), ('RuntimeRefineApply', 'Garnish.Props.RuntimeRefine', r'^C17_'), ('SourceProps', 'Garnish.Props.SourceProps', r'^C17_'), ('RuntimeRefineTrace', 'Garnish.Props.RuntimeRefine', r'^C17_'), ('RuntimeRefineRunTrace', 'Garnish.Props.RuntimeRefine', r'^C17_'), ('RuntimeRefineRunTrace', 'Garnish.Props.C01TextStore', r'^C17_')],
    'C11': [('C11Refine', 'Garnish.Props.C11Refine', None), ('RuntimeRefineInternals', 'Garnish.Props.RuntimeRefine', r'^C11_'), ('SourceProps5', 'Garnish.Props.SourceProps', r'^C11_'), ('C14Lex', 'Garnish.Props.C14Lex', r'^C11_')],
    'C18': [('C18Lex', 'Garnish.Props.C18Lex', None), ('C18Parse', 'Garnish.Props.C18Parse', None), ('C02Parse', 'Garnish.Props.C02Parse', r'^C18_'), ('C18Text', 'Garnish.Props.C18Text', None), ('C02Support', 'Garnish.Props.C02Support', r'^C18_'), ('C18Text2', 'Garnish.Props.C18Text2', None), ('C18Text3', 'Garnish.Props.C18Text3', None), ('C18Wrap', 'Garnish.Props.C18Wrap', None), ('C18Text4', 'Garnish.Props.C18Text4', None), ('C18WrapResult', 'Garnish.Props.C18WrapResult', r'^C18_'), ('C18Text5', 'Garnish.Props.C18Text5', r'^C18_'), ('C18WrapResult2', 'Garnish.Props.C18WrapResult', r'^C18_'), ('C18Text6', 'Garnish.Props.C18Text6', r'^(C18_|C01_text_correct_ex|exFrag_)'), ('C18Text7', 'Garnish.Props.C18Text7', r'^(C18_|exFrag_)')],
    'C02': [('C02Parse', 'Garnish.Props.C02Parse', r'^C02_'), ('C02Numbered', 'Garnish.Props.C02Numbered', r'^C02_'), ('C02Frag10', 'Garnish.Props.C02Frag10', None), ('C02Support', 'Garnish.Props.C02Support', r'^(frag9|fragBlocks|refParse_|C02_)'), ('C02Blocks', 'Garnish.Props.C02Blocks', None), ('C02BlocksB', 'Garnish.Props.C02BlocksB', r'^(C02_|exNested_)'), ('C02BlocksC', 'Garnish.Props.C02BlocksC', r'^(C02_|ex1p23_)')],
    'C04': [('C02Parse', 'Garnish.Props.C02Parse', r'^C04_'), ('C04Build', 'Garnish.Props.C04Build', None), ('C04Order', 'Garnish.Props.C04Order', None), ('C04Eval', 'Garnish.Props.C04Order', None), ('C04OrderEx', 'Garnish.Props.C04Order', None), ('C04Source', 'Garnish.Props.C04Source', None), ('SourceProps', 'Garnish.Props.SourceProps', r'^C04_'), ('C04Eval2','Garnish.Props.C04Order',None), ('C04Eval3','Garnish.Props.C04Order',None), ('C04Eval4','Garnish.Props.C04Order',None), ('C04Eval5','Garnish.Props.C04Order',None)],
    'C03': [('C03Lex', 'Garnish.Props.C03Lex', None)],
    'C20': [('C20Compile', 'Garnish.Props.C20', None), ('SourceProps', 'Garnish.Props.SourceProps', r'^C20_')],
    'C08': [('C08Casts', 'Garnish.Props.C08Casts', r'^cast_'), ('RuntimeRefineArith', 'Garnish.Props.RuntimeRefine', r'^C08_'), ('RuntimeRefineData', 'Garnish.Props.RuntimeRefine', r'^C08_'), ('RuntimeRefineAccess', 'Garnish.Props.RuntimeRefine', r'^C08_'), ('RuntimeRefineApply', 'Garnish.Props.RuntimeRefine', r'^C08_'), ('RuntimeRefineInternals', 'Garnish.Props.RuntimeRefine', r'^C08_'), ('RuntimeRefineCast', 'Garnish.Props.RuntimeRefine', r'^C08_refine_type_cast')],
    'C09': [('C09Laws', 'Garnish.Props.C09Laws', r'^C09_'), ('C09Laws2', 'Garnish.Props.C09Laws', r'^C09_int_(div|multiply_zero|subtract_self)'), ('C09Laws3', 'Garnish.Props.C09Laws', r'^C09_int_(power|shift|increment)'), ('C09Laws4', 'Garnish.Props.C09Laws', r'^C09_int_absoluteValue'), ('RuntimeRefineArith', 'Garnish.Props.RuntimeRefine', r'^C09_'), ('SourceProps5', 'Garnish.Props.SourceProps', r'^C09_'), ('C14Lex', 'Garnish.Props.C14Lex', r'^C09_')],
    'C12': [('C12Laws', 'Garnish.Props.C12Laws', r'^C12_'), ('C12Laws2', 'Garnish.Props.C12Laws', r'^C12_'), ('C12Laws3', 'Garnish.Props.C12Laws', r'^C12_'), ('RuntimeRefineCompare', 'Garnish.Props.RuntimeRefine', r'^C12_'), ('SourceProps5', 'Garnish.Props.SourceProps', r'^C12_'), ('C14Lex', 'Garnish.Props.C14Lex', r'^C12_')],
    'C16': [('RuntimeRefineAccess', 'Garnish.Props.RuntimeRefine', r'^C16_'), ('RuntimeRefineConcat', 'Garnish.Props.RuntimeRefine', r'^C16_'), ('RuntimeRefineMakeList', 'Garnish.Props.RuntimeRefine', r'^C16_'), ('RuntimeRefineInternals', 'Garnish.Props.RuntimeRefine', r'^C16_'), ('ListSymSimple', 'Garnish.Props.ListSymSimple', r'^ListSym_'), ('C19ListOn', 'Garnish.Props.C19ListOn', r'^(basic_makeList_law|listLaw|binvL_init)$'), ('ListSymRun', 'Garnish.Props.ListSymRun', r'^ListSymRun_'), ('ListSymText', 'Garnish.Props.ListSymText', r'^ListSym_')],
    'C07': [('C08Casts', 'Garnish.Props.C08Casts', r'^C07_'), ('C07Access', 'Garnish.Props.C07Access', None), ('C07Reach', 'Garnish.Props.C07Reach', r'^(C07_|run_|accessSafe_|wf_implies|toAccessHeap_)'), ('C07ReachV', 'Garnish.Props.C07ReachV', r'^(C07_|runV_|WFq_|wfq_|stepV_|run_runV)'), ('C07ReachSimple', 'Garnish.Props.C07ReachSimple', r'^(C07_|simple_run_|step_safe)'), ('ListSymSimple', 'Garnish.Props.ListSymSimple', r'^ListSym_'), ('ListSymRun', 'Garnish.Props.ListSymRun', r'^ListSymRun_'), ('ListSymText', 'Garnish.Props.ListSymText', r'^ListSym_')],
}


def audit_modules(prop):
    return [f'Garnish.Props.{prop}'] + [f'Garnish.Props.{m}' for m, _, _ in AUDIT_EXTRA.get(prop, []) if os.path.exists(os.path.join(LEAN, 'Garnish', 'Props', m + '.lean'))]


def audit(prop):
    """axioms + statements of every theorem in Garnish.Props.<prop> (and the extra modules of AUDIT_EXTRA); returns (ok, list[dict], log)"""
    specs = [(prop, f'Garnish.Props.{prop}', None)] + [e for e in AUDIT_EXTRA.get(prop, []) if os.path.exists(os.path.join(LEAN, 'Garnish', 'Props', e[0] + '.lean'))]
    mods = []
    for m, _, _ in specs:
        if m not in mods:
            mods.append(m)
    nss = []
    for _, ns, _ in specs:
        if ns not in nss:
            nss.append(ns)
    src = ''.join(f'import Garnish.Props.{m}\n' for m in mods) + 'import Garnish.Audit\n' + ''.join(f'#eval Garnish.Audit.run `{ns}\n' for ns in nss)
    os.makedirs(WORK, exist_ok=True)
    path = os.path.join(WORK, f'audit_{prop}.lean')
    open(path, 'w').write(src)
    rc, out = sh(['lake', 'env', 'lean', path], cwd=LEAN, timeout=1200)
    thms = []
    seen = set()
    for line in out.splitlines():
        if line.startswith('AUDIT\t'):
            _, name, kind, axioms, stmt = line.split('\t', 4)
            if name in seen:
                continue
            short = name.rsplit('.', 1)[-1]
            ns = name.rsplit('.', 1)[0]
            keep = False
            for _, sns, flt in specs:
                if name.startswith(sns + '.') and (flt is None or re.search(flt, short)):
                    keep = True
            if not keep:
                continue
            seen.add(name)
            thms.append({'name': name, 'kind': kind, 'axioms': [a for a in axioms.split(',') if a], 'statement': stmt})
    return rc == 0, thms, out


def grep_audit():
    """forbidden constructs in the Lean sources theorems depend on"""
    bad = []
    pat = re.compile(r'\bsorry\b|\badmit\b|^axiom |native_decide|bv_decide|implemented_by|\bunsafe |maxHeartbeats 0')
    # the sources every theorem can depend on: everything reachable through `import Garnish.…` from the library root and from
    # the driver (a file nobody imports — work in progress — proves nothing and is not part of the deliverable's trusted text)
    reach, todo = set(), [os.path.join(LEAN, 'Garnish.lean'), os.path.join(LEAN, 'Main.lean')]
    while todo:
        q = todo.pop()
        if q in reach or not os.path.exists(q):
            continue
        reach.add(q)
        for line in open(q, encoding='utf-8'):
            m = re.match(r'\s*(?:public\s+)?import\s+(Garnish(?:\.[A-Za-z0-9_]+)*)', line)
            if m:
                todo.append(os.path.join(LEAN, *m.group(1).split('.')) + '.lean')
    for root, _, files in os.walk(LEAN):
        if os.sep + '.lake' in root:
            continue
        for f in files:
            if not f.endswith('.lean'):
                continue
            p = os.path.join(root, f)
            if p not in reach:
                continue
            in_block = False
            for n, line in enumerate(open(p, encoding='utf-8'), 1):
                s = line
                if in_block:
                    if '-/' in s:
                        in_block = False
                        s = s.split('-/', 1)[1]
                    else:
                        continue
                if '/-' in s and '-/' not in s.split('/-', 1)[1]:
                    in_block = True
                    s = s.split('/-', 1)[0]
                s = re.sub(r'/-.*?-/', '', s)
                s = s.split('--', 1)[0]
                if pat.search(s):
                    bad.append(f'{os.path.relpath(p, LEAN)}:{n}: {line.strip()}')
    return bad


# ------------------------------------------------------------------ case files

def esc(s):
    out = []
    for c in s:
        o = ord(c)
        if c == '\\':
            out.append('\\\\')
        elif c == '\t':
            out.append('\\t')
        elif c == '\n':
            out.append('\\n')
        elif c == '\r':
            out.append('\\r')
        elif o < 0x20 or o == 0x7f:
            out.append('\\x%02x' % o)
        else:
            out.append(c)
    return ''.join(out)


def unesc(s):
    out = []
    i = 0
    while i < len(s):
        c = s[i]
        if c == '\\' and i + 1 < len(s):
            d = s[i + 1]
            if d == '\\':
                out.append('\\'); i += 2
            elif d == 't':
                out.append('\t'); i += 2
            elif d == 'n':
                out.append('\n'); i += 2
            elif d == 'r':
                out.append('\r'); i += 2
            elif d == 'x':
                out.append(chr(int(s[i + 2:i + 4], 16))); i += 4
            else:
                out.append(d); i += 2
        else:
            out.append(c); i += 1
    return ''.join(out)


def write_cases(path, cases):
    """cases: list of lists of already-escaped string fields [suite, id, ...]"""
    with open(path, 'w', encoding='utf-8') as f:
        for c in cases:
            f.write('\t'.join(c))
            f.write('\n')


def _limit():
    # 4 GiB address space per worker: runaway allocation aborts instead of exhausting the sandbox
    resource.setrlimit(resource.RLIMIT_AS, (4 << 30, 4 << 30))


def _supervise(binary, shard_path, ids, per_case_s, results, extra_env=None):
    pos = 0
    n = len(ids)
    env = dict(os.environ)
    if extra_env:
        env.update(extra_env)
    while pos < n:
        proc = subprocess.Popen([binary, shard_path, '--start', str(pos)], stdout=subprocess.PIPE,
                                stderr=subprocess.DEVNULL, preexec_fn=_limit, env=env)
        fd = proc.stdout.fileno()
        buf = b''
        last = time.time()
        hang = False
        while True:
            r, _, _ = select.select([fd], [], [], 0.25)
            if r:
                chunk = os.read(fd, 1 << 16)
                if not chunk:
                    break
                buf += chunk
                if b'\n' in buf:
                    lines = buf.split(b'\n')
                    buf = lines[-1]
                    for ln in lines[:-1]:
                        s = ln.decode('utf-8', 'replace')
                        i = s.find('\t')
                        if pos < n:
                            results[ids[pos]] = s[i + 1:] if i >= 0 else s
                            pos += 1
                    last = time.time()
            elif time.time() - last > per_case_s:
                hang = True
                break
        if hang:
            proc.kill()
            proc.wait()
            if pos < n:
                results[ids[pos]] = 'HANG'
                pos += 1
        else:
            rc = proc.wait()
            if pos < n:
                results[ids[pos]] = f'ABORT rc={rc}'
                pos += 1


def run_sharded(binary, cases, tag, per_case_s=None, supervised=True, shards=None, extra_env=None):
    """Run `binary` on the cases, sharded over the cores. Returns dict id -> result string."""
    os.makedirs(WORK, exist_ok=True)
    shards = shards or NCPU
    shards = max(1, min(shards, (len(cases) + 199) // 200))
    results = {}
    threads = []
    per = (len(cases) + shards - 1) // shards
    for k in range(shards):
        part = cases[k * per:(k + 1) * per]
        if not part:
            continue
        path = os.path.join(WORK, f'{tag}.{k}.cases')
        write_cases(path, part)
        ids = [c[1] for c in part]
        if supervised:
            t = threading.Thread(target=_supervise, args=(binary, path, ids, per_case_s or 5.0, results, extra_env))
        else:
            def plain(path=path, ids=ids):
                p = subprocess.run([binary, path], stdout=subprocess.PIPE, stderr=subprocess.PIPE)
                lines = p.stdout.decode('utf-8', 'replace').split('\n')
                for i, ln in zip(ids, lines):
                    j = ln.find('\t')
                    results[i] = ln[j + 1:] if j >= 0 else ln
                for i in ids[len([l for l in lines if l]):]:
                    results.setdefault(i, f'DRIVER-ABORT rc={p.returncode} {p.stderr.decode("utf-8", "replace")[:200]}')
            t = threading.Thread(target=plain)
        t.start()
        threads.append(t)
    for t in threads:
        t.join()
    if supervised:
        # a HANG verdict may be an artefact of a loaded machine: every such case is re-run alone with a deadline six
        # times as long (at most 48 of them, six at a time) and keeps the verdict only if it still does not answer
        hung = [c for c in cases if results.get(c[1]) == 'HANG'][:48]
        if hung:
            def again(c, k):
                path = os.path.join(WORK, f'{tag}.retry{k}.cases')
                write_cases(path, [c])
                r = {}
                _supervise(binary, path, [c[1]], 6.0 * (per_case_s or 5.0), r, extra_env)
                if r.get(c[1]) is not None:
                    results[c[1]] = r[c[1]]
            for base in range(0, len(hung), 6):
                ts = [threading.Thread(target=again, args=(c, base + j)) for j, c in enumerate(hung[base:base + 6])]
                for t in ts: t.start()
                for t in ts: t.join()
    return results


def run_impl(cases, tag, per_case_s=5.0, extra_env=None):
    return run_sharded(HBIN, cases, tag + '.impl', per_case_s=per_case_s, supervised=True, extra_env=extra_env)


def run_model(cases, tag):
    return run_sharded(DRV, cases, tag + '.model', supervised=False)


# ------------------------------------------------------------------ known findings

def load_findings():
    p = os.path.join(VERIF, 'known_findings.json')
    if not os.path.exists(p):
        return []
    return json.load(open(p))


def finding_matches(entry, fail):
    """entry['match'] keys: suite, fields {idx: regex} on the *unescaped* case fields, any_field regex,
    impl regex, expect regex, kind. All present keys must match."""
    if entry.get('status') != 'finding':
        return False
    m = entry.get('match', {})
    case = fail.get('case') or []
    if 'kind' in m and fail.get('kind') != m['kind']:
        return False
    if 'suite' in m and (not case or case[0] != m['suite']):
        return False
    for idx, rx in m.get('fields', {}).items():
        i = int(idx)
        if i >= len(case) or not re.search(rx, case[i], re.S):
            return False
    if 'any_field' in m and not any(re.search(m['any_field'], c, re.S) for c in case[2:]):
        return False
    if 'impl' in m and not re.search(m['impl'], str(fail.get('impl', '')), re.S):
        return False
    if 'expect' in m and not re.search(m['expect'], str(fail.get('expect', '')), re.S):
        return False
    return True


# ------------------------------------------------------------------ check context

class Ctx:
    def __init__(self, prop, tier, seed, level='proof'):
        self.prop = prop
        self.tier = tier
        self.seed = seed
        self.level = level
        self.t0 = time.time()
        self.failures = []          # dicts: kind, case, impl, model, expect, note
        self.broken = []            # broken obligations: dicts {what, detail}
        self.obligations = []       # dicts {name, kind: theorem|suite|bridge, ok, detail}
        self.evaluations = 0
        self.distinct = set()
        self.rule = ''
        self.samples = []
        self.suites = {}
        self.distribution = {}
        self.trusted = []
        self.assumptions = []
        self.exhaustive = None
        self.notes = []
        self.checker_cmd = f'cd /verif/lean && lake build Garnish.Props.{prop} && lake env lean ../.work/audit_{prop}.lean'

    def fail(self, kind, case, impl=None, model=None, expect=None, note=''):
        self.failures.append({'kind': kind, 'case': case, 'impl': impl, 'model': model, 'expect': expect, 'note': note})

    def oblige(self, name, kind, ok, detail=''):
        self.obligations.append({'name': name, 'kind': kind, 'ok': bool(ok), 'detail': detail})
        if not ok:
            self.broken.append({'what': f'{kind} {name}', 'detail': detail})

    def sample(self, x, cap=12):
        if len(self.samples) < cap:
            self.samples.append(x)


def standard_proof_obligations(ctx, lean_targets=None):
    """regenerate tables, build the property's theorems and the driver, audit axioms. Fills ctx.obligations."""
    prop = ctx.prop
    if os.environ.get('VERIF_DEV_SKIP_PROOFS') == '1':
        # development sweeps over many seeds only (never used by a registered command): generators and oracles with the
        # driver and harness binaries as they are
        ctx.notes.append('VERIF_DEV_SKIP_PROOFS=1: proof obligations not re-checked in this run')
        return os.path.exists(DRV), os.path.exists(HBIN)
    # the harness is built first: the table translators fall back on (and cross-check against) its TABLES dump of the
    # compiled code when the source text does not have the form their extraction expects
    hok, hout = build_harness()
    if not hok:
        ctx.oblige('cargo build harness against /repo', 'harness', False, hout[-3000:])
    ok, out = gen_tables()
    # a table that can no longer be regenerated breaks the tie only for the properties whose model or generators use it
    failed = re.findall(r'^GEN (\w+) FAILED', out, re.M)
    needs = GEN_DEPENDS.get(prop, [])
    for g in failed:
        if g in needs:
            ctx.oblige(f'gen_tables.{g}', 'translator', False, out[-2500:])
        else:
            ctx.notes.append(f'table generator `{g}` failed; no model or generator of {prop} uses its tables')
    if not failed:
        ctx.oblige('gen_tables', 'translator', True, '')
    ok, out = build_lean(audit_modules(prop) + (lean_targets or []))
    if not ok:
        # find which theorem(s) failed
        errs = re.findall(r'error: (\S+\.lean:\d+:\d+): (.*)', out)
        ctx.oblige(f'lake build Garnish.Props.{prop}', 'theorem', False, '\n'.join(f'{a}: {b}' for a, b in errs[:20]) or out[-3000:])
    ok_drv, out_drv = build_lean(['garnish-drv'])
    if not ok_drv:
        ctx.oblige('lake build garnish-drv', 'driver', False, out_drv[-3000:])
    if ok:
        aok, thms, aout = audit(prop)
        if not aok or not thms:
            ctx.oblige(f'audit {prop}', 'theorem', False, aout[-2000:])
        for t in thms:
            if t['kind'] != 'theorem':
                continue
            extra = set(t['axioms']) - ALLOWED_AXIOMS
            ctx.oblige(t['name'], 'theorem', not extra, f'axioms={t["axioms"]}' if extra else '')
            ctx.sample({'theorem': t['name'], 'axioms': t['axioms'], 'statement': t['statement'][:600]}, cap=60)
    if ok and ctx.tier == 'thorough':
        # independent re-check of the compiled property modules by leanchecker (replays every declaration in the kernel)
        for m in audit_modules(prop):
            rc, out = sh(['lake', 'env', 'leanchecker', m], cwd=LEAN, timeout=3600)
            ctx.oblige(f'leanchecker {m}', 'audit', rc == 0, out[-1500:] if rc != 0 else '')
    bad = grep_audit()
    ctx.oblige('grep-audit(sorry|admit|axiom|native_decide|bv_decide|implemented_by|unsafe)', 'audit', not bad, '\n'.join(bad[:10]))
    return ok_drv, hok


def finish(ctx):
    """classify failures against known findings, write replay + evidence, print lines, exit."""
    findings = load_findings()
    os.makedirs(os.path.join(OUT, 'replays'), exist_ok=True)
    os.makedirs(os.path.join(OUT, 'evidence'), exist_ok=True)
    unlisted = []
    known_hit = {}
    for f in ctx.failures:
        hit = None
        for e in findings:
            if e.get('property') == ctx.prop and finding_matches(e, f):
                hit = e
                break
        if hit:
            known_hit.setdefault(hit['id'], (hit, 0))
            known_hit[hit['id']] = (hit, known_hit[hit['id']][1] + 1)
        else:
            unlisted.append(f)
    for fid, (e, n) in sorted(known_hit.items()):
        print(f'KNOWN-FINDING: property={ctx.prop} {fid} {e["what"]} ({n} case(s) this run)')
    violations = 0
    lines = []
    if unlisted:
        # oracle failures first (implementation fails the property), then correspondence-only
        unlisted.sort(key=lambda f: (0 if f['kind'] == 'oracle' else 1, len(json.dumps(f['case']))))
        f = unlisted[0]
        digest = hashlib.sha1(json.dumps(f, sort_keys=True).encode()).hexdigest()[:10]
        path = os.path.join(OUT, 'replays', f'{ctx.prop}-{digest}.json')
        replay = {'property': ctx.prop, 'seed': ctx.seed, 'tier': ctx.tier, 'failure': f,
                  'more': unlisted[1:10], 'count': len(unlisted), 'broken_obligations': ctx.broken,
                  'how_to_replay': f'./check {ctx.prop} --replay {path}'}
        json.dump(replay, open(path, 'w'), indent=1, ensure_ascii=False)
        tail = ''
        if all(x['kind'] != 'oracle' for x in unlisted):
            # only model/implementation disagreements: the property is no longer shown to hold
            tail = ' no-failing-input-found'
        lines.append(f'VIOLATION property={ctx.prop} replay={path}{tail}')
        violations = len(unlisted)
    elif ctx.broken:
        digest = hashlib.sha1(json.dumps(ctx.broken, sort_keys=True).encode()).hexdigest()[:10]
        path = os.path.join(OUT, 'replays', f'{ctx.prop}-{digest}.json')
        json.dump({'property': ctx.prop, 'seed': ctx.seed, 'tier': ctx.tier, 'broken_obligations': ctx.broken,
                   'note': 'a proof obligation or the tie to the code no longer checks; the failing-input search found no input on which the property itself fails'},
                  open(path, 'w'), indent=1, ensure_ascii=False)
        lines.append(f'VIOLATION property={ctx.prop} replay={path} no-failing-input-found')
        violations = 1
    nob = len(ctx.obligations)
    ndis = sum(1 for o in ctx.obligations if o['ok'])
    cov = {
        'obligations': nob, 'discharged': ndis,
        'checker_cmd': ctx.checker_cmd,
        'trusted_base': ["Lean 4.33.0 kernel", "axioms ⊆ {propext, Classical.choice, Quot.sound} (audited per theorem, listed in samples)"] + ctx.trusted,
        'evaluations': ctx.evaluations, 'distinct_nontrivial': len(ctx.distinct), 'rule': ctx.rule,
        'samples': ctx.samples, 'suites': ctx.suites, 'distribution': ctx.distribution,
        'obligation_list': [{'name': o['name'], 'kind': o['kind'], 'ok': o['ok']} for o in ctx.obligations],
        'known_findings_hit': {k: v[1] for k, v in known_hit.items()},
        'notes': ctx.notes,
    }
    if ctx.exhaustive is not None:
        cov['exhaustive'] = ctx.exhaustive
    ev = {'property_id': ctx.prop, 'tier': ctx.tier, 'seed': ctx.seed, 'level': ctx.level, 'coverage': cov,
          'assumptions': ctx.assumptions, 'wall_s': round(time.time() - ctx.t0, 2), 'violations': violations}
    json.dump(ev, open(os.path.join(OUT, 'evidence', f'{ctx.prop}.json'), 'w'), indent=1, ensure_ascii=False)
    for o in ctx.broken:
        log(f'BROKEN: {o["what"]}: {o["detail"][:500]}')
    for l in lines:
        print(l)
    print(f'{ctx.prop}: tier={ctx.tier} seed={ctx.seed} obligations={ndis}/{nob} evaluations={ctx.evaluations} '
          f'distinct={len(ctx.distinct)} failures={len(ctx.failures)} unlisted={len(unlisted)} wall={ev["wall_s"]}s')
    sys.stdout.flush()
    sys.exit(1 if violations else 0)
