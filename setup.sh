#!/bin/sh
# builds the framework from files on disk only (offline)
set -e
cd "$(dirname "$0")"
export CARGO_NET_OFFLINE=true
[ -f harness/Cargo.lock ] || cp /repo/Cargo.lock harness/Cargo.lock
if [ -f tools/gen_tables.py ]; then python3 tools/gen_tables.py /repo lean || true; fi
(cd lean && lake build Garnish garnish-drv)
(cd harness && cargo build --offline)
