/-
Executable model of /repo/compiler/src/build/build.rs (non-test code, lines 1–1137 at commit 85b4b67; 467354e added
`validate_parse_tree`, 85b4b67 the final `allScheduled` check; later fixes mirrored: 3cee692, 7afc7c5, 3cc8bac, df89d39): a statement-by-statement transliteration.  Bugs of the Rust code are reproduced, not repaired
(the SideEffect arm ignores `left`; the "append the terminator unless the last instruction of the whole
stream equals it" rule).  `nodes[i] = ..` with an index taken from the parse tree would panic when it is out of
range, and a cyclic parse tree would make the work-list loop run forever: the model keeps both behaviours
(`Outcome.panic`, fuel) although `validate_parse_tree` now rejects such trees before the loop starts.

Conventions
* `usize`/`Data::Size` = `Nat`; `Vec<_>` = `Array _` (`push`, `pop` = `back?` + `pop`).
* the data object `Data: GarnishData` is modelled value-level by `BState F`:
    `instrs`  the instruction vector (`push_instruction`, `get_instruction`, `get_instruction_len`, `get_instruction_iter`),
    `jumps`   the jump table (`get_jump_table_len`, `push_to_jump_table`, `get_from_jump_table_mut`),
    `consts`  one entry per `add_*` / `parse_add_*` call: the VALUE added; the operand of `Put`/`Resolve` is the
              index of that entry (interning of SimpleGarnishData is not modelled; operands are compared by value),
    `metadata` the `instruction_metadata` vector (`meta` is a Lean keyword).  In the Rust it is a local of `build` returned in `BuildData`;
              here it is threaded through the state so that consecutive builds into one object concatenate
              (the harness concatenates the vectors of consecutive builds in the same way).
  None of the trait methods used by `build` can fail on the two shipped stores short of allocation failure,
  so the only `Data::Error`s are literal-parsing errors.
* `Result<_, CompilerError<_>>` = `Outcome _`; `Outcome.err .other` is a `CompilerError::new_message`,
  `Outcome.err .data` a propagated literal error.  Messages are not modelled.
* every `nodes[i] = Some(..)` (IndexMut) is `setNodeIdx .. "<site>"` and returns `Outcome.panic` when `i` is out
  of range (the site labels are the line numbers of the file before the two commits above: add 96 for handler lines); every `nodes.get(i)` / `get_mut(i)` / `get_mut_or_error(i)` mirrors its `None` arm.
* the two `while let Some(..) = ..pop()` loops take fuel: `rootFuel` bounds the iterations of the outer loop,
  `stepFuel` the total number of iterations of the inner loop; `Outcome.fuelOut` = still running.
* `SizeIterator (0, usize::MAX)` (`child_count`) is a counter: `next()` returns the current value and increments.
-/
import Garnish.Model.Parser
import Garnish.Model.Literals
import Garnish.Abs.Val

namespace Garnish.Model.Build
open Garnish Garnish.Gen Garnish.Model.Parser Garnish.Model.Literals

/-- `(Instruction, Option<Data::Size>)` -/
abbrev Instr := Instruction × Option Nat

/-- value-level model of the data object the builder writes into -/
structure BState (F : Type) where
  instrs : Array Instr
  jumps : Array Nat
  consts : Array (Val F)
  metadata : Array (Option Nat)

def BState.empty {F : Type} : BState F := ⟨#[], #[], #[], #[]⟩

/-- `CompilerError::new_message(..)` -/
def buildErr {α : Type} : Outcome α := .err .other

/-- `ConditionItem` -/
structure ConditionItem where
  nodeIndex : Nat
  jumpIndexToUpdate : Nat
  rootEndInstruction : Instr
deriving Repr, DecidableEq

/-- `BuildNodeState` -/
inductive BuildNodeState where
  | uninitialized
  | initialized
deriving Repr, DecidableEq

/-- `BuildNode` -/
structure BuildNode where
  state : BuildNodeState
  parseNodeIndex : Nat
  containingExpressionJump : Nat
  listParent : Option (Nat × Definition)
  childCount : Nat
  contributesToList : Bool
  jumpIndexToUpdate : Option Nat
  rootEndInstruction : Option (List Instr)
  conditionalParent : Option Nat
  conditionalItems : Array ConditionItem
deriving Repr, DecidableEq

namespace BuildNode

/-- `BuildNode::new` -/
def new (parseNodeIndex containingExpressionJump : Nat) : BuildNode :=
  { state := .uninitialized, parseNodeIndex, containingExpressionJump, listParent := none, childCount := 0,
    contributesToList := true, jumpIndexToUpdate := none, rootEndInstruction := none, conditionalParent := none,
    conditionalItems := #[] }

/-- `BuildNode::new_with_list` -/
def newWithList (parseNodeIndex containingExpressionJump listParent : Nat) (listParentDefinition : Definition) : BuildNode :=
  { new parseNodeIndex containingExpressionJump with listParent := some (listParent, listParentDefinition) }

/-- `BuildNode::new_with_conditional` -/
def newWithConditional (parseNodeIndex containingExpressionJump conditionalParent : Nat) : BuildNode :=
  { new parseNodeIndex containingExpressionJump with conditionalParent := some conditionalParent }

/-- `BuildNode::new_with_jump` -/
def newWithJump (parseNodeIndex containingExpressionJump jumpIndex : Nat) : BuildNode :=
  { new parseNodeIndex containingExpressionJump with jumpIndexToUpdate := some jumpIndex }

/-- `BuildNode::new_with_jump_and_end` -/
def newWithJumpAndEnd (parseNodeIndex containingExpressionJump jumpIndex : Nat) (endInstruction : List Instr) : BuildNode :=
  { new parseNodeIndex containingExpressionJump with
    jumpIndexToUpdate := some jumpIndex, rootEndInstruction := some endInstruction }

end BuildNode

abbrev Nodes := Array (Option BuildNode)

/-- `match nodes.get_mut(i) { Some(Some(node)) => node, _ => Err(..)? }` and `get_mut_or_error` -/
def getNode (nodes : Nodes) (index : Nat) : Outcome BuildNode :=
  match nodes[index]? with
  | some (some node) => .ok node
  | _ => buildErr                                  -- "No build node at index {}" / "No node at index {}"

/-- write-back through the `&mut BuildNode` obtained by `getNode` (the index is in range) -/
def putNode (nodes : Nodes) (index : Nat) (node : BuildNode) : Nodes :=
  nodes.setIfInBounds index (some node)

/-- `nodes[index] = Some(node)` : panics when `index ≥ nodes.len()` -/
def setNodeIdx (nodes : Nodes) (index : Nat) (node : BuildNode) (site : String) : Outcome Nodes :=
  if h : index < nodes.size then .ok (nodes.set index (some node) h)
  else .panic site

section
variable {F : Type}

/-! ### the trait methods used by `build` -/

/-- `data.push_instruction(i, d)?; instruction_metadata.push(InstructionMetadata::new(m))` -/
def pushInstr (data : BState F) (instruction : Instruction) (operand : Option Nat) (m : Option Nat) : BState F :=
  { data with instrs := data.instrs.push (instruction, operand), metadata := data.metadata.push m }

/-- `data.get_jump_table_len()` -/
def getJumpTableLen (data : BState F) : Nat := data.jumps.size
/-- `data.get_instruction_len()` -/
def getInstructionLen (data : BState F) : Nat := data.instrs.size
/-- `data.push_to_jump_table(v)?` -/
def pushToJumpTable (data : BState F) (v : Nat) : BState F := { data with jumps := data.jumps.push v }
/-- `match data.get_from_jump_table_mut(i) { Some(item) => *item = v, None => .. }` -/
def setJump? (data : BState F) (i v : Nat) : Option (BState F) :=
  if h : i < data.jumps.size then some { data with jumps := data.jumps.set i v h } else none
/-- `data.add_*(..)?` : appends the value, returns its index -/
def addConst (data : BState F) (v : Val F) : BState F × Nat :=
  ({ data with consts := data.consts.push v }, data.consts.size)

/-- `data.parse_add_symbol(from)?` -/
def parseAddSymbol (data : BState F) (src : List Char) : BState F × Nat :=
  addConst data (.sym (parseSymbol src))

/-- the mutable arguments of `handle_parse_node`:
    `data` (with `instruction_metadata`), `nodes`, `root_stack`, `stack` -/
structure Ctx (F : Type) where
  data : BState F
  nodes : Nodes
  rootStack : Array Nat
  stack : Array Nat

variable (parseFloat : List Char → Option F)

/-! ### `handle_value_like` / `handle_value_primitive` (build.rs 789–863) -/

/-- `add_fn`: the closure that adds the operand constant (may fail with a data error or panic) -/
abbrev AddFn (F : Type) := BState F → ParseNode → Outcome (BState F × Option Nat)

def handleValueLike (addFn : AddFn F) (instruction : Instruction) (ctx : Ctx F) (nodeIndex : Nat) (parseNode : ParseNode) :
    Outcome (Ctx F) :=
  Outcome.bind (getNode ctx.nodes nodeIndex) fun node =>
  match node.state with
  | .uninitialized =>
    -- node.state = Initialized
    let nodes := putNode ctx.nodes nodeIndex { node with state := .initialized }
    let containing := node.containingExpressionJump
    let stack := ctx.stack
    -- match parse_node.get_right()
    let r1 : Outcome (Nodes × Array Nat) :=
      match parseNode.right with
      | none => .ok (nodes, stack)
      | some right =>
        -- stack.push(right); nodes[right] = Some(BuildNode::new(right, containing))
        Outcome.bind (setNodeIdx nodes right (BuildNode.new right containing) "build.rs:841") fun nodes =>
          .ok (nodes, stack.push right)
    Outcome.bind r1 fun (nodes, stack) =>
    -- stack.push(node_index)
    let stack := stack.push nodeIndex
    -- match parse_node.get_left()
    match parseNode.left with
    | none => .ok { ctx with nodes, stack }
    | some left =>
      Outcome.bind (setNodeIdx nodes left (BuildNode.new left containing) "build.rs:851") fun nodes =>
        .ok { ctx with nodes, stack := stack.push left }
  | .initialized =>
    -- let instruction_data = add_fn(data, parse_node)?
    Outcome.bind (addFn ctx.data parseNode) fun (data, instructionData) =>
      .ok { ctx with data := pushInstr data instruction instructionData (some nodeIndex) }

def handleValuePrimitive (addFn : BState F → ParseNode → Outcome (BState F × Nat)) (ctx : Ctx F) (nodeIndex : Nat)
    (parseNode : ParseNode) : Outcome (Ctx F) :=
  handleValueLike (fun data node => Outcome.bind (addFn data node) fun (data, addr) => .ok (data, some addr))
    .put ctx nodeIndex parseNode

/-! ### `handle_unary_suffix` / `handle_unary_prefix` (build.rs 865–923) -/

def handleUnarySuffix (instruction : Instruction) (ctx : Ctx F) (nodeIndex : Nat) (parseNode : ParseNode) : Outcome (Ctx F) :=
  Outcome.bind (getNode ctx.nodes nodeIndex) fun node =>
  match node.state with
  | .uninitialized =>
    let nodes := putNode ctx.nodes nodeIndex { node with state := .initialized }
    -- stack.push(node.parse_node_index)
    let stack := ctx.stack.push node.parseNodeIndex
    match parseNode.left with
    | none => buildErr                               -- "No left on {:?} definition"
    | some left =>
      let stack := stack.push left
      Outcome.bind (setNodeIdx nodes left (BuildNode.new left node.containingExpressionJump) "build.rs:884") fun nodes =>
        .ok { ctx with nodes, stack }
  | .initialized =>
    .ok { ctx with data := pushInstr ctx.data instruction none (some node.parseNodeIndex) }

def handleUnaryPrefix (instruction : Instruction) (ctx : Ctx F) (nodeIndex : Nat) (parseNode : ParseNode) : Outcome (Ctx F) :=
  Outcome.bind (getNode ctx.nodes nodeIndex) fun node =>
  match node.state with
  | .uninitialized =>
    let nodes := putNode ctx.nodes nodeIndex { node with state := .initialized }
    let stack := ctx.stack.push node.parseNodeIndex
    match parseNode.right with
    | none => buildErr                               -- "No right on {:?} definition"
    | some right =>
      let stack := stack.push right
      Outcome.bind (setNodeIdx nodes right (BuildNode.new right node.containingExpressionJump) "build.rs:914") fun nodes =>
        .ok { ctx with nodes, stack }
  | .initialized =>
    .ok { ctx with data := pushInstr ctx.data instruction none (some node.parseNodeIndex) }

/-! ### `handle_binary_operation` / `handle_binary_operation_with_push` (build.rs 925–979) -/

/-- `order_fn` is `|left, right| (left, right)` when `leftRight` (Pair, ApplyTo), else `(right, left)` -/
def handleBinaryOperationWithPush (instruction : Instruction) (leftRight : Bool) (ctx : Ctx F) (nodeIndex : Nat)
    (parseNode : ParseNode) : Outcome (Ctx F) :=
  Outcome.bind (getNode ctx.nodes nodeIndex) fun node =>
  match node.state with
  | .uninitialized =>
    let nodes := putNode ctx.nodes nodeIndex { node with state := .initialized }
    let stack := ctx.stack.push node.parseNodeIndex
    match parseNode.right with
    | none => buildErr                               -- "No right on {:?} definition"
    | some right =>
    match parseNode.left with
    | none => buildErr                               -- "No left on {:?} definition"
    | some left =>
      let (first, second) := if leftRight then (left, right) else (right, left)
      let stack := (stack.push first).push second
      let containing := node.containingExpressionJump
      Outcome.bind (setNodeIdx nodes right (BuildNode.new right containing) "build.rs:969") fun nodes =>
      Outcome.bind (setNodeIdx nodes left (BuildNode.new left containing) "build.rs:970") fun nodes =>
        .ok { ctx with nodes, stack }
  | .initialized =>
    .ok { ctx with data := pushInstr ctx.data instruction none (some node.parseNodeIndex) }

def handleBinaryOperation (instruction : Instruction) (ctx : Ctx F) (nodeIndex : Nat) (parseNode : ParseNode) : Outcome (Ctx F) :=
  handleBinaryOperationWithPush instruction false ctx nodeIndex parseNode

/-! ### `handle_list` (build.rs 981–1041) -/

def handleList (ctx : Ctx F) (nodeIndex : Nat) (parseNode : ParseNode) : Outcome (Ctx F) :=
  Outcome.bind (getNode ctx.nodes nodeIndex) fun node =>
  match node.state with
  | .uninitialized =>
    -- node.state = Initialized; stack.push(node.parse_node_index)
    let stack := ctx.stack.push node.parseNodeIndex
    let (parent, definition, contributesToList) :=
      match node.listParent with
      | some (parent, definition) =>
        if definition == parseNode.definition then (parent, definition, false)
        else (nodeIndex, parseNode.definition, true)
      | none => (nodeIndex, parseNode.definition, true)
    -- node.contributes_to_list = contributes_to_list
    let nodes := putNode ctx.nodes nodeIndex { node with state := .initialized, contributesToList }
    let containing := node.containingExpressionJump
    let r1 : Outcome (Nodes × Array Nat) :=
      match parseNode.right with
      | none => .ok (nodes, stack)
      | some right =>
        Outcome.bind (setNodeIdx nodes right (BuildNode.newWithList right containing parent definition) "build.rs:1013") fun nodes =>
          .ok (nodes, stack.push right)
    Outcome.bind r1 fun (nodes, stack) =>
    match parseNode.left with
    | none => .ok { ctx with nodes, stack }
    | some left =>
      Outcome.bind (setNodeIdx nodes left (BuildNode.newWithList left containing parent definition) "build.rs:1020") fun nodes =>
        .ok { ctx with nodes, stack := stack.push left }
  | .initialized =>
    let sameAsParent :=
      match node.listParent with
      | some (_, definition) => definition == parseNode.definition
      | none => false
    if sameAsParent then .ok ctx
    else
      -- let node = nodes.get_mut_or_error(node_index)?; let count = node.child_count.next().ok_or(..)?
      Outcome.bind (getNode ctx.nodes nodeIndex) fun node =>
      let count := node.childCount
      let nodes := putNode ctx.nodes nodeIndex { node with childCount := node.childCount + 1 }
      .ok { ctx with nodes, data := pushInstr ctx.data .makeList (some count) (some node.parseNodeIndex) }

/-! ### `handle_logical_binary` (build.rs 739–787) -/

def handleLogicalBinary (instruction : Instruction) (ctx : Ctx F) (nodeIndex : Nat) (parseNode : ParseNode) : Outcome (Ctx F) :=
  Outcome.bind (getNode ctx.nodes nodeIndex) fun node =>
  match node.state with
  | .uninitialized =>
    let nodes := putNode ctx.nodes nodeIndex { node with state := .initialized }
    let stack := ctx.stack.push node.parseNodeIndex
    match parseNode.left with
    | none => buildErr
    | some left =>
      let stack := stack.push left
      Outcome.bind (setNodeIdx nodes left (BuildNode.newWithConditional left node.containingExpressionJump nodeIndex) "build.rs:762")
        fun nodes => .ok { ctx with nodes, stack }
  | .initialized =>
    let jumpIndex := getJumpTableLen ctx.data
    let data := pushToJumpTable ctx.data 0
    let data := pushInstr data instruction (some jumpIndex) (some nodeIndex)
    match parseNode.right with
    | none => buildErr
    | some right =>
      let rootStack := ctx.rootStack.push right
      let jumpToIndex := getJumpTableLen data
      let data := pushToJumpTable data (getInstructionLen data)
      Outcome.bind (setNodeIdx ctx.nodes right
          (BuildNode.newWithJumpAndEnd right node.containingExpressionJump jumpIndex
            [(.tis, none), (.jumpTo, some jumpToIndex)]) "build.rs:777") fun nodes =>
        .ok { ctx with data, nodes, rootStack }

/-! ### `handle_jump_if` (build.rs 676–737) -/

def handleJumpIf (instruction : Instruction) (ctx : Ctx F) (nodeIndex : Nat) (parseNode : ParseNode) : Outcome (Ctx F) :=
  Outcome.bind (getNode ctx.nodes nodeIndex) fun node =>
  match node.state with
  | .uninitialized =>
    let nodes := putNode ctx.nodes nodeIndex { node with state := .initialized }
    let stack := ctx.stack.push node.parseNodeIndex
    match parseNode.left with
    | none => buildErr
    | some left =>
      let stack := stack.push left
      Outcome.bind (setNodeIdx nodes left (BuildNode.new left node.containingExpressionJump) "build.rs:699") fun nodes =>
        .ok { ctx with nodes, stack }
  | .initialized =>
    let jumpIndex := getJumpTableLen ctx.data
    let data := pushToJumpTable ctx.data 0
    match parseNode.right with
    | none => buildErr
    | some right =>
      match node.conditionalParent with
      | some conditionalParent =>
        match ctx.nodes[conditionalParent]? with
        | some (some parent) =>
          let parent := { parent with conditionalItems :=
            parent.conditionalItems.push ⟨right, jumpIndex, (.invalid, none)⟩ }
          let nodes := putNode ctx.nodes conditionalParent parent
          let data := pushInstr data instruction (some jumpIndex) (some nodeIndex)
          .ok { ctx with data, nodes }
        | _ => .ok { ctx with data }                 -- `_ => {}` : the placeholder entry stays, nothing is emitted
      | none =>
        let data := pushInstr data instruction (some jumpIndex) (some nodeIndex)
        let data := pushInstr data .putValue none none
        let rootStack := ctx.rootStack.push right
        let jumpToIndex := getJumpTableLen data
        let data := pushToJumpTable data (getInstructionLen data)
        Outcome.bind (setNodeIdx ctx.nodes right
            (BuildNode.newWithJumpAndEnd right node.containingExpressionJump jumpIndex [(.jumpTo, some jumpToIndex)])
            "build.rs:730") fun nodes =>
          .ok { ctx with data, nodes, rootStack }

/-! ### `handle_unary_fix_apply` (build.rs 635–674) -/

def handleUnaryFixApply (child : Option Nat) (ctx : Ctx F) (nodeIndex : Nat) (parseNode : ParseNode) : Outcome (Ctx F) :=
  Outcome.bind (getNode ctx.nodes nodeIndex) fun node =>
  match node.state with
  | .uninitialized =>
    let nodes := putNode ctx.nodes nodeIndex { node with state := .initialized }
    -- let addr = data.parse_add_symbol(parse_node.text().trim_matches('`'))?
    let (data, addr) := parseAddSymbol ctx.data (trimMatches '`' parseNode.lexToken.text)
    let data := pushInstr data .resolve (some addr) none
    match child with
    | none => buildErr                               -- "No right on {:?} definition"
    | some right =>
      let stack := (ctx.stack.push nodeIndex).push right
      Outcome.bind (setNodeIdx nodes right (BuildNode.new right node.containingExpressionJump) "build.rs:664") fun nodes =>
        .ok { ctx with data, nodes, stack }
  | .initialized =>
    .ok { ctx with data := pushInstr ctx.data .apply none (some nodeIndex) }

/-! ### `handle_parse_node` (build.rs 262–633) -/

/-- the arms of `handle_parse_node` that are written inline in the Rust -/
def handleGroup (ctx : Ctx F) (nodeIndex : Nat) (parseNode : ParseNode) : Outcome (Ctx F) :=
  match parseNode.right with
  | none => .ok ctx
  | some right =>
    Outcome.bind (getNode ctx.nodes nodeIndex) fun node =>
    Outcome.bind (setNodeIdx ctx.nodes right (BuildNode.new right node.containingExpressionJump) "build.rs:400") fun nodes =>
      .ok { ctx with nodes, stack := ctx.stack.push right }

def handleSideEffect (ctx : Ctx F) (nodeIndex : Nat) (parseNode : ParseNode) : Outcome (Ctx F) :=
  Outcome.bind (getNode ctx.nodes nodeIndex) fun node =>
  match node.state with
  | .uninitialized =>
    let nodes := putNode ctx.nodes nodeIndex { node with state := .initialized }
    let data := pushInstr ctx.data .startSideEffect none (some nodeIndex)
    let stack := ctx.stack.push nodeIndex
    -- (the node's `left` is never looked at)
    match parseNode.right with
    | none => .ok { ctx with data, nodes, stack }
    | some right =>
      Outcome.bind (setNodeIdx nodes right (BuildNode.new right node.containingExpressionJump) "build.rs:422") fun nodes =>
        .ok { ctx with data, nodes, stack := stack.push right }
  | .initialized =>
    .ok { ctx with data := pushInstr ctx.data .endSideEffect none (some nodeIndex) }

def handleNestedExpression (ctx : Ctx F) (currentRootJump : Nat) (nodeIndex : Nat) (parseNode : ParseNode) : Outcome (Ctx F) :=
  match parseNode.right with
  | none =>
    -- commit df89d39: an empty nested expression names the expression it is written in (as reapply does), not the
    -- out-of-line root being built:  match nodes.get(node_index) { Some(Some(node)) => .., _ => current_root_jump }
    let containing :=
      match ctx.nodes[nodeIndex]? with
      | some (some node) => node.containingExpressionJump
      | _ => currentRootJump
    let (data, addr) := addConst ctx.data (.expr containing)
    .ok { ctx with data := pushInstr data .put (some addr) (some nodeIndex) }
  | some right =>
    let jumpIndex := getJumpTableLen ctx.data
    let data := pushToJumpTable ctx.data 0
    let (data, addr) := addConst data (.expr jumpIndex)
    let data := pushInstr data .put (some addr) (some nodeIndex)
    Outcome.bind (setNodeIdx ctx.nodes right (BuildNode.newWithJump right jumpIndex jumpIndex) "build.rs:446") fun nodes =>
      .ok { ctx with data, nodes, rootStack := ctx.rootStack.push right }

/-- the `for condition in &node.conditional_items` loop of the ElseJump arm -/
def elseJumpItems (containing jumpToIndex : Nat) (items : List ConditionItem) (rootStack : Array Nat)
    (newItems : Array (Nat × BuildNode)) : Array Nat × Array (Nat × BuildNode) :=
  match items with
  | [] => (rootStack, newItems)
  | condition :: rest =>
    elseJumpItems containing jumpToIndex rest (rootStack.push condition.nodeIndex)
      (newItems.push (condition.nodeIndex,
        BuildNode.newWithJumpAndEnd condition.nodeIndex containing condition.jumpIndexToUpdate [(.jumpTo, some jumpToIndex)]))

/-- `for (index, data) in new_items { nodes[index] = Some(data); }` -/
def assignNewItems (nodes : Nodes) : List (Nat × BuildNode) → Outcome Nodes
  | [] => .ok nodes
  | (index, bn) :: rest =>
    Outcome.bind (setNodeIdx nodes index bn "build.rs:518") fun nodes => assignNewItems nodes rest

def handleElseJump (ctx : Ctx F) (nodeIndex : Nat) (parseNode : ParseNode) : Outcome (Ctx F) :=
  Outcome.bind (getNode ctx.nodes nodeIndex) fun node =>
  match node.state with
  | .uninitialized =>
    let nodes := putNode ctx.nodes nodeIndex { node with state := .initialized }
    let stack := ctx.stack.push node.parseNodeIndex
    match parseNode.right with
    | none => buildErr                               -- "No right on ElseJump definition"
    | some right =>
    match parseNode.left with
    | none => buildErr                               -- "No left on ElseJump definition"
    | some left =>
      let stack := (stack.push right).push left
      let containing := node.containingExpressionJump
      let parent :=
        match node.conditionalParent with
        | some parent => parent
        | none => nodeIndex
      Outcome.bind (setNodeIdx nodes right (BuildNode.newWithConditional right containing parent) "build.rs:490/494") fun nodes =>
      Outcome.bind (setNodeIdx nodes left (BuildNode.newWithConditional left containing parent) "build.rs:491/495") fun nodes =>
        .ok { ctx with nodes, stack }
  | .initialized =>
    match node.conditionalParent with
    | some _ => .ok ctx
    | none =>
      if node.conditionalItems.size > 0 then
        let jumpToIndex := getJumpTableLen ctx.data
        let data := pushToJumpTable ctx.data (getInstructionLen ctx.data)
        let (rootStack, newItems) :=
          elseJumpItems node.containingExpressionJump jumpToIndex node.conditionalItems.toList ctx.rootStack #[]
        Outcome.bind (assignNewItems ctx.nodes newItems.toList) fun nodes =>
          .ok { ctx with data, nodes, rootStack }
      else .ok ctx

def handleReapply (ctx : Ctx F) (nodeIndex : Nat) (parseNode : ParseNode) : Outcome (Ctx F) :=
  Outcome.bind (getNode ctx.nodes nodeIndex) fun node =>
  match node.state with
  | .uninitialized =>
    let nodes := putNode ctx.nodes nodeIndex { node with state := .initialized }
    let stack := ctx.stack.push node.parseNodeIndex
    match parseNode.right with
    | none => buildErr                               -- "No left on Reapply definition" (sic)
    | some right =>
      let stack := stack.push right
      Outcome.bind (setNodeIdx nodes right (BuildNode.new right node.containingExpressionJump) "build.rs:539") fun nodes =>
        .ok { ctx with nodes, stack }
  | .initialized =>
    let data := pushInstr ctx.data .updateValue none (some nodeIndex)
    let data := pushInstr data .jumpTo (some node.containingExpressionJump) (some nodeIndex)
    .ok { ctx with data }

/-- `Definition::Subexpression | Definition::ExpressionSeparator` -/
def handleSubexpression (ctx : Ctx F) (nodeIndex : Nat) (parseNode : ParseNode) : Outcome (Ctx F) :=
  Outcome.bind (getNode ctx.nodes nodeIndex) fun node =>
  match node.state with
  | .uninitialized =>
    let nodes := putNode ctx.nodes nodeIndex { node with state := .initialized }
    match parseNode.right with
    | none => buildErr                               -- "No right on Subexpression definition"
    | some right =>
    match parseNode.left with
    | none => buildErr                               -- "No left on Subexpression definition"
    | some left =>
      let stack := ((ctx.stack.push right).push nodeIndex).push left
      let containing := node.containingExpressionJump
      Outcome.bind (setNodeIdx nodes right (BuildNode.new right containing) "build.rs:567") fun nodes =>
      Outcome.bind (setNodeIdx nodes left (BuildNode.new left containing) "build.rs:568") fun nodes =>
        .ok { ctx with nodes, stack }
  | .initialized =>
    .ok { ctx with data := pushInstr ctx.data .updateValue none (some nodeIndex) }

def handleInfixApply (ctx : Ctx F) (nodeIndex : Nat) (parseNode : ParseNode) : Outcome (Ctx F) :=
  Outcome.bind (getNode ctx.nodes nodeIndex) fun node =>
  match node.state with
  | .uninitialized =>
    let nodes := putNode ctx.nodes nodeIndex { node with state := .initialized }
    let (data, addr) := parseAddSymbol ctx.data (trimMatches '`' parseNode.lexToken.text)
    let data := pushInstr data .resolve (some addr) none
    match parseNode.right with
    | none => buildErr                               -- "No right on InfixApply definition"
    | some right =>
    match parseNode.left with
    | none => buildErr                               -- "No left on InfixApply definition"
    | some left =>
      let stack := ((ctx.stack.push nodeIndex).push right).push left
      let containing := node.containingExpressionJump
      Outcome.bind (setNodeIdx nodes right (BuildNode.new right containing) "build.rs:619") fun nodes =>
      Outcome.bind (setNodeIdx nodes left (BuildNode.new left containing) "build.rs:620") fun nodes =>
        .ok { ctx with data, nodes, stack }
  | .initialized =>
    let data := pushInstr ctx.data .makeList (some 2) none
    let data := pushInstr data .apply none (some nodeIndex)
    .ok { ctx with data }

/-! the `add_fn` closures of the value arms -/

def addUnit : BState F → ParseNode → Outcome (BState F × Nat) := fun data _ => .ok (addConst data .unit)
def addFalse : BState F → ParseNode → Outcome (BState F × Nat) := fun data _ => .ok (addConst data .fls)
def addTrue : BState F → ParseNode → Outcome (BState F × Nat) := fun data _ => .ok (addConst data .tru)

/-- `data.parse_add_number(node.text())` -/
def parseAddNumber : BState F → ParseNode → Outcome (BState F × Nat) := fun data node =>
  Outcome.bind (parseSimpleNumber parseFloat node.lexToken.text) fun n => .ok (addConst data (.num n))

/-- `data.parse_add_char_list(node.text())` -/
def parseAddCharList : BState F → ParseNode → Outcome (BState F × Nat) := fun data node =>
  Outcome.bind (parseCharList parseFloat node.lexToken.text) fun cs => .ok (addConst data (.chars (cs.map Char.toNat)))

/-- `data.parse_add_byte_list(node.text())` -/
def parseAddByteList : BState F → ParseNode → Outcome (BState F × Nat) := fun data node =>
  Outcome.bind (parseByteList parseFloat node.lexToken.text) fun bs => .ok (addConst data (.bytes bs))

/-- `data.parse_add_symbol(&node.text()[1..])` -/
def parseAddSymbolLiteral : BState F → ParseNode → Outcome (BState F × Nat) := fun data node =>
  match dropFirstByte node.lexToken.text with
  | none => .panic "build.rs:400 str slice [1..]"
  | some rest => .ok (parseAddSymbol data rest)

/-- `|data, node| Ok(Some(data.parse_add_symbol(node.text())?))` -/
def parseAddSymbolText : AddFn F := fun data node =>
  let (data, addr) := parseAddSymbol data node.lexToken.text
  .ok (data, some addr)

def handleParseNode (ctx : Ctx F) (currentRootJump : Nat) (nodeIndex : Nat) (parseNode : ParseNode) : Outcome (Ctx F) :=
  match parseNode.definition with
  | .unit => handleValuePrimitive addUnit ctx nodeIndex parseNode
  | .false => handleValuePrimitive addFalse ctx nodeIndex parseNode
  | .true => handleValuePrimitive addTrue ctx nodeIndex parseNode
  | .number => handleValuePrimitive (parseAddNumber parseFloat) ctx nodeIndex parseNode
  | .charList => handleValuePrimitive (parseAddCharList parseFloat) ctx nodeIndex parseNode
  | .byteList => handleValuePrimitive (parseAddByteList parseFloat) ctx nodeIndex parseNode
  | .symbol => handleValuePrimitive parseAddSymbolLiteral ctx nodeIndex parseNode
  | .value => handleValueLike (fun data _ => .ok (data, none)) .putValue ctx nodeIndex parseNode
  | .identifier => handleValueLike parseAddSymbolText .resolve ctx nodeIndex parseNode
  | .property => handleValueLike parseAddSymbolText .put ctx nodeIndex parseNode
  | .expressionTerminator => handleValueLike (fun data _ => .ok (data, none)) .endExpression ctx nodeIndex parseNode
  | .absoluteValue => handleUnaryPrefix .absoluteValue ctx nodeIndex parseNode
  | .opposite => handleUnaryPrefix .opposite ctx nodeIndex parseNode
  | .bitwiseNot => handleUnaryPrefix .bitwiseNot ctx nodeIndex parseNode
  | .not => handleUnaryPrefix .not ctx nodeIndex parseNode
  | .tis => handleUnaryPrefix .tis ctx nodeIndex parseNode
  | .typeOf => handleUnaryPrefix .typeOf ctx nodeIndex parseNode
  | .accessLeftInternal => handleUnaryPrefix .accessLeftInternal ctx nodeIndex parseNode
  | .emptyApply => handleUnarySuffix .emptyApply ctx nodeIndex parseNode
  | .accessRightInternal => handleUnarySuffix .accessRightInternal ctx nodeIndex parseNode
  | .accessLengthInternal => handleUnarySuffix .accessLengthInternal ctx nodeIndex parseNode
  | .addition => handleBinaryOperation .add ctx nodeIndex parseNode
  | .subtraction => handleBinaryOperation .subtract ctx nodeIndex parseNode
  | .multiplicationSign => handleBinaryOperation .multiply ctx nodeIndex parseNode
  | .division => handleBinaryOperation .divide ctx nodeIndex parseNode
  | .access => handleBinaryOperation .access ctx nodeIndex parseNode
  | .range => handleBinaryOperation .makeRange ctx nodeIndex parseNode
  | .startExclusiveRange => handleBinaryOperation .makeStartExclusiveRange ctx nodeIndex parseNode
  | .endExclusiveRange => handleBinaryOperation .makeEndExclusiveRange ctx nodeIndex parseNode
  | .exclusiveRange => handleBinaryOperation .makeExclusiveRange ctx nodeIndex parseNode
  | .exponentialSign => handleBinaryOperation .power ctx nodeIndex parseNode
  | .remainder => handleBinaryOperation .remainder ctx nodeIndex parseNode
  | .integerDivision => handleBinaryOperation .integerDivide ctx nodeIndex parseNode
  | .bitwiseAnd => handleBinaryOperation .bitwiseAnd ctx nodeIndex parseNode
  | .bitwiseOr => handleBinaryOperation .bitwiseOr ctx nodeIndex parseNode
  | .bitwiseXor => handleBinaryOperation .bitwiseXor ctx nodeIndex parseNode
  | .bitwiseRightShift => handleBinaryOperation .bitwiseShiftRight ctx nodeIndex parseNode
  | .bitwiseLeftShift => handleBinaryOperation .bitwiseShiftLeft ctx nodeIndex parseNode
  | .xor => handleBinaryOperation .xor ctx nodeIndex parseNode
  | .typeEqual => handleBinaryOperation .typeEqual ctx nodeIndex parseNode
  | .typeCast => handleBinaryOperation .applyType ctx nodeIndex parseNode
  | .equality => handleBinaryOperation .equal ctx nodeIndex parseNode
  | .inequality => handleBinaryOperation .notEqual ctx nodeIndex parseNode
  | .lessThan => handleBinaryOperation .lessThan ctx nodeIndex parseNode
  | .lessThanOrEqual => handleBinaryOperation .lessThanOrEqual ctx nodeIndex parseNode
  | .greaterThan => handleBinaryOperation .greaterThan ctx nodeIndex parseNode
  | .greaterThanOrEqual => handleBinaryOperation .greaterThanOrEqual ctx nodeIndex parseNode
  | .apply => handleBinaryOperation .apply ctx nodeIndex parseNode
  | .partialApply => handleBinaryOperation .partialApply ctx nodeIndex parseNode
  | .concatenation => handleBinaryOperation .concat ctx nodeIndex parseNode
  | .pair => handleBinaryOperationWithPush .makePair true ctx nodeIndex parseNode
  | .applyTo => handleBinaryOperationWithPush .apply true ctx nodeIndex parseNode
  | .commaList => handleList ctx nodeIndex parseNode
  | .list => handleList ctx nodeIndex parseNode
  | .or => handleLogicalBinary .or ctx nodeIndex parseNode
  | .and => handleLogicalBinary .and ctx nodeIndex parseNode
  | .group => handleGroup ctx nodeIndex parseNode
  | .sideEffect => handleSideEffect ctx nodeIndex parseNode
  | .nestedExpression => handleNestedExpression ctx currentRootJump nodeIndex parseNode
  | .jumpIfFalse => handleJumpIf .jumpIfFalse ctx nodeIndex parseNode
  | .jumpIfTrue => handleJumpIf .jumpIfTrue ctx nodeIndex parseNode
  | .elseJump => handleElseJump ctx nodeIndex parseNode
  | .reapply => handleReapply ctx nodeIndex parseNode
  | .subexpression => handleSubexpression ctx nodeIndex parseNode
  | .expressionSeparator => handleSubexpression ctx nodeIndex parseNode
  | .suffixApply => handleUnaryFixApply parseNode.left ctx nodeIndex parseNode
  | .prefixApply => handleUnaryFixApply parseNode.right ctx nodeIndex parseNode
  | .infixApply => handleInfixApply ctx nodeIndex parseNode
  | .drop => buildErr                                 -- "Cannot build a Drop definition"

/-! ### `validate_parse_tree` (build.rs 264–343) -/

/-- body of `for child in [left, right].into_iter().flatten()` -/
def validateChild (nodes : Array ParseNode) (index : Nat) (visited : Array Bool) (stack : Array Nat) (child : Nat) :
    Outcome (Array Bool × Array Nat) :=
  -- match (nodes.get(child), visited.get_mut(child))
  match nodes[child]?, visited[child]? with
  | some childNode, some childVisited =>
    if childNode.parent != some index then buildErr            -- "node {} is a child of node {} but has parent {:?}"
    else if childVisited then buildErr                        -- "node {} is referenced more than once"
    else
      -- *child_visited = true; stack.push(child)
      .ok (visited.setIfInBounds child true, stack.push child)
  | _, _ => buildErr                                          -- "refers to child {} which is outside of node list"

/-- `while let Some(index) = stack.pop() { .. }` of `validate_parse_tree`.  Every push marks a fresh node as
    visited, so the loop body runs at most `nodes.len()` times; `fuel` only makes the recursion structural. -/
def validateLoop (nodes : Array ParseNode) : (fuel : Nat) → (visited : Array Bool) → (stack : Array Nat) → Outcome (Array Bool)
  | 0, _, _ => .fuelOut
  | fuel + 1, visited, stack =>
    match stack.back? with
    | none => .ok visited
    | some index =>
      let stack := stack.pop
      match nodes[index]? with
      | none => buildErr                                      -- "no node at index {}"
      | some node =>
        let r1 : Outcome (Array Bool × Array Nat) :=
          match node.left with
          | none => .ok (visited, stack)
          | some child => validateChild nodes index visited stack child
        Outcome.bind r1 fun (visited, stack) =>
        let r2 : Outcome (Array Bool × Array Nat) :=
          match node.right with
          | none => .ok (visited, stack)
          | some child => validateChild nodes index visited stack child
        Outcome.bind r2 fun (visited, stack) => validateLoop nodes fuel visited stack

def validateParseTree (root : Nat) (nodes : Array ParseNode) : Outcome Unit :=
  match nodes[root]? with
  | none => buildErr                                          -- "root index {} is outside of node list"
  | some node =>
    match node.parent with
    | some _ => buildErr                                      -- "root node {} has parent {}"
    | none =>
      -- let mut visited = vec![false; nodes.len()]; visited[root] = true;       (root is in range here)
      let visited := (Array.replicate nodes.size false).setIfInBounds root true
      Outcome.bind (validateLoop nodes (nodes.size + 1) visited #[root]) fun visited =>
        -- for (index, (node, visited)) in nodes.iter().zip(visited.iter()).enumerate()
        if (nodes.toList.zip visited.toList).all (fun (node, v) => v || node.definition == .subexpression) then .ok ()
        else buildErr                                         -- "node {} is not part of the tree with root {}"

/-! ### `build` (build.rs 158–262) -/

/-- the statements after `handle_parse_node(..)?` in the inner loop (lines 225–236) -/
def afterHandle (nodes : Nodes) (nodeIndex : Nat) : Outcome Nodes :=
  match nodes[nodeIndex]? with
  | some (some node) =>
    if node.contributesToList then
      match node.listParent with
      | some (parent, _) =>
        -- node.contributes_to_list = false
        let nodes := putNode nodes nodeIndex { node with contributesToList := false }
        -- let parent_node = nodes.get_mut_or_error(parent)?; parent_node.child_count.next();
        Outcome.bind (getNode nodes parent) fun parentNode =>
          .ok (putNode nodes parent { parentNode with childCount := parentNode.childCount + 1 })
      | none => .ok nodes
    else .ok nodes
  | _ => .ok nodes

/-- `while let Some(node_index) = stack.pop() { .. }`; returns the state and the unused step fuel -/
def innerLoop (parseTree : Array ParseNode) (currentRootJump : Nat) : (stepFuel : Nat) → Ctx F → Outcome (Ctx F × Nat)
  | 0, _ => .fuelOut
  | stepFuel + 1, ctx =>
    match ctx.stack.back? with
    | none => .ok (ctx, stepFuel + 1)
    | some nodeIndex =>
      let ctx := { ctx with stack := ctx.stack.pop }
      match parseTree[nodeIndex]? with
      | none => buildErr                              -- "No parse node at index {}"
      | some parseNode =>
        Outcome.bind (handleParseNode parseFloat ctx currentRootJump nodeIndex parseNode) fun ctx =>
        Outcome.bind (afterHandle ctx.nodes nodeIndex) fun nodes =>
          innerLoop parseTree currentRootJump stepFuel { ctx with nodes }

/-- lines 183–205: the jump-table entry of the root that was popped -/
def rootJump (data : BState F) (nodes : Nodes) (rootIndex : Nat) : Outcome (BState F × Nat) :=
  let pushNew : Outcome (BState F × Nat) :=
    let index := getJumpTableLen data
    .ok (pushToJumpTable data (getInstructionLen data), index)
  match nodes[rootIndex]? with
  | some (some node) =>
    match node.jumpIndexToUpdate with
    | some index =>
      let jumpIndex := getInstructionLen data
      match setJump? data index jumpIndex with
      | some data => .ok (data, index)
      | none => buildErr                              -- "No jump point at {} when pulling from root stack"
    | none => pushNew
  | _ => pushNew

/-- lines 248–256: `for end_instruction in end_instructions { .. }`; `lastInstruction` was read before the loop -/
def pushEndInstructions (lastInstruction : Option Instr) (rootStart : Nat) (data : BState F) : List Instr → BState F
  | [] => data
  | endInstruction :: rest =>
    let data :=
      match lastInstruction with
      | some instruction =>
        -- commit 3cee692: an instruction of an earlier root does not count as this root's terminator
        -- later commit: only an explicit EndExpression may stand in for the root's own terminator
        if instruction = endInstruction ∧ endInstruction.1 = .endExpression ∧ getInstructionLen data > rootStart then data
        else pushInstr data endInstruction.1 endInstruction.2 none
      | none => pushInstr data endInstruction.1 endInstruction.2 none
    pushEndInstructions lastInstruction rootStart data rest

/-- `while let Some(root_index) = root_stack.pop() { .. }` -/
def rootLoop (parseTree : Array ParseNode) : (rootFuel stepFuel : Nat) → Ctx F → Outcome (Ctx F)
  | 0, _, _ => .fuelOut
  | rootFuel + 1, stepFuel, ctx =>
    match ctx.rootStack.back? with
    | none => .ok ctx
    | some rootIndex =>
      let ctx := { ctx with rootStack := ctx.rootStack.pop }
      Outcome.bind (rootJump ctx.data ctx.nodes rootIndex) fun (data, currentRootJump) =>
      -- let root_start = data.get_instruction_len();  let mut stack = vec![root_index];
      let rootStart := getInstructionLen data
      let ctx := { ctx with data, stack := #[rootIndex] }
      Outcome.bind (innerLoop parseFloat parseTree currentRootJump stepFuel ctx) fun (ctx, stepFuel) =>
      -- let last_instruction = data.get_instruction_iter().last();   then   data.get_instruction(i)
      let lastInstruction : Option Instr :=
        if ctx.data.instrs.size == 0 then none else ctx.data.instrs[ctx.data.instrs.size - 1]?
      let endInstructions : List Instr :=
        match ctx.nodes[rootIndex]? with
        | some (some node) =>
          match node.rootEndInstruction with
          | some endInstruction => endInstruction
          | none => [(.endExpression, none)]
        | _ => [(.endExpression, none)]
      let data := pushEndInstructions lastInstruction rootStart ctx.data endInstructions
      rootLoop parseTree rootFuel stepFuel { ctx with data }

/-- fuel that suffices for every parse tree that is a proper tree (each node is popped at most twice) -/
def defaultFuel (n : Nat) : Nat := 20 * n + 100

/-- lines 261–272: `for (index, (build_node, parse_node)) in nodes.iter().zip(parse_tree.iter()).enumerate()`:
    every parse node except `Subexpression` ones must have been given a build node (commit 85b4b67) -/
def allScheduled (nodes : Nodes) (parseTree : Array ParseNode) : Bool :=
  (nodes.toList.zip parseTree.toList).all (fun (buildNode, parseNode) =>
    !(buildNode.isNone && parseNode.definition != .subexpression))

/-- the part of `build` after `validate_parse_tree(..)?` (lines 171–274) -/
def buildCore (fuel : Nat) (parseRoot : Nat) (parseTree : Array ParseNode) (data : BState F) : Outcome (BState F × Nat) :=
  let nodes : Nodes := Array.replicate parseTree.size none
  -- same as root jump index but this one needs to be returned
  let treeRootJump := getJumpTableLen data
  Outcome.bind (setNodeIdx nodes parseRoot (BuildNode.new parseRoot treeRootJump) "build.rs:178") fun nodes =>
  let ctx : Ctx F := { data, nodes, rootStack := #[parseRoot], stack := #[] }
  Outcome.bind (rootLoop parseFloat parseTree fuel fuel ctx) fun ctx =>
    if allScheduled ctx.nodes parseTree then .ok (ctx.data, treeRootJump)
    else buildErr                                     -- "{:?} node {} has no place in the instructions of its parent"

/-- `build(parse_root, parse_tree, data)`: `Ok(BuildData { jump_index, .. })` is `.ok (data', jump_index)` -/
def build (fuel : Nat) (parseRoot : Nat) (parseTree : Array ParseNode) (data : BState F) : Outcome (BState F × Nat) :=
  if parseTree.isEmpty then
    -- the empty program gets its own jump entry (fix commit), then its EndExpression
    let jumpIndex := getJumpTableLen data
    let data := pushToJumpTable data (getInstructionLen data)
    .ok (pushInstr data .endExpression none none, jumpIndex)
  else
    -- validate_parse_tree(parse_root, &parse_tree)?;
    Outcome.bind (validateParseTree parseRoot parseTree) fun _ =>
      buildCore parseFloat fuel parseRoot parseTree data

end

end Garnish.Model.Build
