/-
`garnish_lang_simple_data::symbol_value` (/repo/data/src/lib.rs):

    let mut h = DefaultHasher::new(); value.hash(&mut h); h.finish()

`DefaultHasher::new()` is SipHash-1-3 with the keys (0, 0); `str::hash` feeds the UTF-8 bytes of the string
followed by the single byte 0xff (`Hasher::write_str`).  The streaming `write`s of the Rust hasher compute the
SipHash of the concatenated byte string, which is what `sipHash13` below does (the Rust `std` hasher is in the
trusted base; the SYM correspondence suite compares the two on generated names).
-/
namespace Garnish.Model.SipHash

structure SipState where
  v0 : UInt64
  v1 : UInt64
  v2 : UInt64
  v3 : UInt64
deriving Repr, DecidableEq

@[inline] def rotl (x : UInt64) (b : UInt64) : UInt64 := (x <<< b) ||| (x >>> (64 - b))

/-- one SipRound (`compress!` in core::hash::sip) -/
def sipRound (s : SipState) : SipState :=
  let v0 := s.v0 + s.v1
  let v1 := rotl s.v1 13
  let v1 := v1 ^^^ v0
  let v0 := rotl v0 32
  let v2 := s.v2 + s.v3
  let v3 := rotl s.v3 16
  let v3 := v3 ^^^ v2
  let v0 := v0 + v3
  let v3 := rotl v3 21
  let v3 := v3 ^^^ v0
  let v2 := v2 + v1
  let v1 := rotl v1 17
  let v1 := v1 ^^^ v2
  let v2 := rotl v2 32
  ⟨v0, v1, v2, v3⟩

/-- `SipHasher13::new_with_keys(k0, k1)` (`reset`) -/
def init (k0 k1 : UInt64) : SipState :=
  ⟨k0 ^^^ 0x736f6d6570736575, k1 ^^^ 0x646f72616e646f6d, k0 ^^^ 0x6c7967656e657261, k1 ^^^ 0x7465646279746573⟩

/-- little-endian word of up to 8 bytes -/
def leWord : List UInt8 → UInt64
  | [] => 0
  | b :: rest => b.toUInt64 ||| (leWord rest <<< 8)

/-- absorb one 8-byte message word with c = 1 compression round -/
def absorb (s : SipState) (m : UInt64) : SipState :=
  let s := { s with v3 := s.v3 ^^^ m }
  let s := sipRound s
  { s with v0 := s.v0 ^^^ m }

/-- process the full 8-byte blocks; returns the state and the (< 8) trailing bytes.
    `fuel` only makes the recursion structural (`bytes.length / 8 + 1` suffices). -/
def blocks : (fuel : Nat) → SipState → List UInt8 → SipState × List UInt8
  | 0, s, bytes => (s, bytes)
  | fuel + 1, s, bytes =>
    if bytes.length < 8 then (s, bytes)
    else blocks fuel (absorb s (leWord (bytes.take 8))) (bytes.drop 8)

/-- SipHash-1-3 of a byte string under the keys (k0, k1) -/
def sipHash13 (k0 k1 : UInt64) (bytes : List UInt8) : UInt64 :=
  let (s, tail) := blocks (bytes.length / 8 + 1) (init k0 k1) bytes
  -- final block: the length (mod 256) in the top byte, the trailing bytes below
  let b : UInt64 := ((UInt64.ofNat bytes.length) <<< 56) ||| leWord tail
  let s := absorb s b
  -- finalisation: d = 3 rounds
  let s := { s with v2 := s.v2 ^^^ 0xff }
  let s := sipRound (sipRound (sipRound s))
  s.v0 ^^^ s.v1 ^^^ s.v2 ^^^ s.v3

/-- UTF-8 bytes of a character list (`str::as_bytes`) -/
def utf8Bytes (cs : List Char) : List UInt8 := (String.ofList cs).toUTF8.toList

/-- `symbol_value(value)`: DefaultHasher over `value.as_bytes()` followed by 0xff -/
def symbolValue (value : List Char) : UInt64 :=
  sipHash13 0 0 (utf8Bytes value ++ [0xff])

end Garnish.Model.SipHash
