/-
Executable model of the lexer, compiler/src/lex/lexer.rs (non-test code, lines 1–969).

Statement-by-statement transliteration: every definition names the Rust item it mirrors, the order of
assignments inside each arm is the Rust order, and defects of the Rust code are reproduced, not repaired.

Conventions
* `String` = `List Char`; `String::len()` (a BYTE count) = `utf8Len`; `push` appends at the end.
* `usize` = `Nat` (`+= 1` cannot overflow in practice; every `-` of the Rust code is listed below).
* `Result<(), CompilerError>` = `LexResult` (messages / positions of errors are not modelled).
* `input` / `input_iter` are the `List Char` argument of `lexLoop`; every other field of `Lexer` is a field here.
* Unicode predicates (`char::is_alphanumeric`, `char::is_numeric`) are a parameter `cc : CharClass`; the driver
  instantiates it with the generated range tables (Garnish/Gen/CharRanges.lean). `char::is_ascii_whitespace`
  has a fixed documented definition and is hard-coded (`isAsciiWhitespace`).

This file follows the lexer WITH the C13 repair patches /verif/.work/lexfix-1..5.diff applied
(1 first error is kept: `internal_next` checks `result` before every character; 2 a blank line after trailing
spaces/tabs is one Subexpression token, the whitespace split of the Subexpression arm is gone; 3 an empty byte list
does not swallow the next character; 4 line/column are counted in one place, the tail of `process_char`;
5 a `'\0'` is the end-of-input sentinel only when `at_end`). Line numbers below are those of the unpatched file.

Potential panic sites of the Rust code and how they appear here
* lexer.rs:473 `self.text_column - 1` (Float arm): `Outcome.panic` if `textColumn = 0` (overflow checks are on in
  debug builds, e.g. in the harness).
* (the byte slices of the Subexpression arm, lexer.rs:669 / 678, are removed by patch 2)
* lexer.rs:309 `unreachable!()` in `start_token`: `current_operator()` is evaluated twice on the same state, the
  second result cannot differ; the model evaluates it once.
* lexer.rs:887 `len - 1` in `create_operator_tree`: evaluated only inside the loop over the characters of the
  spelling, hence `len ≥ 1`; Nat subtraction is exact there.
* lexer.rs:910 / 919 `unreachable!()` in `create_operator_tree`: modelled as `Outcome.panic` (`insertPath`).
* no `unwrap`/`expect`/indexing elsewhere; `String::pop`, `chars().nth(1)` return `Option`s and cannot panic.
-/
import Garnish.Model.Outcome
import Garnish.Gen.Enums
import Garnish.Gen.LexTables

namespace Garnish.Model.Lexer
open Garnish.Gen (TokenType)

/-! ## strings -/

/-- `String::len()`: length in UTF-8 bytes -/
def utf8Len : List Char → Nat
  | [] => 0
  | c :: r => c.utf8Size + utf8Len r

/-- `String::push` -/
def push (s : List Char) (c : Char) : List Char := s ++ [c]

/-- `String::pop` (the popped character is never used by the lexer) -/
def pop (s : List Char) : List Char := s.dropLast

/-- `str::starts_with(char)` -/
def startsWith (s : List Char) (c : Char) : Bool := s.head? == some c

/-- `str::ends_with(char)` -/
def endsWith (s : List Char) (c : Char) : Bool := s.getLast? == some c

/-- `str::trim_matches(c)`: strips the character from both ends -/
def trimMatches (s : List Char) (c : Char) : List Char :=
  ((s.dropWhile (· == c)).reverse.dropWhile (· == c)).reverse

/-! ## character classes -/

/-- the Rust std Unicode predicates the lexer calls -/
structure CharClass where
  /-- `char::is_alphanumeric` -/
  isAlphanumeric : Char → Bool
  /-- `char::is_numeric` -/
  isNumeric : Char → Bool

/-- `char::is_ascii_whitespace`: U+0020 SPACE, U+0009 TAB, U+000A LF, U+000C FF, U+000D CR -/
def isAsciiWhitespace (c : Char) : Bool :=
  c == ' ' || c == '\t' || c == '\n' || c == '\x0c' || c == '\r'

/-- `fn is_identifier_char` -/
def isIdentifierChar (cc : CharClass) (c : Char) : Bool :=
  cc.isAlphanumeric c || c == '_' || c == ':'

/-- `fn is_identifier` -/
def isIdentifier (cc : CharClass) (s : List Char) : Bool :=
  s.all (isIdentifierChar cc)

/-! ## operator tree -/

/-- `struct LexerOperatorNode`; `children: HashMap<char, _>` is an association list with unique keys -/
inductive LexerOperatorNode where
  | mk (value : Char) (tokenType : Option TokenType) (children : List (Char × LexerOperatorNode))

namespace LexerOperatorNode
def value : LexerOperatorNode → Char
  | mk v _ _ => v
def tokenType : LexerOperatorNode → Option TokenType
  | mk _ t _ => t
def children : LexerOperatorNode → List (Char × LexerOperatorNode)
  | mk _ _ c => c
end LexerOperatorNode

/-- `HashMap::get` -/
def mapGet {β : Type} : List (Char × β) → Char → Option β
  | [], _ => none
  | (k, v) :: r, key => if k == key then some v else mapGet r key

/-- `HashMap::contains_key` -/
def mapContainsKey {β : Type} (m : List (Char × β)) (key : Char) : Bool :=
  (mapGet m key).isSome

/-- replace the value stored under an existing key (writes through a `get_mut` reference) -/
def mapSet {β : Type} : List (Char × β) → Char → β → List (Char × β)
  | [], _, _ => []
  | (k, v) :: r, key, nv => if k == key then (k, nv) :: r else (k, v) :: mapSet r key nv

/-- `HashMap::insert` of a key known to be absent -/
def mapInsertNew {β : Type} (m : List (Char × β)) (key : Char) (v : β) : List (Char × β) :=
  m ++ [(key, v)]

/-- `LexerOperatorNode::get_child` -/
def LexerOperatorNode.getChild (n : LexerOperatorNode) (key : Char) : Option LexerOperatorNode :=
  mapGet n.children key

/-- body of `for (i, c) in characters.chars().enumerate()` of `create_operator_tree`, `current` being the node
the `&mut` cursor points at; returns the rebuilt `current` -/
def insertPath (tokenType : TokenType) (len : Nat) :
    List Char → Nat → LexerOperatorNode → Outcome LexerOperatorNode
  | [], _, current => .ok current
  | c :: rest, i, current =>
    -- let last = i >= len - 1;     (len ≥ 1 here: the spelling has at least the character c)
    let last := decide (i ≥ len - 1)
    -- if !current.children.contains_key(&c) { insert new node } else if last { update token type }
    let children1 : Outcome (List (Char × LexerOperatorNode)) :=
      if !mapContainsKey current.children c then
        .ok (mapInsertNew current.children c (.mk c (if last then some tokenType else none) []))
      else if last then
        match mapGet current.children c with
        | some node => .ok (mapSet current.children c (.mk node.value (some tokenType) node.children))
        | none => .panic "lexer.rs:910 unreachable"
      else .ok current.children
    match children1 with
    | .ok children1 =>
      -- match current.children.get_mut(&c) { Some(child) => current = child, None => unreachable!() }
      match mapGet children1 c with
      | some child =>
        match insertPath tokenType len rest (i + 1) child with
        | .ok child' => .ok (.mk current.value current.tokenType (mapSet children1 c child'))
        | .err e => .err e
        | .panic s => .panic s
        | .fuelOut => .fuelOut
      | none => .panic "lexer.rs:919 unreachable"
    | .err e => .err e
    | .panic s => .panic s
    | .fuelOut => .fuelOut

/-- `for (characters, token_type) in symbol_list` of `create_operator_tree` -/
def insertAll : List (List Char × TokenType) → LexerOperatorNode → Outcome LexerOperatorNode
  | [], root => .ok root
  | (characters, tokenType) :: rest, root =>
    match insertPath tokenType (utf8Len characters) characters 0 root with
    | .ok root' => insertAll rest root'
    | .err e => .err e
    | .panic s => .panic s
    | .fuelOut => .fuelOut

/-- `pub fn create_operator_tree` -/
def createOperatorTree (symbolList : List (List Char × TokenType)) : Outcome LexerOperatorNode :=
  insertAll symbolList (.mk '\x00' none [])

/-! ## tokens and lexer state -/

/-- `struct LexerToken` -/
structure LexerToken where
  text : List Char
  tokenType : TokenType
  row : Nat
  column : Nat
deriving DecidableEq, Repr

/-- `enum LexingState` -/
inductive LexingState where
  | noToken | operator | spaces | subexpression | number | float | identifier | annotation | lineAnnotation
  | charList | startCharList | byteList | startByteList
deriving DecidableEq, Repr, Inhabited

/-- `Result<(), CompilerError>` -/
inductive LexResult where
  | ok | err
deriving DecidableEq, Repr, Inhabited

def LexResult.isOk : LexResult → Bool
  | .ok => true
  | .err => false
def LexResult.isErr : LexResult → Bool
  | .ok => false
  | .err => true

/-- `struct Lexer` (without `input`, `input_iter`) -/
structure Lexer where
  operatorTree : LexerOperatorNode
  currentCharacters : List Char
  currentTokenType : Option TokenType
  textRow : Nat
  textColumn : Nat
  tokenStartColumn : Nat
  tokenStartRow : Nat
  shouldCreate : Bool
  state : LexingState
  canFloat : Bool
  startQuoteCount : Nat
  endQuoteCount : Nat
  couldBeSubExpression : Bool
  result : LexResult
  charactersLexed : Nat
  atEnd : Bool

/-- `Lexer::new` for an already built operator tree -/
def Lexer.init (operatorTree : LexerOperatorNode) : Lexer where
  operatorTree := operatorTree
  currentCharacters := []
  currentTokenType := none
  textRow := 0
  textColumn := 0
  tokenStartColumn := 0
  tokenStartRow := 0
  shouldCreate := true
  state := .noToken
  canFloat := true
  startQuoteCount := 0
  endQuoteCount := 0
  couldBeSubExpression := false
  result := .ok
  charactersLexed := 0
  atEnd := false

/-- `Lexer::new` -/
def Lexer.new : Outcome Lexer :=
  match createOperatorTree Garnish.Gen.LexTables.operatorChars with
  | .ok t => .ok (Lexer.init t)
  | .err e => .err e
  | .panic s => .panic s
  | .fuelOut => .fuelOut

/-- walk of `current_operator` from `node` along `chars` -/
def walkOperator : LexerOperatorNode → List Char → Option LexerOperatorNode
  | node, [] => some node
  | node, c :: r =>
    match node.getChild c with
    | none => none
    | some n => walkOperator n r

/-- `Lexer::current_operator` -/
def currentOperator (self : Lexer) : Option LexerOperatorNode :=
  walkOperator self.operatorTree self.currentCharacters

/-- `Lexer::start_token` -/
def startToken (cc : CharClass) (self : Lexer) (c : Char) : Lexer :=
  let self := { self with currentCharacters := [], currentTokenType := none }
  let self := { self with tokenStartRow := self.textRow, tokenStartColumn := self.textColumn }
  let self := { self with currentCharacters := push self.currentCharacters c }
  -- start new token
  match currentOperator self with
  | some node => { self with state := .operator, currentTokenType := node.tokenType }
  | none =>
    if c == ' ' || c == '\t' || c == '\r' then
      { self with state := .spaces, currentTokenType := some .whitespace }
    else if isAsciiWhitespace c then
      -- any other white space, all some form of new line
      { self with state := .subexpression, currentTokenType := some .subexpression }
    else if cc.isNumeric c then
      { self with state := .number, currentTokenType := some .number }
    else if isIdentifierChar cc c then
      { self with state := .identifier, currentTokenType := some .identifier }
    else if c == '`' then
      { self with state := .identifier, currentTokenType := some .suffixIdentifier }
    else if c == '@' then
      { self with state := .annotation, currentTokenType := some .annotation }
    else if c == '"' then
      { self with state := .startCharList, currentTokenType := some .charList }
    else if c == '\'' then
      { self with state := .startByteList, currentTokenType := some .byteList }
    else if c == '\x00' && self.atEnd then
      -- allowing for now as final loop character
      { self with state := .noToken, currentTokenType := none, currentCharacters := [] }
    else
      -- "Invalid start to token"; NOTE state and current_characters (= [c]) are left as they are
      { self with result := .err }

/-- `Lexer::can_create_valid_token` -/
def canCreateValidToken (self : Lexer) : LexResult :=
  match self.currentTokenType with
  | some .identifier =>
    if self.currentCharacters == ['_'] || self.currentCharacters == [':'] then .err else .ok
  | some _ => .ok
  | none => .ok

/-! ## `process_char`: the arms of `let start_new = match self.state { … }`

Arms that neither set `next_token`, nor `return`, nor can panic yield `(self, start_new)`. -/

/-- `LexingState::NoToken` arm -/
def armNoToken (cc : CharClass) (self : Lexer) (c : Char) : Lexer × Bool :=
  (startToken cc self c, false)

/-- `LexingState::Operator` arm -/
def armOperator (cc : CharClass) (self : Lexer) (c : Char) : Lexer × Bool :=
  let self := { self with currentCharacters := push self.currentCharacters c }
  match currentOperator self with
  | some node =>
    -- update token type and continue
    ({ self with currentTokenType := node.tokenType }, false)
  | none =>
    if startsWith self.currentCharacters '_' && isIdentifier cc self.currentCharacters then
      ({ self with currentTokenType := some .identifier, state := .identifier }, false)
    else if startsWith self.currentCharacters '.' && utf8Len self.currentCharacters == 2
        && cc.isNumeric c && self.canFloat then
      ({ self with currentTokenType := some .number, state := .float }, false)
    else
      -- remove added character then end
      ({ self with currentCharacters := pop self.currentCharacters }, true)

/-- `LexingState::Number` arm -/
def armNumber (cc : CharClass) (self : Lexer) (c : Char) : Lexer × Bool :=
  if cc.isNumeric c || c == '_' || cc.isAlphanumeric c then
    ({ self with currentCharacters := push self.currentCharacters c }, false)
  else if c == '.' && self.canFloat then
    ({ self with currentCharacters := push self.currentCharacters c,
                 currentTokenType := some .number, state := .float }, false)
  else
    (self, true)

/-- result of an arm that may set `next_token` or leave `process_char` early -/
inductive Step where
  /-- fall through to the code after the `match`, with `next_token` and `start_new` -/
  | cont (self : Lexer) (nextToken : Option LexerToken) (startNew : Bool)
  /-- `return None;` -/
  | returnNone (self : Lexer)

/-- `LexingState::Float` arm -/
def armFloat (cc : CharClass) (self : Lexer) (c : Char) : Outcome Step :=
  if cc.isNumeric c || c == '_' || cc.isAlphanumeric c then
    .ok (.cont { self with currentCharacters := push self.currentCharacters c } none false)
  else if c == '.' && endsWith self.currentCharacters '.' then
    -- split current token into just an integer and new Range token
    let s := trimMatches self.currentCharacters '.'
    let token : LexerToken := ⟨s, .number, self.tokenStartRow, self.tokenStartColumn⟩
    let nextToken := some token
    let self := { self with tokenStartRow := self.textRow }
    -- let correct_start_column = self.text_column - 1;
    if self.textColumn = 0 then .panic "lexer.rs:473 text_column - 1" else
    let correctStartColumn := self.textColumn - 1
    let self := startToken cc self '.'
    -- set to two back for existing period
    let self := { self with tokenStartColumn := correctStartColumn }
    let self := { self with currentCharacters := push self.currentCharacters c }
    match currentOperator self with
    | some node =>
      .ok (.cont { self with currentTokenType := node.tokenType } nextToken false)
    | none =>
      -- "Could not setup range token."
      .ok (.returnNone { self with result := .err })
  else
    .ok (.cont self none true)

/-- `LexingState::Identifier` arm -/
def armIdentifier (cc : CharClass) (self : Lexer) (c : Char) : Lexer × Bool :=
  if isIdentifierChar cc c then
    ({ self with currentCharacters := push self.currentCharacters c }, false)
  else if c == '`' then
    let self := { self with currentCharacters := push self.currentCharacters c }
    let self := { self with shouldCreate := false }
    let newType : TokenType :=
      if self.currentTokenType == some .suffixIdentifier then .infixIdentifier else .prefixIdentifier
    let self := { self with currentTokenType := some newType }
    (self, true)
  else
    -- check if identifier is a symbol
    let self :=
      if startsWith self.currentCharacters ':' && self.currentCharacters[1]? != some ':' then
        { self with currentTokenType := some .symbol }
      else self
    (self, true)

/-- `LexingState::StartCharList` arm -/
def armStartCharList (self : Lexer) (c : Char) : Lexer × Bool :=
  let (self, end_) :=
    if c != '"' then
      if utf8Len self.currentCharacters == 2 then
        -- meaning, we have 2 double quotes already
        (self, true)
      else
        ({ self with startQuoteCount := utf8Len self.currentCharacters, state := .charList }, false)
    else (self, false)
  let self :=
    if !end_ && !(c == '\x00' && self.atEnd) then { self with currentCharacters := push self.currentCharacters c }
    else self
  (self, end_)

/-- `LexingState::CharList` arm -/
def armCharList (self : Lexer) (c : Char) : Lexer × Bool :=
  if c == '"' then
    let self := { self with endQuoteCount := self.endQuoteCount + 1 }
    let self := { self with currentCharacters := push self.currentCharacters c }
    if self.startQuoteCount == self.endQuoteCount then
      ({ self with shouldCreate := false }, true)
    else (self, false)
  else
    -- reset end quote count every non-quote character
    ({ self with endQuoteCount := 0, currentCharacters := push self.currentCharacters c }, false)

/-- `LexingState::StartByteList` arm -/
def armStartByteList (self : Lexer) (c : Char) : Lexer × Bool :=
  let (self, end_) :=
    if c != '\'' then
      if utf8Len self.currentCharacters == 2 then
        -- reserved 2 quotes for empty byte lists
        (self, true)
      else
        ({ self with startQuoteCount := utf8Len self.currentCharacters, state := .byteList }, false)
    else (self, false)
  let self :=
    if !end_ && !(c == '\x00' && self.atEnd) then { self with currentCharacters := push self.currentCharacters c }
    else self
  (self, end_)

/-- `LexingState::ByteList` arm -/
def armByteList (self : Lexer) (c : Char) : Lexer × Bool :=
  if c == '\'' then
    let self := { self with endQuoteCount := self.endQuoteCount + 1 }
    let self := { self with currentCharacters := push self.currentCharacters c }
    if self.startQuoteCount == self.endQuoteCount then
      ({ self with shouldCreate := false }, true)
    else (self, false)
  else
    ({ self with endQuoteCount := 0, currentCharacters := push self.currentCharacters c }, false)

/-- `LexingState::Spaces` arm -/
def armSpaces (self : Lexer) (c : Char) : Lexer × Bool :=
  if c == '\n' then
    match self.couldBeSubExpression with
    | true =>
      -- second newline character in whitespace sequence: end token as subexpression
      let self := { self with currentTokenType := some .subexpression }
      let self := { self with currentCharacters := push self.currentCharacters c }
      ({ self with shouldCreate := false }, true)
    | false =>
      -- first newline character in whitespace sequence: switch to subexpression
      let self := { self with currentCharacters := push self.currentCharacters c }
      ({ self with state := .subexpression }, false)
  else if c != ' ' && c != '\t' then
    (self, true)
  else
    ({ self with currentCharacters := push self.currentCharacters c }, false)

/-- `LexingState::Subexpression` arm -/
def armSubexpression (self : Lexer) (c : Char) : Lexer × Bool :=
  if isAsciiWhitespace c && !(c == '\t' || c == ' ') then
    -- add character and create token
    let self := { self with currentCharacters := push self.currentCharacters c }
    -- could've arrived here by passing through whitespace state: leading spaces stay part of the token
    let self := { self with currentTokenType := some .subexpression }
    -- skip start new token for this character since it is a part of this token
    ({ self with shouldCreate := false }, true)
  else
    -- change to white space token and start new, but could be a subexpression still
    let self := { self with currentTokenType := some .whitespace, couldBeSubExpression := true }
    if c == '\t' || c == ' ' then
      ({ self with currentCharacters := push self.currentCharacters c, state := .spaces }, false)
    else
      (self, true)

/-- `LexingState::Annotation` arm -/
def armAnnotation (cc : CharClass) (self : Lexer) (c : Char) : Lexer × Bool :=
  if c == '@' && utf8Len self.currentCharacters == 1 then
    ({ self with currentCharacters := push self.currentCharacters c, state := .lineAnnotation,
                 currentTokenType := some .lineAnnotation }, false)
  else if cc.isAlphanumeric c || c == '_' then
    ({ self with currentCharacters := push self.currentCharacters c }, false)
  else
    (self, true)

/-- `LexingState::LineAnnotation` arm -/
def armLineAnnotation (self : Lexer) (c : Char) : Lexer × Bool :=
  if c == '\n' then
    ({ self with currentCharacters := push self.currentCharacters c, shouldCreate := false }, true)
  else if c == '\x00' && self.atEnd then
    (self, true)
  else
    ({ self with currentCharacters := push self.currentCharacters c }, false)

def Step.ofPair (p : Lexer × Bool) : Outcome Step := .ok (.cont p.1 none p.2)

/-- `let start_new = match self.state { … }` -/
def stateStep (cc : CharClass) (self : Lexer) (c : Char) : Outcome Step :=
  match self.state with
  | .noToken => Step.ofPair (armNoToken cc self c)
  | .operator => Step.ofPair (armOperator cc self c)
  | .number => Step.ofPair (armNumber cc self c)
  | .float => armFloat cc self c
  | .identifier => Step.ofPair (armIdentifier cc self c)
  | .startCharList => Step.ofPair (armStartCharList self c)
  | .charList => Step.ofPair (armCharList self c)
  | .startByteList => Step.ofPair (armStartByteList self c)
  | .byteList => Step.ofPair (armByteList self c)
  | .spaces => Step.ofPair (armSpaces self c)
  | .subexpression => Step.ofPair (armSubexpression self c)
  | .annotation => Step.ofPair (armAnnotation cc self c)
  | .lineAnnotation => Step.ofPair (armLineAnnotation self c)

/-- token types after which the next period cannot start a float (`self.can_float = ![…].contains(..)`) -/
def blocksFloat : Option TokenType → Bool
  | some .value | some .charList | some .byteList | some .identifier | some .period | some .number => true
  | _ => false

/-- the `if self.state != LexingState::NoToken { … }` block inside `if start_new`:
`cont self next_token`, or `returnNone` for the "No token" early return -/
def pushNewToken (self : Lexer) (nextToken : Option LexerToken) : Step :=
  if self.state != .noToken then
    let self := { self with result := canCreateValidToken self }
    if self.result.isOk then
      match self.currentTokenType with
      | some t => .cont self (some ⟨self.currentCharacters, t, self.tokenStartRow, self.tokenStartColumn⟩) true
      | none => .returnNone { self with result := .err }
    else .cont self nextToken true
  else .cont self nextToken true

/-- the tail of `process_char`: line and column are counted here only
`if c == '\n' { text_column = 0; text_row += 1 } else { text_column += 1 }` -/
def bumpColumn (self : Lexer) (c : Char) : Lexer :=
  if c == '\n' then { self with textColumn := 0, textRow := self.textRow + 1 }
  else { self with textColumn := self.textColumn + 1 }

/-- the part of `process_char` after the `match`: `if start_new { … }`, column increment, `next_token` -/
def finishChar (cc : CharClass) (self : Lexer) (c : Char) (nextToken : Option LexerToken) (startNew : Bool) :
    Lexer × Option LexerToken :=
  if startNew then
    -- determine if the next token can be a float
    let self := { self with canFloat := !blocksFloat self.currentTokenType }
    match pushNewToken self nextToken with
    | .returnNone self => (self, none)
    | .cont self nextToken _ =>
      -- set default for new if next token isn't a symbol
      let self := { self with state := .noToken, currentCharacters := [], currentTokenType := none,
                              startQuoteCount := 0, endQuoteCount := 0, couldBeSubExpression := false }
      let self :=
        if self.shouldCreate then startToken cc self c
        else { self with shouldCreate := true }   -- used only for single skips, flip back
      (bumpColumn self c, nextToken)
  else
    (bumpColumn self c, nextToken)

/-- `Lexer::process_char` -/
def processChar (cc : CharClass) (self : Lexer) (c : Char) : Outcome (Lexer × Option LexerToken) :=
  let self := { self with charactersLexed := self.charactersLexed + 1 }
  match stateStep cc self c with
  | .ok (.cont self nextToken startNew) => .ok (finishChar cc self c nextToken startNew)
  | .ok (.returnNone self) => .ok (self, none)
  | .err e => .err e
  | .panic s => .panic s
  | .fuelOut => .fuelOut

/-! ## `internal_next` and `lex`

`lex` is `while let Some(token) = lexer.next() { match lexer.result { Ok => push, Err => return Err } }` followed by
`match lexer.result`; `internal_next` is a `loop` that first checks `self.result.is_err()` (patch 1: before EVERY
character) and then feeds one character to `process_char`, until a token comes out.
The two loops are fused into one structural recursion over the remaining input (`lexLoop`); once the input is
exhausted every further `internal_next` call pushes a `'\0'` through `process_char` (`lexEnd`, explicit fuel:
the Rust code has no syntactic bound on the number of such calls). -/

/-- the final `match lexer.result { Ok(_) => Ok(tokens), Err(e) => Err(e) }` of `lex` -/
def lexFinish (self : Lexer) (tokens : List LexerToken) : Outcome (List LexerToken × Lexer) :=
  match self.result with
  | .ok => .ok (tokens, self)
  | .err => .err .syntax

/-- end of input inside `internal_next` (the `None =>` arm), repeated for every `lexer.next()` call of `lex` -/
def lexEnd (cc : CharClass) : Nat → Lexer → List LexerToken → Outcome (List LexerToken × Lexer)
  | 0, _, _ => .fuelOut
  | fuel + 1, self, tokens =>
    -- top of the `loop`: `if self.result.is_err() { break }`; internal_next returns None, the `while let` ends
    if self.result.isErr then lexFinish self tokens else
    let self := { self with atEnd := true }
    -- run all checks again to finalize last token by pushing through null character
    match processChar cc self '\x00' with
    | .ok (self, some t) =>
      -- internal_next returns Some(t); back in `lex`: match lexer.result
      match self.result with
      | .err => .err .syntax
      | .ok => lexEnd cc fuel self (tokens ++ [t])      -- next `lexer.next()`
    | .ok (self, none) =>
      -- if we have a lingering token and don't already have an err
      let self :=
        if utf8Len self.currentCharacters > 0 && self.result.isOk then { self with result := .err } else self
      -- break; internal_next returns None; the `while let` of `lex` ends
      lexFinish self tokens
    | .err e => .err e
    | .panic s => .panic s
    | .fuelOut => .fuelOut

/-- number of `lexer.next()` calls at end of input the model allows before reporting `fuelOut` -/
def endFuel : Nat := 4

/-- `lex`'s `while let` fused with `internal_next`'s `loop`, entered at the top of the `loop` -/
def lexLoop (cc : CharClass) : List Char → Lexer → List LexerToken → Outcome (List LexerToken × Lexer)
  | [], self, tokens => lexEnd cc endFuel self tokens
  | c :: rest, self, tokens =>
    -- top of the `loop`: `if self.result.is_err() { break }`; internal_next returns None, the `while let` ends
    if self.result.isErr then lexFinish self tokens else
    match processChar cc self c with
    | .ok (self, some t) =>
      -- internal_next returns Some(t); back in `lex`: match lexer.result
      match self.result with
      | .err => .err .syntax
      | .ok => lexLoop cc rest self (tokens ++ [t])     -- next `lexer.next()`
    | .ok (self, none) => lexLoop cc rest self tokens
    | .err e => .err e
    | .panic s => .panic s
    | .fuelOut => .fuelOut

/-- `Lexer::internal_next` on its own (not used by `lex`, kept for line-by-line comparison):
returns the token, the remaining input and the lexer. -/
def internalNext (cc : CharClass) : List Char → Lexer → Outcome (Option LexerToken × List Char × Lexer)
  | [], self =>
    if self.result.isErr then .ok (none, [], self) else
    let self := { self with atEnd := true }
    match processChar cc self '\x00' with
    | .ok (self, some t) => .ok (some t, [], self)
    | .ok (self, none) =>
      let self :=
        if utf8Len self.currentCharacters > 0 && self.result.isOk then { self with result := .err } else self
      .ok (none, [], self)
    | .err e => .err e
    | .panic s => .panic s
    | .fuelOut => .fuelOut
  | c :: rest, self =>
    if self.result.isErr then .ok (none, c :: rest, self) else
    match processChar cc self c with
    | .ok (self, some t) => .ok (some t, rest, self)
    | .ok (self, none) => internalNext cc rest self
    | .err e => .err e
    | .panic s => .panic s
    | .fuelOut => .fuelOut

/-- `pub fn lex`, also returning the final lexer state (for `characters_lexed`) -/
def lexFull (cc : CharClass) (input : List Char) : Outcome (List LexerToken × Lexer) :=
  match Lexer.new with
  | .ok lexer => lexLoop cc input lexer []
  | .err e => .err e
  | .panic s => .panic s
  | .fuelOut => .fuelOut

/-- `pub fn lex` -/
def lex (cc : CharClass) (input : List Char) : Outcome (List LexerToken) :=
  match lexFull cc input with
  | .ok (tokens, _) => .ok tokens
  | .err e => .err e
  | .panic s => .panic s
  | .fuelOut => .fuelOut

end Garnish.Model.Lexer
