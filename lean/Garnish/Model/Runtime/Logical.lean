/-
L2 code model of runtime/src/runtime/logical.rs (`and`, `or`, `xor`, `not`, `tis`, `is_true_value`) over the
abstract store. The handlers return `Option<Data::Size>`: the next instruction when they jump.
-/
import Garnish.Model.Runtime.Utilities
namespace Garnish.Model.Runtime
open Garnish Gen Garnish.Model.Equality

variable {F σ : Type} (S : RStore F σ)

/-- `is_true_value`: `False | Unit => false, _ => true` -/
def isTrueValue (addr : Nat) : RM σ Bool := do
  match ← getDataType S addr with
  | .false | .unit => pure false
  | _ => pure true

/-- `and` -/
def and (data : Nat) : RM σ (Option Nat) := do
  let value ← nextRef S
  match ← isTrueValue S value with
  | true =>
    match ← getFromJumpTable S data with
    | some v => pure (some v)
    | none => stateError          -- "No jump point at index"
  | false => do
    pushBoolean S false
    pure none

/-- `or` -/
def or (data : Nat) : RM σ (Option Nat) := do
  let value ← nextRef S
  match ← isTrueValue S value with
  | true => do
    pushBoolean S true
    pure none
  | false =>
    match ← getFromJumpTable S data with
    | some v => pure (some v)
    | none => stateError

/-- the `match` of `xor`: `(false, false) | (true, true) => false, _ => true` -/
def xorResult : Bool → Bool → Bool
  | false, false | true, true => false
  | _, _ => true

/-- `xor` -/
def xor : RM σ (Option Nat) := do
  let (left, right) ← nextTwoRawRef S
  let result := xorResult (← isTrueValue S left) (← isTrueValue S right)
  pushBoolean S result
  pure none

/-- `not` -/
def not : RM σ (Option Nat) := do
  let addr ← nextRef S
  let result ← isTrueValue S addr
  pushBoolean S (!result)
  pure none

/-- `tis` -/
def tis : RM σ (Option Nat) := do
  let addr ← nextRef S
  let result ← isTrueValue S addr
  pushBoolean S result
  pure none

end Garnish.Model.Runtime
