/-
`SimpleGarnishData` (data/src/simple.rs, data/src/runtime.rs) as an `RStore`: the data list WITH the payloads the
runtime reads (`SimCell`, one constructor per `SimpleData` variant), the register `Vec` (frames are `StackFrame` cells
pushed on it: `push_frame` = `add_stack_frame` + `push_register`; `pop_register` refuses a `StackFrame`; `pop_frame`
pops down to and including the newest `StackFrame`), the value `Vec`, `current_list`, the instruction and jump tables
and the cursor.

* `erase` maps a `SimCell` to the payload-free `SCell` of Model/AccessSimple.lean; the constructors below are, cell
  for cell, `Access.Simple.step` of Model/SimpleBuild.lean (optimize-agent) — `simple_add_erases`.
* constants go through `cache_add`, whose hit / miss decision is the parameter `hit`; with the repo fix "cache_add
  confirms hits by comparison" a hit returns an address that HOLDS the value: `HitSound`.
* the abstract register view `regs` = the register `Vec` WITHOUT its `StackFrame` entries (top at the head) — the
  view under which `push_frame` leaves the registers alone, as `StoreLaws.pushFrame` asks; `frames` = one entry per
  `StackFrame` on the register `Vec`: its return address and the registers below it.
* the host (`resolver`, `op_handler`, `apply`) is a parameter answering on the state; it records its call.
* `concatItems` (`get_concatenation_iter`) is modelled on the slice-free, backward-pointing part only (`flatSim`:
  `none` = not modelled); the full iterator, which EXPANDS slices, is `collectLoop` of Model/AccessSimple.lean.
The second `Vec` of a `List` cell (the association table `end_list` fills by modulo placement; Store/Lists.lean,
property C16) is read by `get_list_item_with_symbol` only and is not modelled: that getter answers `err` here.
-/
import Garnish.Model.Runtime.Store
import Garnish.Model.SimpleBuild
namespace Garnish.Model.Runtime
open Garnish Gen Garnish.Model.Equality

inductive SimCell (F : Type) where
  | unit | tru | fls
  | type (t : Ty) | num (n : Number F) | char (c : Nat) | byte (b : Nat) | sym (s : Nat)
  | symList (ss : List Nat) | expr (j : Nat) | ext (n : Nat)
  | chars (cs : List Nat) | bytes (bs : List Nat)
  | pair (l r : Nat) | range (s e : Nat) | slice (v r : Nat) | part (f x : Nat)
  | list (items : List Nat) | concat (l r : Nat)
  | stackFrame (ret : Nat) | custom

variable {F : Type}

def SimCell.ty : SimCell F → Ty
  | .unit => .unit | .tru => .true | .fls => .false | .type _ => .type_ | .num _ => .number | .char _ => .char
  | .byte _ => .byte | .sym _ => .symbol | .symList _ => .symbolList | .expr _ => .expression | .ext _ => .external
  | .chars _ => .charList | .bytes _ => .byteList | .pair _ _ => .pair | .range _ _ => .range | .slice _ _ => .slice
  | .part _ _ => .partial_ | .list _ => .list | .concat _ _ => .concatenation | .stackFrame _ => .custom
  | .custom => .custom

structure SimState (F : Type) where
  cells : List (SimCell F)
  register : List Nat                        -- the register `Vec`, top at the head, `StackFrame` addresses included
  values : List Nat
  currentList : Option (List Nat)
  instrs : List (Instruction × Option Nat)
  jumps : List Nat
  cursor : Nat
  trace : List HostCall

/-- the state after `SimpleGarnishData::new()` -/
def SimState.init : SimState F :=
  { cells := [.unit, .fls, .tru], register := [], values := [], currentList := none, instrs := [], jumps := [],
    cursor := 0, trace := [] }

def isFrame (cells : List (SimCell F)) (a : Nat) : Bool :=
  match cells[a]? with
  | some (.stackFrame _) => true
  | _ => false

/-- the registers that are not `StackFrame`s -/
def flatRegs (cells : List (SimCell F)) (reg : List Nat) : List Nat := reg.filter (fun a => !isFrame cells a)

/-- one entry per `StackFrame` on the register `Vec` -/
def framesOf (cells : List (SimCell F)) : List Nat → List (Nat × List Nat)
  | [] => []
  | a :: rest =>
    match cells[a]? with
    | some (.stackFrame ret) => (ret, flatRegs cells rest) :: framesOf cells rest
    | _ => framesOf cells rest

/-- `get_concatenation_iter` on the slice-free part: a list gives its items, a concatenation its operands' items, a
slice / a dangling or forward address is outside the modelled part, anything else is itself -/
def flatSim (cells : List (SimCell F)) (a : Nat) : Option (List Nat) :=
  match cells[a]? with
  | some (.list items) => some items
  | some (.concat l r) =>
    if _h : l < a ∧ r < a then
      (flatSim cells l).bind fun il => (flatSim cells r).bind fun ir => some (il ++ ir)
    else none
  | some (.slice _ _) => none
  | some _ => some [a]
  | none => none
termination_by a
decreasing_by all_goals omega

/-- `item_index as usize` on the `i32` range (`Access.Simple.asUsize` below 2^64, see `simIdx_eq`) -/
def simIdx (v : Int) : Nat := if 0 ≤ v then v.toNat else Access.Simple.asUsize v

/-- the getters of `SimpleGarnishData` (`get(i)?.as_*()`) -/
def simView (cells : List (SimCell F)) : StoreView F where
  typeOf a := match cells[a]? with | some c => some c.ty | none => none
  number a := match cells[a]? with | some (.num n) => some n | _ => none
  char a := match cells[a]? with | some (.char c) => some c | _ => none
  byte a := match cells[a]? with | some (.byte b) => some b | _ => none
  symbol a := match cells[a]? with | some (.sym s) => some s | _ => none
  expression a := match cells[a]? with | some (.expr j) => some j | _ => none
  external a := match cells[a]? with | some (.ext n) => some n | _ => none
  type_ a := match cells[a]? with | some (.type t) => some t | _ => none
  pair a := match cells[a]? with | some (.pair l r) => some (l, r) | _ => none
  range a := match cells[a]? with | some (.range s e) => some (s, e) | _ => none
  concatenation a := match cells[a]? with | some (.concat l r) => some (l, r) | _ => none
  slice a := match cells[a]? with | some (.slice v r) => some (v, r) | _ => none
  partial_ a := match cells[a]? with | some (.part f x) => some (f, x) | _ => none
  listItems a := match cells[a]? with | some (.list items) => some items | _ => none
  concatItems a := match cells[a]? with
    | some (.concat _ _) => flatSim cells a
    | _ => none
  chars a := match cells[a]? with | some (.chars cs) => some cs | _ => none
  bytes a := match cells[a]? with | some (.bytes bs) => some bs | _ => none
  symList a := match cells[a]? with | some (.symList ss) => some (ss.map SymPart.sym) | _ => none

/-- `cache_add`: `hit` answers with a stored address or `none` (miss: push) -/
def SimState.cacheAdd (hit : List (SimCell F) → SimCell F → Option Nat) (c : SimCell F) : RM (SimState F) Nat :=
  fun st =>
    match hit st.cells c with
    | some a => .ok (a, st)
    | none => .ok (st.cells.length, { st with cells := st.cells ++ [c] })

/-- `self.data.push(c); Ok(self.data.len() - 1)` -/
def SimState.push (c : SimCell F) : RM (SimState F) Nat := fun st =>
  .ok (st.cells.length, { st with cells := st.cells ++ [c] })

/-- the decision of `cache_add` is sound: a hit holds the value (repo fix "confirms hits by comparison") -/
def HitSound (hit : List (SimCell F) → SimCell F → Option Nat) : Prop :=
  ∀ cells c a, hit cells c = some a → cells[a]? = some c

/-- `SimpleDataList::default()` is present: Unit, False, True at 0, 1, 2 -/
def Seeded (st : SimState F) : Prop :=
  st.cells[0]? = some .unit ∧ st.cells[1]? = some .fls ∧ st.cells[2]? = some .tru

/-- `pop_frame`: `while let Some(item) = self.register.pop()` down to and including the newest `StackFrame`; with no
`StackFrame` the register `Vec` is DRAINED and `None` returned -/
def popFrameGo (cells : List (SimCell F)) : List Nat → Outcome (Option Nat × List Nat)
  | [] => .ok (none, [])
  | a :: rest =>
    match cells[a]? with
    | none => .err .data
    | some (.stackFrame ret) => .ok (some ret, rest)
    | some _ => popFrameGo cells rest

abbrev SimHost (F : Type) := HostCall → SimState F → Bool × SimState F

def SimState.hostCall (h : SimHost F) (c : HostCall) : RM (SimState F) Bool := fun st =>
  let (b, st') := h c st
  .ok (b, { st' with trace := c :: st.trace })

def simpleRStore (hit : List (SimCell F) → SimCell F → Option Nat) (h : SimHost F) : RStore F (SimState F) where
  view st := simView st.cells
  regs st := flatRegs st.cells st.register
  vals st := st.values
  trace st := st.trace
  jumpTable st j := st.jumps[j]?
  instruction st i := st.instrs[i]?
  frames st := framesOf st.cells st.register
  instrLen st := st.instrs.length
  cursor st := st.cursor
  dataLen st := st.cells.length
  listLen st a := match st.cells[a]? with | some (.list items) => .ok items.length | _ => .err .data
  charLen st a := match st.cells[a]? with | some (.chars cs) => .ok cs.length | _ => .err .data
  byteLen st a := match st.cells[a]? with | some (.bytes bs) => .ok bs.length | _ => .err .data
  symLen st a := match st.cells[a]? with | some (.symList ss) => .ok ss.length | _ => .err .data
  listItem st a i := match st.cells[a]?, i with
    | some (.list items), .int v => .ok items[simIdx v]?
    | _, _ => .err .data
  charItem st a i := match st.cells[a]?, i with
    | some (.chars cs), .int v => (match cs[simIdx v]? with | some c => .ok (some c) | none => .err .data)
    | _, _ => .err .data
  byteItem st a i := match st.cells[a]?, i with
    | some (.bytes bs), .int v => (match bs[simIdx v]? with | some c => .ok (some c) | none => .err .data)
    | _, _ => .err .data
  symItem st a i := match st.cells[a]?, i with
    | some (.symList ss), .int v =>
      (match ss[simIdx v]? with | some c => .ok (some (.sym c)) | none => .err .data)
    | _, _ => .err .data
  listItemWithSymbol _ _ _ := .err .data          -- the modulo probe is Store/Lists.lean (C16); not part of the core
  addUnit := fun st => .ok (0, st)
  addTrue := fun st => .ok (2, st)
  addFalse := fun st => .ok (1, st)
  addNumber n := SimState.cacheAdd hit (.num n)
  addType t := SimState.cacheAdd hit (.type t)
  addChar c := SimState.cacheAdd hit (.char c)
  addByte b := SimState.cacheAdd hit (.byte b)
  addSymbol y := SimState.cacheAdd hit (.sym y)
  addPair p := SimState.push (.pair p.1 p.2)
  addConcatenation l r := SimState.push (.concat l r)
  addRange s e := SimState.push (.range s e)
  addSlice v r := SimState.push (.slice v r)
  addPartial f x := SimState.push (.part f x)
  mergeToSymbolList a b := fun st =>
    match st.cells[a]?, st.cells[b]? with
    | some (.sym s1), some (.sym s2) => SimState.push (.symList [s1, s2]) st
    | some (.symList l1), some (.symList l2) => SimState.push (.symList (l1 ++ l2)) st
    | some (.symList l), some (.sym s) => SimState.push (.symList (l ++ [s])) st
    | some (.sym s), some (.symList l) => SimState.push (.symList (s :: l)) st
    | _, _ => .err .data
  building st := st.currentList.map (fun items => (0, items))
  startList _ := fun st => .ok (0, { st with currentList := some [] })
  addToList t a := fun st =>
    match st.currentList with
    | none => .err .data
    | some items => .ok (t, { st with currentList := some (items ++ [a]) })
  endList _ := fun st =>
    match st.currentList with
    | none => .err .data
    | some items => .ok (st.cells.length, { st with cells := st.cells ++ [.list items] })
  pushRegister a := fun st => .ok ((), { st with register := a :: st.register })
  popRegister := fun st =>
    match st.register with
    | [] => .ok (none, st)
    | a :: rest =>
      match st.cells[a]? with
      | none => .err .data
      | some (.stackFrame _) => .err .data
      | some _ => .ok (some a, { st with register := rest })
  pushValueStack a := fun st => .ok ((), { st with values := a :: st.values })
  popValueStack := fun st =>
    match st.values with
    | [] => .ok (none, st)
    | a :: rest => .ok (some a, { st with values := rest })
  setCurrentValue r := fun st =>
    match st.values with
    | [] => .ok (false, st)
    | _ :: rest => .ok (true, { st with values := r :: rest })
  pushFrame j := fun st =>
    .ok ((), { st with cells := st.cells ++ [.stackFrame j], register := st.cells.length :: st.register })
  popFrame := fun st =>
    match popFrameGo st.cells st.register with
    | .ok (o, rest) => .ok (o, { st with register := rest })
    | .err e => .err e
    | .panic p => .panic p
    | .fuelOut => .fuelOut
  setInstructionCursor n := fun st => .ok ((), { st with cursor := n })
  deferOp op l r := SimState.hostCall h (.defer op l r)
  resolve y := SimState.hostCall h (.resolve y)
  apply e a := SimState.hostCall h (.apply e a)

/-- erasure to the payload-free cells of Model/AccessSimple.lean -/
def erase : SimCell F → Access.Simple.SCell
  | .unit => .leaf .unit | .tru => .leaf .true | .fls => .leaf .false | .type _ => .leaf .type_
  | .num (.int v) => .int v | .num (.float _) => .float
  | .char _ => .leaf .char | .byte _ => .leaf .byte | .sym s => .symbol s | .symList ss => .syms ss
  | .expr _ => .leaf .expression | .ext _ => .leaf .external | .chars cs => .chars cs | .bytes bs => .bytes bs
  | .pair l r => .pair l r | .range s e => .range s e | .slice v r => .slice v r | .part _ _ => .leaf .partial_
  | .list items => .list items | .concat l r => .concat l r | .stackFrame _ => .leaf .custom | .custom => .leaf .custom

end Garnish.Model.Runtime
