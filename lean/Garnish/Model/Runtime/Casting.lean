/-
L2 code model of runtime/src/runtime/casting.rs at /repo 5455df2 (`type_cast`, `list_from_char_list`,
`list_from_byte_list`, `primitive_cast`; `type_of` is not an `ApplyType` concern) over the abstract store.

* The `match (left_type, right_type)` of `type_cast` is kept in SOURCE ORDER in `castArm` (first arm: the guard
  `l == r`), which names the arm; `typeCast` then runs the body of that arm, statement by statement.
* The four data-object conversions the trait delegates wholesale (`add_char_list_from`, `add_byte_list_from`,
  `add_symbol_from`, `add_number_from`) are not part of `RStore`: they are the additional interface `CastOps`
  (their contract is `StoreLawsC`, Model/Runtime/CastLaws.lean).
* `DataFactory` conversions (`number_to_size`, `number_to_char`, `number_to_byte`, `char_to_number`, `char_to_byte`,
  `byte_to_number`, `byte_to_char`) are pure and identical in both shipped factories (data/src/runtime.rs,
  data/src/basic/garnish/factory.rs): defined here.
* the iterators `get_char_list_iter(addr, 0..MAX)` / `get_symbol_list_iter(addr, 0..MAX)` are the collected
  sequences of the `StoreView`.
* every `while` takes explicit fuel (one unit per evaluation of the loop condition).
* `list_from_char_list` and `list_from_byte_list` are the same text up to the three store functions they call:
  one body `listFromSeq`, two instances.
-/
import Garnish.Model.Runtime.Concatenation
namespace Garnish.Model.Runtime
open Garnish Gen Garnish.Model.Equality

variable {F σ : Type} (fo : FloatOps F) (S : RStore F σ)

/-- the data-object conversions of the `GarnishData` trait used by `type_cast` -/
structure CastOps (σ : Type) where
  addCharListFrom : Nat → RM σ Nat
  addByteListFrom : Nat → RM σ Nat
  addSymbolFrom : Nat → RM σ Nat
  addNumberFrom : Nat → RM σ Nat

/-! ### DataFactory -/

/-- `number_to_size`: `Some(from.into())` — `max(0)`, floats truncate (`as usize`; the model saturates at i32::MAX,
see Abs/Casts.lean `numToSize`) -/
def numberToSize : Number F → Option Nat
  | .int v => some v.toNat
  | .float f => some (fo.toI32Sat f).toNat

/-- `number_to_char`: `(v as u8).try_into()` (never fails); floats have no character -/
def numberToChar : Number F → Option Nat
  | .int v => some (v % 256).toNat
  | .float _ => none

/-- `number_to_byte`: `v.try_into()` -/
def numberToByte : Number F → Option Nat
  | .int v => if 0 ≤ v ∧ v ≤ 255 then some v.toNat else none
  | .float _ => none

def charToNumber (c : Nat) : Option (Number F) := some (.int c)
def charToByte (c : Nat) : Option Nat := some (c % 256)
def byteToNumber (b : Nat) : Option (Number F) := some (.int b)
def byteToChar (b : Nat) : Option Nat := some b

/-! ### getters -/

/-- `get_type` -/
def castGetType (a : Nat) : RM σ Ty := fun s => RM.lift (fetch ((S.view s).type_ a)) s
/-- `get_char_list_iter(a, 0..MAX)`, collected -/
def getCharListIter (a : Nat) : RM σ (List Nat) := fun s => RM.lift (fetch ((S.view s).chars a)) s

/-! ### the arms of `type_cast`, in source order -/

inductive CastArm where
  | noop | charListNumber | toCharList | toByteList | toSymbol
  | numberChar | numberByte | charNumber | charByte | byteNumber | byteChar
  | charListChar | symbolListList | rangeList | charListList | byteListList | concatenationList | sliceList
  | falseOut | trueOut | unitOut | deferOp
deriving DecidableEq, Repr

/-- `match (left_type, right_type)` -/
def castArm (l r : Ty) : CastArm :=
  if l = r then .noop else                      -- `(l, r) if l == r`
  match l, r with
  | .charList, .number => .charListNumber
  | _, .charList => .toCharList
  | _, .byteList => .toByteList
  | _, .symbol => .toSymbol
  | .number, .char => .numberChar
  | .number, .byte => .numberByte
  | .char, .number => .charNumber
  | .char, .byte => .charByte
  | .byte, .number => .byteNumber
  | .byte, .char => .byteChar
  | .charList, .char => .charListChar
  | .symbolList, .list => .symbolListList
  | .range, .list => .rangeList
  | .charList, .list => .charListList
  | .byteList, .list => .byteListList
  | .concatenation, .list => .concatenationList
  | .slice, .list => .sliceList
  | .unit, .true | .false, .true => .falseOut
  | .unit, .false => .trueOut
  | .unit, _ => .unitOut
  | _, .false => .falseOut
  | _, .true => .trueOut
  | _, _ => .deferOp

/-! ### helpers -/

/-- `primitive_cast` -/
def primitiveCast {A B : Type} (addr : Nat) (get : Nat → RM σ A) (cast : A → Option B) (add : B → RM σ Nat) :
    RM σ Unit := do
  let i ← get addr
  match cast i with
  | some i => do
    let r ← add i
    S.pushRegister r
  | none => pushUnit S

/-- the `while count < end` loop of `list_from_char_list` / `list_from_byte_list` -/
def listFromLoop (item : σ → Nat → Number F → Outcome (Option Nat)) (add : Nat → RM σ Nat) (addr : Nat)
    (end_ : Number F) : Nat → Number F → Nat → RM σ Nat
  | 0, _, _ => fun _ => .fuelOut
  | fuel + 1, count, listIndex =>
    if numLt fo count end_ then do
      let c ← RM.readR (fun s => item s addr count)
      let a ← match c with
        | some c => add c
        | none => S.addUnit
      let listIndex ← S.addToList listIndex a
      let count ← orNumErr (Number.increment fo count)
      listFromLoop item add addr end_ fuel count listIndex
    else pure listIndex

/-- `list_from_char_list` / `list_from_byte_list` (`len`, `item`, `add` = the three store functions) -/
def listFromSeq (len : σ → Nat → Outcome Nat) (item : σ → Nat → Number F → Outcome (Option Nat))
    (add : Nat → RM σ Nat) (fuel : Nat) (addr : Nat) (start end_ : Number F) : RM σ Unit := do
  let len ← RM.readR (fun s => len s addr)
  let listIndex ← S.startList len
  let listIndex ← listFromLoop fo S item add addr end_ fuel start listIndex
  let r ← S.endList listIndex
  S.pushRegister r

def listFromCharList := listFromSeq fo S S.charLen S.charItem S.addChar
def listFromByteList := listFromSeq fo S S.byteLen S.byteItem S.addByte

/-- `while let Some(part) = iter.next()` of the `(SymbolList, List)` arm -/
def symListLoop : List (SymPart F) → Nat → RM σ Nat
  | [], listIndex => pure listIndex
  | part :: rest, listIndex => do
    let itemIndex ← match part with
      | .sym sym => S.addSymbol sym
      | .num num => S.addNumber num
    let listIndex ← S.addToList listIndex itemIndex
    symListLoop rest listIndex

/-- `while added < len && count <= end` of the `(Range, List)` arm (/repo 5455df2) -/
def rangeListLoop (len : Nat) (end_ : Number F) : Nat → Nat → Number F → Nat → RM σ Nat
  | 0, _, _, _ => fun _ => .fuelOut
  | fuel + 1, added, count, listIndex =>
    if added < len && numLe fo count end_ then do
      let addr ← S.addNumber count
      let listIndex ← S.addToList listIndex addr
      let added := added + 1
      let count ← if added < len then orNumErr (Number.increment fo count) else pure count
      rangeListLoop len end_ fuel added count listIndex
    else pure listIndex

/-- `while i <= end` of the `(Slice, List)` arm over a list -/
def sliceListLoop (value : Nat) (end_ : Number F) : Nat → Number F → Nat → RM σ Nat
  | 0, _, _ => fun _ => .fuelOut
  | fuel + 1, i, listIndex =>
    if numLe fo i end_ then do
      let addr ← match ← RM.readR (fun s => S.listItem s value i) with
        | some addr => pure addr
        | none => S.addUnit
      let listIndex ← S.addToList listIndex addr
      let i ← orNumErr (Number.increment fo i)
      sliceListLoop value end_ fuel i listIndex
    else pure listIndex

/-- `concatenation_len` (internals.rs): `iterate_concatenation_mut(this, addr, |_, _, _| Ok(None))?.1` -/
def castConcatenationLen (fuel : Nat) (addr : Nat) : RM σ Nat := do
  let ((_, index), _) ← iterateConcatenation fo S false fuel addr (fun (_ : Unit) _ _ => pure (none, ())) ()
  pure index

/-! ### `type_cast` -/

/-- the body of the selected arm of `match (left_type, right_type)` -/
def castBody (C : CastOps σ) (fuel : Nat) (left right : Nat) (leftType rightType : Ty) : RM σ Unit :=
  match castArm leftType rightType with
  | .noop => S.pushRegister left
  | .charListNumber => do
    let r ← C.addNumberFrom left
    S.pushRegister r
  | .toCharList => do
    let r ← C.addCharListFrom left
    S.pushRegister r
  | .toByteList => do
    let r ← C.addByteListFrom left
    S.pushRegister r
  | .toSymbol => do
    let r ← C.addSymbolFrom left
    S.pushRegister r
  | .numberChar => primitiveCast S left (getNumber S) numberToChar S.addChar
  | .numberByte => primitiveCast S left (getNumber S) numberToByte S.addByte
  | .charNumber => primitiveCast S left (getChar S) charToNumber S.addNumber
  | .charByte => primitiveCast S left (getChar S) charToByte S.addByte
  | .byteNumber => primitiveCast S left (getByte S) byteToNumber S.addNumber
  | .byteChar => primitiveCast S left (getByte S) byteToChar S.addChar
  | .charListChar => do
    let len ← RM.readR (fun s => S.charLen s left)
    if len = 1 then do
      let iter ← getCharListIter S left
      match iter.head? with
      | some c => do
        let r ← S.addChar c
        S.pushRegister r
      | none => pushUnit S
    else pushUnit S
  | .symbolListList => do
    let iter ← getSymbolListIter S left
    let len ← RM.readR (fun s => S.symLen s left)
    let listIndex ← S.startList len
    let listIndex ← symListLoop S iter listIndex
    let r ← S.endList listIndex
    S.pushRegister r
  | .rangeList => do
    let (start, end_, len) ← getRange fo S left
    let len := (numberToSize fo len).getD 0
    let listIndex ← S.startList len
    let listIndex ← rangeListLoop fo S len end_ fuel 0 start listIndex
    let r ← S.endList listIndex
    S.pushRegister r
  | .charListList => do
    let len ← RM.readR (fun s => S.charLen s left)
    listFromCharList fo S fuel left (.int 0) (sizeToNumber len)
  | .byteListList => do
    let len ← RM.readR (fun s => S.byteLen s left)
    listFromByteList fo S fuel left (.int 0) (sizeToNumber len)
  | .concatenationList => do
    let len ← castConcatenationLen fo S fuel left
    let listIndex ← S.startList len
    let (_, listIndex) ← iterateConcatenation fo S false fuel left
      (fun (listIndex : Nat) _ addr => do
        let listIndex ← S.addToList listIndex addr
        pure (none, listIndex)) listIndex
    let addr ← S.endList listIndex
    S.pushRegister addr
  | .sliceList => do
    let (value, range) ← getSlice S left
    let (start, end_, len) ← getRange fo S range
    match ← getDataType S value with
    | .list => do
      let len ← RM.readR (fun s => S.listLen s value)
      let listIndex ← S.startList len
      let listIndex ← sliceListLoop fo S value end_ fuel start listIndex
      let r ← S.endList listIndex
      S.pushRegister r
    | .charList => do
      let e1 ← orNumErr (Number.increment fo end_)
      listFromCharList fo S fuel value start e1
    | .byteList => do
      let e1 ← orNumErr (Number.increment fo end_)
      listFromByteList fo S fuel value start e1
    | .concatenation => do
      let n ← orNumErr (numberToSize fo len)
      let listIndex ← S.startList n
      let (_, listIndex) ← iterateConcatenation fo S false fuel value
        (fun (listIndex : Nat) currentIndex addr => do
          if numLt fo currentIndex start then pure (none, listIndex)
          else if numGt fo currentIndex end_ then
            -- providing value will end iteration even tho we don't need the return value
            pure (some addr, listIndex)
          else do
            let listIndex ← S.addToList listIndex addr
            pure (none, listIndex)) listIndex
      let addr ← S.endList listIndex
      S.pushRegister addr
    | _ => pushUnit S
  -- Unit and Boolean, final catches
  | .falseOut => do
    let r ← S.addFalse
    S.pushRegister r
  | .trueOut => do
    let r ← S.addTrue
    S.pushRegister r
  | .unitOut => pushUnit S
  | .deferOp => deferOrUnit S .applyType (leftType, left) (rightType, right)

/-- `if right_type == GarnishDataType::Type { right_type = this.get_type(right)? }` -/
def correctedType (right : Nat) (rightType : Ty) : RM σ Ty :=
  if rightType = .type_ then castGetType S right else pure rightType

def typeCast (C : CastOps σ) (fuel : Nat) : RM σ (Option Nat) := do
  let (right, left) ← nextTwoRawRef S
  let leftType ← getDataType S left
  let rightType ← getDataType S right
  -- correct actual type we want to cast to
  let rightType ← correctedType S right rightType
  castBody fo S C fuel left right leftType rightType
  pure none

end Garnish.Model.Runtime
