/-
L2 code model of runtime/src/runtime/arithmetic.rs (`perform_op`, `perform_unary_op` and the nine handlers that
call them) and runtime/src/runtime/bitwise.rs (six handlers) over the abstract store. `op` is the
`GarnishNumber` method the Rust passes (`Data::Number::plus`, …), modelled by Model/Number.lean.
-/
import Garnish.Model.Runtime.Utilities
namespace Garnish.Model.Runtime
open Garnish Gen Garnish.Model.Equality

variable {F σ : Type} (fo : FloatOps F) (S : RStore F σ)

/-- `perform_unary_op` -/
def performUnaryOp (opName : Instruction) (op : Number F → Option (Number F)) : RM σ (Option Nat) := do
  let addr ← nextRef S
  let t ← getDataType S addr
  match t with
  | .number => do
    let value ← getNumber S addr
    match op value with
    | some result => pushNumber S result
    | none => pushUnit S
  | l =>
    -- `Data::Size::zero()` is the documented filler for the missing right operand
    deferOrUnit S opName (l, addr) (.unit, 0)
  pure none

/-- `perform_op` -/
def performOp (opName : Instruction) (op : Number F → Number F → Option (Number F)) : RM σ (Option Nat) := do
  let (rightAddr, leftAddr) ← nextTwoRawRef S
  let tl ← getDataType S leftAddr
  let tr ← getDataType S rightAddr
  match tl, tr with
  | .number, .number => do
    let left ← getNumber S leftAddr
    let right ← getNumber S rightAddr
    match op left right with
    | some result => pushNumber S result
    | none => pushUnit S
  | l, r =>
    deferOrUnit S opName (l, leftAddr) (r, rightAddr)
  pure none

/-! arithmetic.rs -/
def add := performOp S .add (Number.plus fo)
def subtract := performOp S .subtract (Number.subtract fo)
def multiply := performOp S .multiply (Number.multiply fo)
def power := performOp S .power (Number.power fo)
def divide := performOp S .divide (Number.divide fo)
def integerDivide := performOp S .integerDivide (Number.integerDivide fo)
def remainder := performOp S .remainder (Number.remainder fo)
def absoluteValue := performUnaryOp S .absoluteValue (Number.absoluteValue fo)
def opposite := performUnaryOp S .opposite (Number.opposite fo)

/-! bitwise.rs -/
def bitwiseNot := performUnaryOp S .bitwiseNot (Number.bitwiseNot (F := F))
def bitwiseAnd := performOp S .bitwiseAnd (Number.bitwiseAnd (F := F))
def bitwiseOr := performOp S .bitwiseOr (Number.bitwiseOr (F := F))
def bitwiseXor := performOp S .bitwiseXor (Number.bitwiseXor (F := F))
def bitwiseLeftShift := performOp S .bitwiseShiftLeft (Number.bitwiseShiftLeft (F := F))
def bitwiseRightShift := performOp S .bitwiseShiftRight (Number.bitwiseShiftRight (F := F))

end Garnish.Model.Runtime
