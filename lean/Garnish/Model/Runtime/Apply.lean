/-
L2 code model of runtime/src/runtime/apply.rs (`apply`, `reapply`, `empty_apply`, `apply_internal`, `narrow_range`)
over the abstract store; the arms of `apply_internal` in source order (`applyMatch`). `next_instruction` is the value
the `match` leaves in the mutable variable: `cursor + 1` unless an expression is entered.

The `(List, SymbolList)` arm iterates `get_symbol_list_iter(right, 0..MAX)`, i.e. the list `symList right` of the
store view (`applyPathLoop`, structural). Its two `Err(e) if e.get_type() == UnsupportedOpTypes` catches continue
from the state before the call, as in Resolve.lean.
-/
import Garnish.Model.Runtime.List
namespace Garnish.Model.Runtime
open Garnish Gen Garnish.Model.Equality

variable {F σ : Type} (fo : FloatOps F) (S : RStore F σ)

/-- `narrow_range` -/
def narrowRange (toNarrow by_ : Nat) : RM σ Nat := do
  let (start, end_) ← getRangeRaw S by_
  let (oldStart, _) ← getRangeRaw S toNarrow
  let ts ← getDataType S start
  let te ← getDataType S end_
  let tos ← getDataType S oldStart
  match ts, te, tos with
  | .number, .number, .number => do
    let startInt ← getNumber S start
    let endInt ← getNumber S end_
    let oldStartInt ← getNumber S oldStart
    match Number.plus fo oldStartInt startInt, Number.subtract fo endInt startInt with
    | some newStart, some adjustedEnd =>
      -- end is always len away from start: offset end by same amount as start
      match Number.plus fo newStart adjustedEnd with
      | some newEnd => do
        let startAddr ← S.addNumber newStart
        let endAddr ← S.addNumber newEnd
        let rangeAddr ← S.addRange startAddr endAddr
        pure rangeAddr
      | none => stateError        -- "Could not narrow range."
    | _, _ => stateError          -- "Could not narrow range."
  | _, _, _ => stateError         -- "Attempting to create slice from slice with an invalid range."

/-- `None => push_unit(this)?, Some(i) => this.push_register(i)?` -/
def pushOptional : Option Nat → RM σ Unit
  | none => pushUnit S
  | some i => S.pushRegister i

/-- the look-up of one path step: `access_with_symbol(sym, current)` or `access_with_integer(num, current)` -/
def pathAccess (fuel : Nat) (part : SymPart F) (current : Nat) : RM σ (Option Nat) :=
  match part with
  | .sym sym => accessWithSymbol fo S fuel sym current
  | .num num => accessWithInteger fo S fuel num current

/-- one step of the `(List, SymbolList)` path: the look-up with its two catches; `none` = `break` with unit -/
def applyPathStep (fuel : Nat) (part : SymPart F) (current : Nat) : RM σ (Option Nat) := fun s =>
  match pathAccess fo S fuel part current s with
  | .ok (some i, s') => .ok (some i, s')
  | .ok (none, s') => .ok (none, s')
  | .err e => if e == .unsupported then .ok (none, s) else .err e
  | .panic p => .panic p
  | .fuelOut => .fuelOut

/-- the `while let Some(part) = iter.next()` loop of the `(List, SymbolList)` arm -/
def applyPathLoop (fuel : Nat) : List (SymPart F) → Nat → RM σ Nat
  | [], current => pure current
  | part :: rest, current => do
    match ← applyPathStep fo S fuel part current with
    | some i => applyPathLoop fuel rest i
    | none => S.addUnit           -- `current = this.add_unit()?; break;`

/-- the jump-table look-up of the two expression arms -/
def jumpPoint (index : Nat) : RM σ Nat := do
  match ← getFromJumpTable S index with
  | none => stateError            -- "No jump point at index"
  | some i => pure i

/-- the `match` of `apply_internal`; returns `next_instruction` -/
def applyMatch (fuel : Nat) (instruction : Instruction) (useRight : Bool) (leftAddr rightAddr : Nat)
    (nextInstruction : Nat) (tl tr : Ty) : RM σ Nat :=
  match tl, tr with
  | .expression, _ => do
    let expressionIndex ← getExpression S leftAddr
    -- Expression stores index of expression table, look up actual instruction index
    let n ← jumpPoint S expressionIndex
    S.pushValueStack rightAddr
    S.pushFrame ((← RM.read S.cursor) + 1)
    pure n
  | .external, _ => do
    let externalValue ← getExternal S leftAddr
    match ← S.apply externalValue rightAddr with
    | true => pure ()
    | false => pushUnit S
    pure nextInstruction
  | .partial_, _ => do
    let (expression, input) ← getPartial S leftAddr
    match ← getDataType S expression with
    | .expression => do
      let value ← if useRight then S.addConcatenation input rightAddr else pure input
      S.pushValueStack value
      let expression ← getExpression S expression
      let n ← jumpPoint S expression
      S.pushFrame ((← RM.read S.cursor) + 1)
      pure n
    | _ => do
      let i ← S.addUnit
      S.pushRegister i
      pure nextInstruction
  | .symbol, .symbolList | .symbolList, .symbol | .symbolList, .symbolList => do
    let i ← S.mergeToSymbolList leftAddr rightAddr
    S.pushRegister i
    pure nextInstruction
  | .range, .range => do
    let addr ← narrowRange fo S leftAddr rightAddr
    S.pushRegister addr
    pure nextInstruction
  | .slice, .range => do
    -- create new slice by narrowing this give range
    let (value, sliceRange) ← getSlice S leftAddr
    let rangeAddr ← narrowRange fo S sliceRange rightAddr
    let addr ← S.addSlice value rangeAddr
    S.pushRegister addr
    pure nextInstruction
  | .symbolList, .number | .list, .number => do
    let num ← getNumber S rightAddr
    pushOptional S (← accessWithInteger fo S fuel num leftAddr)
    pure nextInstruction
  | .pair, .number => do
    let num ← getNumber S rightAddr
    pushOptional S (← accessWithInteger fo S fuel num leftAddr)
    pure nextInstruction
  | .pair, .symbol => do
    let sym ← getSymbol S rightAddr
    pushOptional S (← accessWithSymbol fo S fuel sym leftAddr)
    pure nextInstruction
  | .list, .symbol => do
    let sym ← getSymbol S rightAddr
    pushOptional S (← accessWithSymbol fo S fuel sym leftAddr)
    pure nextInstruction
  | .list, .symbolList => do
    let iter ← getSymbolListIter S rightAddr
    let current ← applyPathLoop fo S fuel iter leftAddr
    S.pushRegister current
    pure nextInstruction
  | .list, .range | .concatenation, .range | .charList, .range | .byteList, .range | .symbolList, .range => do
    -- create slice
    let addr ← S.addSlice leftAddr rightAddr
    S.pushRegister addr
    pure nextInstruction
  | l, r => do
    deferOrUnit S instruction (l, leftAddr) (r, rightAddr)
    pure nextInstruction

/-- `apply_internal` -/
def applyInternal (fuel : Nat) (instruction : Instruction) (useRight : Bool) : RM σ (Option Nat) := do
  let rightAddr ← nextRef S
  let leftAddr ← nextRef S
  -- currently, apply is responsible for advancing the instruction cursor itself
  let nextInstruction := (← RM.read S.cursor) + 1
  let tl ← getDataType S leftAddr
  let tr ← getDataType S rightAddr
  let nextInstruction ← applyMatch fo S fuel instruction useRight leftAddr rightAddr nextInstruction tl tr
  pure (some nextInstruction)

/-- `apply` -/
def apply (fuel : Nat) : RM σ (Option Nat) := applyInternal fo S fuel .apply true

/-- `empty_apply` -/
def emptyApply (fuel : Nat) : RM σ (Option Nat) := do
  pushUnit S
  applyInternal fo S fuel .emptyApply false

/-- `reapply` -/
def reapply (index : Nat) : RM σ (Option Nat) := do
  let valueAddr ← nextRef S
  let nextInstruction ← jumpPoint S index
  match ← S.popValueStack with
  | none => stateError            -- "Failed to pop input during reapply operation."
  | some _ => pure ()
  S.pushValueStack valueAddr
  pure (some nextInstruction)

end Garnish.Model.Runtime
