/-
L2 code model of runtime/src/runtime/list.rs (`get_access_addr`, `access_with_integer`, `index_concatenation_for`,
`index_list`, `index_char_list`, `index_byte_list`, `index_symbol_list`, `access_with_symbol`,
`get_value_if_association`) over the abstract store; arms in source order. `make_list` is not modelled here.
`fuel` is handed to every loop (concatenation work-list, slice scan).
-/
import Garnish.Model.Runtime.Concatenation
namespace Garnish.Model.Runtime
open Garnish Gen Garnish.Model.Equality

variable {F σ : Type} (fo : FloatOps F) (S : RStore F σ)

/-- `index_concatenation_for` -/
def indexConcatenationFor (fuel : Nat) (addr : Nat) (index : Number F) : RM σ (Option Nat) := do
  let ((result, _), _) ← iterateConcatenation fo S false fuel addr
    (fun (_ : Unit) currentIndex addr =>
      pure (if Number.numEq fo currentIndex index then some addr else none, ())) ()
  pure result

/-- `index_list` -/
def indexList (list : Nat) (index : Number F) : RM σ (Option Nat) := do
  if numLt fo index (.int 0) then pure none
  else
    let len ← RM.readR (fun s => S.listLen s list)
    if numGe fo index (sizeToNumber len) then
      -- outside 0..len-1 there is no item, whatever the data implementation does with such an index
      pure none
    else
      match ← RM.readR (fun s => S.listItem s list index) with
      | some addr => pure (some addr)
      | none => do
        let index ← S.addUnit
        pure (some index)

/-- `index_char_list` -/
def indexCharList (list : Nat) (index : Number F) : RM σ (Option Nat) := do
  if numLt fo index (.int 0) then pure none
  else
    let len ← RM.readR (fun s => S.charLen s list)
    if numGe fo index (sizeToNumber len) then pure none
    else
      let c ← RM.readR (fun s => S.charItem s list index)
      let addr ← match c with
        | some c => S.addChar c
        | none => S.addUnit
      pure (some addr)

/-- `index_byte_list` -/
def indexByteList (list : Nat) (index : Number F) : RM σ (Option Nat) := do
  if numLt fo index (.int 0) then pure none
  else
    let len ← RM.readR (fun s => S.byteLen s list)
    if numGe fo index (sizeToNumber len) then pure none
    else
      let c ← RM.readR (fun s => S.byteItem s list index)
      let addr ← match c with
        | some c => S.addByte c
        | none => S.addUnit
      pure (some addr)

/-- `index_symbol_list` -/
def indexSymbolList (list : Nat) (index : Number F) : RM σ (Option Nat) := do
  if numLt fo index (.int 0) then pure none
  else
    let len ← RM.readR (fun s => S.symLen s list)
    if numGe fo index (sizeToNumber len) then pure none
    else
      let addr ← match ← RM.readR (fun s => S.symItem s list index) with
        | some (.sym sym) => S.addSymbol sym
        | some (.num num) => S.addNumber num
        | none => S.addUnit
      pure (some addr)

/-- `access_with_integer` -/
def accessWithInteger (fuel : Nat) (index : Number F) (value : Nat) : RM σ (Option Nat) := do
  match ← getDataType S value with
  | .pair =>
    if Number.numEq fo index (.int 0) then do
      let (left, _right) ← getPair S value
      match ← getDataType S left with
      | .symbol => pure (some value)
      | _ => pure none
    else pure none
  | .list => indexList fo S value index
  | .charList => indexCharList fo S value index
  | .byteList => indexByteList fo S value index
  | .symbolList => indexSymbolList fo S value index
  | .range => do
    let (start, end_) ← getRangeRaw S value
    let ts ← getDataType S start
    let te ← getDataType S end_
    match ts, te with
    | .number, .number => do
      let startInt ← getNumber S start
      let endInt ← getNumber S end_
      let len ← rangeLen fo startInt endInt
      if numGe fo index len then pure none
      else do
        let result ← orNumErr (Number.plus fo startInt index)
        let addr ← S.addNumber result
        pure (some addr)
    | _, _ => pure none
  | .slice => do
    let (value, range) ← getSlice S value
    let (start, _, _) ← getRange fo S range
    let adjustedIndex ← orNumErr (Number.plus fo start index)
    match ← getDataType S value with
    | .list => indexList fo S value adjustedIndex
    | .charList => indexCharList fo S value adjustedIndex
    | .byteList => indexByteList fo S value adjustedIndex
    | .concatenation => indexConcatenationFor fo S fuel value adjustedIndex
    | _ => stateError             -- "Invalid value for slice"
  | .concatenation => indexConcatenationFor fo S fuel value index
  | _ => RM.fail .unsupported     -- `Err(RuntimeError::unsupported_types())`

/-- `get_value_if_association` -/
def getValueIfAssociation (addr sym : Nat) : RM σ (Option Nat) := do
  match ← getDataType S addr with
  | .pair => do
    let (left, right) ← getPair S addr
    match ← getDataType S left with
    | .symbol => do
      if (← getSymbol S left) == sym then pure (some right) else pure none
    | _ => pure none
  | _ => pure none

/-- the `while i <= end` scan of the Slice-of-List arm of `access_with_symbol` (`item` = the latest match) -/
def sliceListScan (value sym : Nat) (end_ : Number F) : Nat → Number F → Option Nat → RM σ (Option Nat)
  | 0, _, _ => fun _ => .fuelOut
  | fuel + 1, i, item =>
    if numLe fo i end_ then do
      let listItem ← RM.readR (fun s => S.listItem s value i)
      let item ← match listItem with
        | some addr => do
          match ← getValueIfAssociation S addr sym with
          | some right => pure (some right)
          | none => pure item
        | none => pure item
      let i ← orNumErr (Number.increment fo i)
      sliceListScan value sym end_ fuel i item
    else pure item

/-- `access_with_symbol` -/
def accessWithSymbol (fuel : Nat) (sym : Nat) (value : Nat) : RM σ (Option Nat) := do
  match ← getDataType S value with
  | .pair => do
    let (left, right) ← getPair S value
    match ← getDataType S left with
    | .symbol => do
      if (← getSymbol S left) == sym then pure (some right) else pure none
    | _ => pure none
  | .list => RM.readR (fun s => S.listItemWithSymbol s value sym)
  | .slice => do
    let (value, range) ← getSlice S value
    let (start, end_, _) ← getRange fo S range
    match ← getDataType S value with
    | .list => do
      -- in order to limit to slice range need to check items manually
      let length : Number F := sizeToNumber (← RM.readR (fun s => S.listLen s value))
      let end_ ← if numGe fo end_ length then orNumErr (Number.subtract fo length (.int 1)) else pure end_
      sliceListScan fo S value sym end_ fuel start none
    | .concatenation => do
      let (_, found) ← iterateConcatenation fo S false fuel value
        (fun (found : Option Nat) index addr => do
          if numGt fo index start && numLe fo index end_ then
            match ← getValueIfAssociation S addr sym with
            | none => pure (none, found)
            | some i => pure (none, some i)
          else pure (none, found)) none
      pure found
    | _ => stateError             -- "Invalid value for slice"
  | .concatenation => do
    let ((result, _), _) ← iterateConcatenation fo S true fuel value
      (fun (_ : Unit) _index addr => do pure (← getValueIfAssociation S addr sym, ())) ()
    pure result
  | _ => RM.fail .unsupported

/-- `get_access_addr` -/
def getAccessAddr (fuel : Nat) (right left : Nat) : RM σ (Option Nat) := do
  match ← getDataType S right with
  | .number => do
    let i ← getNumber S right
    accessWithInteger fo S fuel i left
  | .symbol => do
    let sym ← getSymbol S right
    accessWithSymbol fo S fuel sym left
  | _ => RM.fail .unsupported

end Garnish.Model.Runtime
