/-
Definitions the statements of Props/RuntimeRefine{Access,Concat,Apply}.lean use: which arm of `access` /
`apply_internal` a type pair selects (`accessArm`, `applyArm`: the same pairs the handler and Abs/Ops list), how a
look-up result becomes an instruction outcome (`accOut`), what entering an expression establishes (`Entered`), the
domain of a symbol-list path (`PathDomain`), and when a `check_fn` of the concatenation work-list refines a
value-level check (`CheckRefines`, with the two checks the runtime uses: `idxChk`, `keyedVal`).
-/
import Garnish.Model.Runtime.Refines
import Garnish.Model.Runtime.ConcatSpec
namespace Garnish.Model.Runtime
open Garnish Gen Garnish.Abs Garnish.Model.Equality

variable {F σ : Type} (fo : FloatOps F)

/-- which of the three arms of `access` a type pair selects -/
inductive AccessArm where
  | merge | get | defer
deriving DecidableEq

def accessArm : Ty → Ty → AccessArm
  | .symbol, .symbol | .symbol, .symbolList | .symbolList, .symbol | .symbolList, .symbolList
  | .symbolList, .number | .number, .symbolList | .symbol, .number | .number, .symbol => .merge
  | .pair, .number | .pair, .symbol | .list, .number | .list, .symbol | .charList, .number | .charList, .symbol
  | .byteList, .number | .byteList, .symbol | .range, .number | .range, .symbol
  | .concatenation, .number | .concatenation, .symbol | .slice, .number | .slice, .symbol => .get
  | _, _ => .defer

/-- the arms of `apply_internal` -/
inductive ApplyArm where
  | expression | external | partial_ | merge | narrow | sliceNarrow | accInt | accSym | path | mkSlice | defer
deriving DecidableEq

def applyArm : Ty → Ty → ApplyArm
  | .expression, _ => .expression
  | .external, _ => .external
  | .partial_, _ => .partial_
  | .symbol, .symbolList | .symbolList, .symbol | .symbolList, .symbolList => .merge
  | .range, .range => .narrow
  | .slice, .range => .sliceNarrow
  | .symbolList, .number | .list, .number | .pair, .number => .accInt
  | .pair, .symbol | .list, .symbol => .accSym
  | .list, .symbolList => .path
  | .list, .range | .concatenation, .range | .charList, .range | .byteList, .range | .symbolList, .range => .mkSlice
  | _, _ => .defer

/-- `acc` of Abs/Ops `applyKind`: how a look-up result becomes the instruction's outcome (no defer here: the
`UnsupportedOpTypes` error of the look-up is the instruction's error) -/
def accOut : Acc F → OpOut F
  | .some v => .val v
  | .none => .val .unit
  | .unsupported => .err .unsupported
  | .err e => .err e

/-- entering an expression (Abs/Machine `applyStep`, `.enter`): the input value is pushed on the value stack, a frame
returning to `cursor + 1` and remembering the registers below the operands is pushed, execution continues at the
expression's jump-table entry (state error if there is none) -/
def Entered (S : RStore F σ) (s : σ) (res : Outcome (Option Nat × σ)) (rest : List Nat) (j : Nat) (input : Val F) :
    Prop :=
  match S.jumpTable s j with
  | none => res = .err .state
  | some t => ∃ ia s', res = .ok (some t, s') ∧ Decodes (S.view s') ia input ∧
      FEff S s s' rest (ia :: S.vals s) ((S.cursor s + 1, rest) :: S.frames s)

/-- one step of Abs/Ops `accessPath` -/
def pathLookup (p : SymPart F) (cur : Val F) : Acc F :=
  match p with
  | .sym y => accessSym y cur
  | .num n => accessInt fo n cur

/-- every value the path walks through is inside the look-up theorems' domain -/
def PathDomain (fuel : Nat) : List (SymPart F) → Val F → Prop
  | [], _ => True
  | p :: ps, cur => AccessDomain cur ∧ accessFuel cur ≤ fuel ∧
      (∀ n, p = .num n → (∃ i, n = .int i) ∧ RangeOrdered fo n cur) ∧
      ∀ v, pathLookup fo p cur = .some v → PathDomain fuel ps v

/-- the code's `check_fn` (closure state `Unit`) refines a value-level check: it only reads, and answers with an
address denoting the value-level answer -/
def CheckRefines (S : RStore F σ) (checkFn : Unit → Number F → Nat → RM σ (Option Nat × Unit))
    (vchk : Nat → Val F → Option (Val F)) : Prop :=
  ∀ (s : σ) (k addr : Nat) (v : Val F), k ≤ 2147483647 → Decodes (S.view s) addr v →
    ∃ o, checkFn () (.int k) addr s = .ok ((o, ()), s) ∧
      match vchk k v with
      | some w => ∃ a, o = some a ∧ Decodes (S.view s) a w
      | none => o = none

/-- the check of `index_concatenation_for` on values -/
def idxChk (i : Int) (k : Nat) (v : Val F) : Option (Val F) := if (k : Int) = i then some v else none

/-- the check of the symbol look-up on values: the value of a pair keyed by `sym` -/
def keyedVal (sym : Nat) : Val F → Option (Val F)
  | .pair (.sym k) x => if k == sym then some x else none
  | _ => none

end Garnish.Model.Runtime
