/-
A list-backed reference store for the runtime interface `RStore` (Model/Runtime/Store.lean): the simplest
data object that satisfies the contract `StoreLaws` (proved in Lemmas/RuntimeRefStore.lean), so that the
hypotheses of the refinement theorems are satisfiable, and the store of their non-vacuity examples.

Address = index into `cells`; an adder appends one cell and returns its index (no interning). A concatenation
cell carries the addresses its iterator yields, computed when it is added (`flat`). The host is a parameter:
it declines (`none`) or accepts by adding one cell and pushing it on the registers.
-/
import Garnish.Model.Runtime.Store
namespace Garnish.Model.Runtime
open Garnish Gen Garnish.Model.Equality

inductive RCell (F : Type) where
  | unit | tru | fls
  | num (n : Number F) | char (c : Nat) | byte (b : Nat) | sym (s : Nat) | expr (j : Nat) | ext (n : Nat)
  | type (t : Ty)
  | chars (cs : List Nat) | bytes (bs : List Nat) | symList (ps : List (SymPart F))
  | pair (l r : Nat) | list (items : List Nat) | concat (l r : Nat) (items : List Nat)
  | range (s e : Nat) | slice (v r : Nat) | part (f x : Nat) | custom

variable {F : Type}

def RCell.ty : RCell F → Ty
  | .unit => .unit | .tru => .true | .fls => .false | .num _ => .number | .char _ => .char | .byte _ => .byte
  | .sym _ => .symbol | .expr _ => .expression | .ext _ => .external | .type _ => .type_
  | .chars _ => .charList | .bytes _ => .byteList | .symList _ => .symbolList | .pair _ _ => .pair
  | .list _ => .list | .concat _ _ _ => .concatenation | .range _ _ => .range | .slice _ _ => .slice
  | .part _ _ => .partial_ | .custom => .custom

/-- the getters, each a function of the cell at the address -/
def refView (cells : List (RCell F)) : StoreView F where
  typeOf a := match cells[a]? with | some c => some c.ty | none => none
  number a := match cells[a]? with | some (.num n) => some n | _ => none
  char a := match cells[a]? with | some (.char c) => some c | _ => none
  byte a := match cells[a]? with | some (.byte b) => some b | _ => none
  symbol a := match cells[a]? with | some (.sym s) => some s | _ => none
  expression a := match cells[a]? with | some (.expr j) => some j | _ => none
  external a := match cells[a]? with | some (.ext n) => some n | _ => none
  type_ a := match cells[a]? with | some (.type t) => some t | _ => none
  pair a := match cells[a]? with | some (.pair l r) => some (l, r) | _ => none
  range a := match cells[a]? with | some (.range s e) => some (s, e) | _ => none
  concatenation a := match cells[a]? with | some (.concat l r _) => some (l, r) | _ => none
  slice a := match cells[a]? with | some (.slice v r) => some (v, r) | _ => none
  partial_ a := match cells[a]? with | some (.part f x) => some (f, x) | _ => none
  listItems a := match cells[a]? with | some (.list items) => some items | _ => none
  concatItems a := match cells[a]? with | some (.concat _ _ items) => some items | _ => none
  chars a := match cells[a]? with | some (.chars cs) => some cs | _ => none
  bytes a := match cells[a]? with | some (.bytes bs) => some bs | _ => none
  symList a := match cells[a]? with | some (.symList ps) => some ps | _ => none

structure RefState (F : Type) where
  cells : List (RCell F)
  regs : List Nat
  vals : List Nat
  /-- return address and the caller's registers -/
  frames : List (Nat × List Nat)
  trace : List HostCall
  /-- the list under construction (the token is the number of items so far) -/
  building : Option (Nat × List Nat)
  jumps : List Nat
  instrs : List (Instruction × Option Nat)
  instrLen : Nat
  cursor : Nat

/-- the host: `none` declines, `some c` accepts with the result cell `c` -/
abbrev RefHost (F : Type) := HostCall → Option (RCell F)

/-- what the concatenation iterator yields for one operand -/
def flat (cells : List (RCell F)) (a : Nat) : List Nat :=
  match cells[a]? with
  | some (.list items) => items
  | some (.concat _ _ items) => items
  | _ => [a]

def symParts (cells : List (RCell F)) (a : Nat) : Option (List (SymPart F)) :=
  match cells[a]? with
  | some (.sym s) => some [.sym s]
  | some (.num n) => some [.num n]
  | some (.symList ps) => some ps
  | _ => none

/-- an indexed getter over the sequence `xs`: integer indexes from 0; a negative or fractional index is a
`Data::Error`, an index past the end is `None` -/
def idxItem {β : Type} (xs : Option (List β)) (i : Number F) : Outcome (Option β) :=
  match xs, i with
  | some xs, .int i => if i < 0 then .err .data else .ok xs[i.toNat]?
  | _, _ => .err .data

def idxLen {β : Type} (xs : Option (List β)) : Outcome Nat :=
  match xs with
  | some xs => .ok xs.length
  | none => .err .data

/-- address of the value of the first item that is a pair keyed by the symbol `sym` -/
def findKeyed (cells : List (RCell F)) (sym : Nat) : List Nat → Option Nat
  | [] => none
  | item :: rest =>
    match cells[item]? with
    | some (.pair l r) =>
      (match cells[l]? with
       | some (.sym k) => if k == sym then some r else findKeyed cells sym rest
       | _ => findKeyed cells sym rest)
    | _ => findKeyed cells sym rest

def RefState.add (c : RCell F) : RM (RefState F) Nat := fun st =>
  .ok (st.cells.length, { st with cells := st.cells ++ [c] })

def RefState.host (h : RefHost F) (c : HostCall) : RM (RefState F) Bool := fun st =>
  match h c with
  | none => .ok (false, { st with trace := c :: st.trace })
  | some cell => .ok (true, { st with trace := c :: st.trace, cells := st.cells ++ [cell],
                                      regs := st.cells.length :: st.regs })

def refStore (h : RefHost F) : RStore F (RefState F) where
  view st := refView st.cells
  regs st := st.regs
  vals st := st.vals
  trace st := st.trace
  jumpTable st j := st.jumps[j]?
  instruction st i := st.instrs[i]?
  frames st := st.frames
  setInstructionCursor n := fun st => .ok ((), { st with cursor := n })
  instrLen st := st.instrLen
  cursor st := st.cursor
  dataLen st := st.cells.length
  listLen st a := idxLen ((refView st.cells).listItems a)
  charLen st a := idxLen ((refView st.cells).chars a)
  byteLen st a := idxLen ((refView st.cells).bytes a)
  symLen st a := idxLen ((refView st.cells).symList a)
  listItem st a i := idxItem ((refView st.cells).listItems a) i
  charItem st a i := idxItem ((refView st.cells).chars a) i
  byteItem st a i := idxItem ((refView st.cells).bytes a) i
  symItem st a i := idxItem ((refView st.cells).symList a) i
  listItemWithSymbol st a sym :=
    match (refView st.cells).listItems a with
    | some items => .ok (findKeyed st.cells sym items)
    | none => .err .data
  addUnit := RefState.add .unit
  addTrue := RefState.add .tru
  addFalse := RefState.add .fls
  addNumber n := RefState.add (.num n)
  addType t := RefState.add (.type t)
  addChar c := RefState.add (.char c)
  addByte b := RefState.add (.byte b)
  addSymbol s := RefState.add (.sym s)
  addPair p := RefState.add (.pair p.1 p.2)
  addConcatenation l r := fun st => RefState.add (.concat l r (flat st.cells l ++ flat st.cells r)) st
  addRange s e := RefState.add (.range s e)
  addSlice v r := RefState.add (.slice v r)
  addPartial f x := RefState.add (.part f x)
  building st := st.building
  startList _ := fun st => .ok (0, { st with building := some (0, []) })
  addToList t a := fun st =>
    match st.building with
    | some (t0, items) =>
      if t0 == t then .ok (t + 1, { st with building := some (t + 1, items ++ [a]) }) else .err .data
    | none => .err .data
  endList t := fun st =>
    match st.building with
    | some (t0, items) =>
      if t0 == t then
        .ok (st.cells.length, { st with cells := st.cells ++ [.list items], building := none })
      else .err .data
    | none => .err .data
  mergeToSymbolList l r := fun st =>
    match symParts st.cells l, symParts st.cells r with
    | some a, some b => RefState.add (.symList (a ++ b)) st
    | _, _ => .err .data
  pushRegister a := fun st => .ok ((), { st with regs := a :: st.regs })
  popRegister := fun st =>
    match st.regs with
    | [] => .ok (none, st)
    | a :: rest => .ok (some a, { st with regs := rest })
  pushValueStack a := fun st => .ok ((), { st with vals := a :: st.vals })
  popValueStack := fun st =>
    match st.vals with
    | [] => .ok (none, st)
    | a :: rest => .ok (some a, { st with vals := rest })
  setCurrentValue r := fun st =>
    match st.vals with
    | [] => .ok (false, st)
    | _ :: rest => .ok (true, { st with vals := r :: rest })
  pushFrame j := fun st => .ok ((), { st with frames := (j, st.regs) :: st.frames })
  popFrame := fun st =>
    match st.frames with
    | [] => .ok (none, st)
    | (ret, saved) :: fs => .ok (some ret, { st with frames := fs, regs := saved })
  deferOp op l r := RefState.host h (.defer op l r)
  resolve y := RefState.host h (.resolve y)
  apply e a := RefState.host h (.apply e a)

/-- a store holding `cells`, registers `regs`, nothing else -/
def RefState.init (cells : List (RCell F)) (regs : List Nat) : RefState F :=
  { cells := cells, regs := regs, vals := [], frames := [], trace := [], building := none, jumps := [],
    instrs := [], instrLen := 0, cursor := 0 }

end Garnish.Model.Runtime
