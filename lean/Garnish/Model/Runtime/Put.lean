/-
L2 code model of runtime/src/runtime/put.rs (`put`, `put_value`, `push_value`, `update_value`) and
sideeffect.rs (`start_side_effect`, `end_side_effect`) over the abstract store.
-/
import Garnish.Model.Runtime.Utilities
namespace Garnish.Model.Runtime
open Garnish Gen Garnish.Model.Equality

variable {F σ : Type} (S : RStore F σ)

/-- `put` -/
def put (i : Nat) : RM σ (Option Nat) := do
  match decide (i ≥ (← RM.read S.dataLen)) with
  | true => stateError          -- "Attempting to put reference … outside of data bounds"
  | false => S.pushRegister i
  pure none

/-- `put_value` -/
def putValue : RM σ (Option Nat) := do
  match ← getCurrentValue S with
  | none => pushUnit S
  | some i => S.pushRegister i
  pure none

/-- `push_value` -/
def pushValue : RM σ (Option Nat) := do
  let r ← nextRef S
  S.pushValueStack r
  pure none

/-- `update_value` -/
def updateValue : RM σ (Option Nat) := do
  let r ← nextRef S
  match ← S.setCurrentValue r with
  | false => stateError         -- "No inputs available to update for update value operation."
  | true => pure ()
  pure none

/-- `start_side_effect` -/
def startSideEffect : RM σ (Option Nat) := do
  match ← getCurrentValue S with
  | none => do
    let r ← S.addUnit
    S.pushValueStack r
  | some r => S.pushValueStack r
  pure none

/-- `end_side_effect` -/
def endSideEffect : RM σ (Option Nat) := do
  match ← S.popValueStack with
  | some _ => pure ()
  | none => stateError          -- "Could not pop value at end of side effect."
  match ← S.popRegister with
  | some _ => pure none
  | none => stateError          -- "Could not pop register at end of side effect."

end Garnish.Model.Runtime
