/-
The contract of the four data-object conversions `type_cast` delegates to (`CastOps`, Model/Runtime/Casting.lean),
as an ADDITIVE extension of `StoreLaws`, and the refinement relation for casts.

`StoreLawsC S C env`: the store satisfies `StoreLaws`, and its conversions answer as the value-level model of
Abs/Casts.lean says for the data implementation `env.store` (the two shipped implementations answer differently —
text rendering, byte lists, symbols; `env` selects whose answer is assumed; `env.showF` is the float → text function):
the new address denotes the converted value, nothing else is disturbed; where the model says the conversion fails
the store fails with that error class.

`RefinesCast`: `RefinesOut` (Model/Runtime/Refines.lean) with ONE difference, dictated by the code: `type_cast` offers
an undefined cast to the host as `defer_op(ApplyType, (left_type, left), (right_type, right))` where `right_type` is
the CORRECTED target type (`castTarget`: what a `Type` value names), not the type of the right operand's address.
-/
import Garnish.Model.Runtime.Casting
import Garnish.Model.Runtime.Refines
import Garnish.Abs.Casts
namespace Garnish.Model.Runtime
open Garnish Gen Garnish.Abs Garnish.Model.Equality

variable {F σ : Type}

/-- a conversion against its value-level outcome (a conversion never offers to the host) -/
def ConvOut (S : RStore F σ) (m : RM σ Nat) (s : σ) (o : OpOut F) : Prop :=
  match o with
  | .val w => Adds S m s w
  | .err e => m s = .err e
  | .defer _ _ _ => False

/-- the `(_, CharList)` arm on values: the text of the value, or the conversion's error -/
def textOut (env : CastEnv F) (v : Val F) : OpOut F :=
  match textOf env v with
  | .ok t => .val (.chars t)
  | .error e => .err e

/-- the `(CharList, Number)` arm on values -/
def numberOut (cs : List Nat) : Val F :=
  match parseI32 cs with
  | some v => .num (.int v)
  | none => .unit

/-- the `(CharList, Char)` arm on values: the character of a one-character text, unit otherwise -/
def oneChar (cs : List Nat) : Val F :=
  match cs with
  | [c] => .char c
  | _ => .unit

structure StoreLawsC (S : RStore F σ) (C : CastOps σ) (env : CastEnv F) : Prop extends StoreLaws S where
  /-- `add_number_from` on a text (the only source `type_cast` passes): `str::parse::<i32>`, unit when it reads none -/
  addNumberFrom : ∀ s a cs, Decodes (S.view s) a (.chars cs) →
    Adds S (C.addNumberFrom a) s (numberOut cs)
  /-- `add_char_list_from`: the text of the value -/
  addCharListFrom : ∀ s a v, Decodes (S.view s) a v →
    ConvOut S (C.addCharListFrom a) s (textOut env v)
  /-- `add_byte_list_from` -/
  addByteListFrom : ∀ s a v, Decodes (S.view s) a v → ConvOut S (C.addByteListFrom a) s (byteListFrom env v)
  /-- `add_symbol_from` -/
  addSymbolFrom : ∀ s a v, Decodes (S.view s) a v → ConvOut S (C.addSymbolFrom a) s (symbolFrom env v)
  /-- adding a leaf value or touching the registers does not disturb a list under construction (`type_cast` adds the
  items between `start_list` and `end_list`; `StoreLaws` says this for `pop_register` only) -/
  buildAddUnit : ∀ s a s', S.addUnit s = .ok (a, s') → S.building s' = S.building s
  buildAddNumber : ∀ n s a s', S.addNumber n s = .ok (a, s') → S.building s' = S.building s
  buildAddChar : ∀ c s a s', S.addChar c s = .ok (a, s') → S.building s' = S.building s
  buildAddByte : ∀ b s a s', S.addByte b s = .ok (a, s') → S.building s' = S.building s
  buildAddSymbol : ∀ y s a s', S.addSymbol y s = .ok (a, s') → S.building s' = S.building s
  buildPushRegister : ∀ x s u s', S.pushRegister x s = .ok (u, s') → S.building s' = S.building s

/-- `RefinesOut` for `type_cast`: the right operand is offered with its corrected target type -/
def RefinesCast {α : Type} (S : RStore F σ) (s : σ) (res : Outcome (α × σ)) (next : α) (rest : List Nat)
    (la ra : Nat) (o : OpOut F) : Prop :=
  match o with
  | .val v => Pushed S s res next rest v
  | .defer op vl vr => ∃ s0, Eff S s s0 rest (S.vals s) ∧
      DeferProtocol S s0 res next op (vl.typeOf, la) (castTarget vr, ra)
  | .err e => res = .err e

end Garnish.Model.Runtime
