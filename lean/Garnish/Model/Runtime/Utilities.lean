/-
L2 code model of runtime/src/runtime/utilities.rs (`next_ref`, `next_two_raw_ref`, `get_range`, `push_unit`,
`push_number`, `push_boolean`, `push_pair`), runtime/src/runtime/error.rs (`or_num_err`, `state_error`) and
`range_len` of range.rs, over the abstract store `RStore` (Model/Runtime/Store.lean). Statement by statement;
function names as in the Rust.
-/
import Garnish.Model.Runtime.Store
namespace Garnish.Model.Runtime
open Garnish Gen Garnish.Model.Equality

variable {F σ : Type} (fo : FloatOps F) (S : RStore F σ)

/-- `Option::or_num_err()?` -/
def orNumErr {α : Type} : Option α → RM σ α
  | some a => pure a
  | none => RM.fail .number

/-- `state_error(..)?` -/
def stateError {α : Type} : RM σ α := RM.fail .state

/-- `a < b` on `Data::Number` (`PartialOrd::lt`: `partial_cmp == Some(Less)`) -/
def numLt (a b : Number F) : Bool :=
  match Number.partialCmp fo a b with
  | some .lt => true
  | _ => false

/-- `a >= b` on `Data::Number` (`Some(Greater | Equal)`) -/
def numGe (a b : Number F) : Bool :=
  match Number.partialCmp fo a b with
  | some .gt | some .eq => true
  | _ => false

/-- `a > b` -/
def numGt (a b : Number F) : Bool :=
  match Number.partialCmp fo a b with
  | some .gt => true
  | _ => false

/-- `a <= b` (`Some(Less | Equal)`) -/
def numLe (a b : Number F) : Bool :=
  match Number.partialCmp fo a b with
  | some .lt | some .eq => true
  | _ => false

/-- `next_ref` -/
def nextRef : RM σ Nat := do
  match ← S.popRegister with
  | none => stateError          -- "No references in register."
  | some i => pure i

/-- `next_two_raw_ref`: (first pop, second pop) -/
def nextTwoRawRef : RM σ (Nat × Nat) := do
  let firstRef ← nextRef S
  let secondRef ← nextRef S
  pure (firstRef, secondRef)

/-- `range_len` (range.rs): `end.subtract(start).or_num_err()?.increment().or_num_err()` -/
def rangeLen (start end_ : Number F) : RM σ (Number F) := do
  let d ← orNumErr (Number.subtract fo end_ start)
  orNumErr (Number.increment fo d)

/-- `get_range`: (start, end, range_len) of a range with two number ends -/
def getRange (addr : Nat) : RM σ (Number F × Number F × Number F) := do
  let (start, end_) ← getRangeRaw S addr
  let ts ← getDataType S start
  let te ← getDataType S end_
  match ts, te with
  | .number, .number => do
    let start ← getNumber S start
    let end_ ← getNumber S end_
    let len ← rangeLen fo start end_
    pure (start, end_, len)
  | _, _ => stateError            -- "Invalid range values"

/-- `push_unit` -/
def pushUnit : RM σ Unit := do
  let v ← S.addUnit
  S.pushRegister v

/-- `push_number` -/
def pushNumber (value : Number F) : RM σ Unit := do
  let v ← S.addNumber value
  S.pushRegister v

/-- `push_boolean` -/
def pushBoolean (value : Bool) : RM σ Unit := do
  let v ← match value with
    | true => S.addTrue
    | false => S.addFalse
  S.pushRegister v

/-- `push_pair` -/
def pushPair (left right : Nat) : RM σ Unit := do
  let v ← S.addPair (left, right)
  S.pushRegister v

/-- the recurring statement `if !this.defer_op(op, left, right)? { push_unit(this)? }` -/
def deferOrUnit (op : Instruction) (left right : Ty × Nat) : RM σ Unit := do
  if !(← S.deferOp op left right) then
    pushUnit S

end Garnish.Model.Runtime
