/-
L2 code model of runtime/src/runtime/range.rs (`make_range`, `make_start_exclusive_range`,
`make_end_exclusive_range`, `make_exclusive_range`, `make_range_internal`; `range_len` is in Utilities.lean next
to `get_range`, its caller) over the abstract store.
-/
import Garnish.Model.Runtime.Utilities
namespace Garnish.Model.Runtime
open Garnish Gen Garnish.Model.Equality

variable {F σ : Type} (fo : FloatOps F) (S : RStore F σ)

/-- the `match (start_exclusive, end_exclusive)` that names the instruction for the host -/
def rangeInstruction : Bool → Bool → Instruction
  | false, false => .makeRange
  | true, false => .makeStartExclusiveRange
  | false, true => .makeEndExclusiveRange
  | true, true => .makeExclusiveRange

/-- the expression `this.add_number(this.get_number(addr)?.increment().or_num_err()?)?` -/
def addIncremented (addr : Nat) : RM σ Nat := do
  let n ← getNumber S addr
  let n ← orNumErr (Number.increment fo n)
  S.addNumber n

/-- `make_range_internal` -/
def makeRangeInternal (startExclusive endExclusive : Bool) : RM σ (Option Nat) := do
  let (rightAddr, leftAddr) ← nextTwoRawRef S
  let tl ← getDataType S leftAddr
  let tr ← getDataType S rightAddr
  match tl, tr with
  | .number, .number => do
    let leftAddr ← if startExclusive then addIncremented fo S leftAddr else pure leftAddr
    let rightAddr ← if endExclusive then pure rightAddr else addIncremented fo S rightAddr
    let addr ← S.addRange leftAddr rightAddr
    S.pushRegister addr
  | l, r =>
    deferOrUnit S (rangeInstruction startExclusive endExclusive) (l, leftAddr) (r, rightAddr)
  pure none

def makeRange := makeRangeInternal fo S false false
def makeStartExclusiveRange := makeRangeInternal fo S true false
def makeEndExclusiveRange := makeRangeInternal fo S false true
def makeExclusiveRange := makeRangeInternal fo S true true

end Garnish.Model.Runtime
