/-
The host TRACE in the simulation (additive to Model/Runtime/Sim.lean):

* `CallRel view c c'` — an address-level host call (`Model.Runtime.HostCall`: instruction with (type, address) pairs,
  symbol, (external value, argument address)) denotes the value-level call `c'` (`Abs.HostCall`): same instruction /
  symbol / external value, the types are the types of the values, the addresses decode to the values (for a unary
  operation the right operand is the filler `(Unit, 0)` against the value `unit`);
* `TraceRel view t t'` — call for call (both traces newest first);
* `SimT` — `Sim` plus `TraceRel` of the store's recorded calls and the machine's trace;
* `HandlerTrace`, `StepTrace` — the trace halves of `HandlerSim`, `StepSim`: IF the traces were related before the
  handler / step, they are related after it, for whatever state the (deterministic) handler / step returns.
-/
import Garnish.Model.Runtime.Run
namespace Garnish.Model.Runtime
open Garnish Gen Garnish.Abs Garnish.Model.Equality

variable {F σ : Type}

def CallRel (view : StoreView F) : HostCall → Abs.HostCall F → Prop
  | .defer op (tl, la) (tr, ra), .defer op' vl vr =>
    op = op' ∧ tl = vl.typeOf ∧ tr = vr.typeOf ∧ Decodes view la vl ∧ (Decodes view ra vr ∨ (vr = .unit ∧ ra = 0))
  | .resolve y, .resolve y' => y = y'
  | .apply e a, .apply e' v => e = e' ∧ Decodes view a v
  | _, _ => False

inductive TraceRel (view : StoreView F) : List HostCall → List (Abs.HostCall F) → Prop
  | nil : TraceRel view [] []
  | cons {c c' t t'} : CallRel view c c' → TraceRel view t t' → TraceRel view (c :: t) (c' :: t')

def SimT (S : RStore F σ) (P : Prog F) (s : σ) (m : MState F) : Prop :=
  Sim S P s m ∧ TraceRel (S.view s) (S.trace s) m.trace

/-- trace half of `HandlerSim` (`mt` = the machine's trace before the step) -/
def HandlerTrace (S : RStore F σ) (s : σ) (res : Outcome (Option Nat × σ)) (mt : List (Abs.HostCall F))
    (r : Except ErrClass (MState F × Nat)) : Prop :=
  match r with
  | .ok (md, _) => ∀ next s1, res = .ok (next, s1) → TraceRel (S.view s) (S.trace s) mt →
      TraceRel (S.view s1) (S.trace s1) md.trace
  | .error _ => True

/-- trace half of `StepSim` -/
def StepTrace (fo : FloatOps F) (host : Host F) (S : RStore F σ) (P : Prog F) (fuel : Nat) (H : OtherHandlers σ)
    (s : σ) (m : MState F) : Prop :=
  TraceRel (S.view s) (S.trace s) m.trace →
    match Abs.step fo host P m with
    | .running m' => ∀ r s', executeCurrentInstruction fo S fuel H s = .ok (r, s') →
        TraceRel (S.view s') (S.trace s') m'.trace
    | .halted m' => ∀ r s', executeCurrentInstruction fo S fuel H s = .ok (r, s') →
        TraceRel (S.view s') (S.trace s') m'.trace
    | .err _ => True

end Garnish.Model.Runtime
