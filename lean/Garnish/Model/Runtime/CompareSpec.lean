/-
The code-faithful VALUE-LEVEL description of `perform_comparison` (comparison.rs), used to state the refinement
of Model/Runtime/Comparison.lean (Props/RuntimeRefineCompare.lean).

`compareValsR` is Abs/Ops `compareVals` except in the Slice/Slice arm over two texts / two byte lists, where it
does what the Rust does: `get_range` of the left slice's range, then of the right one — a range whose ends are
not both numbers is the state error "Invalid range values", a length overflow is the number error — and then
`cmp_list` from the two starts. `none` = a negative or fractional start: the item getters of the data
implementations answer such an index each in their own way, the trait promises nothing.
-/
import Garnish.Model.Runtime.Store
namespace Garnish.Model.Runtime
open Garnish Gen Garnish.Abs Garnish.Model.Equality

variable {F σ : Type} (fo : FloatOps F)

/-- `get_range(range).0` on values: the start of a range with two number ends whose length does not overflow -/
def rangeStartR : Val F → Except ErrClass (Number F)
  | .range (.num s) (.num e) =>
    match Abs.rangeLen fo s e with
    | some _ => .ok s
    | none => .error .number
  | .range _ _ => .error .state
  | _ => .error .data

/-- `cmp_list` from two starts; `none` = outside the item getters' contract (negative or fractional start) -/
def cmpFromR (a b : List Nat) (s1 s2 : Number F) : Option CmpRes :=
  match s1, s2 with
  | .int i, .int j => if 0 ≤ i ∧ 0 ≤ j then some (.ord (cmpListFrom a b i.toNat j.toNat)) else none
  | _, _ => none

/-- two texts (or two byte lists) under two slices: `get_range` of the left slice's range, then of the right
one (their errors are the instruction's errors); then `cmp_list` from the two starts -/
def sliceGoR (a b : List Nat) (lr rr : Val F) : Option (Except ErrClass CmpRes) :=
  match rangeStartR fo lr with
  | .error e => some (.error e)
  | .ok s1 =>
    match rangeStartR fo rr with
    | .error e => some (.error e)
    | .ok s2 => (cmpFromR a b s1 s2).map .ok

/-- the Slice/Slice arm as the code computes it: bytes before text, anything else is not ordered -/
def compareSlicesR (lv lr rv rr : Val F) : Option (Except ErrClass CmpRes) :=
  match lv, rv with
  | .bytes a, .bytes b => sliceGoR fo a b lr rr
  | .chars a, .chars b => sliceGoR fo a b lr rr
  | _, _ => some (.ok .foreign)

/-- `perform_comparison` on values -/
def compareValsR (l r : Val F) : Option (Except ErrClass CmpRes) :=
  match l, r with
  | .slice lv lr, .slice rv rr => compareSlicesR fo lv lr rv rr
  | l, r => some (.ok (compareVals fo l r))

/-- the `Option<Ordering>` `perform_comparison` returns for a comparison result -/
def ordOf (falseOrd : Ordering) : CmpRes → Option Ordering
  | .foreign => some falseOrd
  | .unordered => none
  | .ord o => some o

/-- length of the text / byte sequence a comparison walks over -/
def textLen : Val F → Nat
  | .chars a => a.length
  | .bytes a => a.length
  | .slice v _ => textLen v
  | _ => 0

/-- outcome of a comparison body against the code-faithful value-level result -/
def CmpOutcome (r : Option (Except ErrClass CmpRes)) (falseOrd : Ordering) (res : Outcome (Option Ordering × σ))
    (s0 : σ) : Prop :=
  match r with
  | some (.ok c) => res = .ok (ordOf falseOrd c, s0)
  | some (.error e) => res = .err e
  | none => True

/-- the value a comparison handler pushes (the three arms of Abs/Ops `cmpOp`) -/
def cmpValOf (accept : Ordering → Bool) : CmpRes → Val F
  | .foreign => .fls
  | .unordered => .unit
  | .ord o => Val.ofBool (accept o)

end Garnish.Model.Runtime
