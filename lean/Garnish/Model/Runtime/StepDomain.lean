/-
The side conditions of the step simulation (Props/RuntimeRefineStep.lean), per instruction: `StepOK` says for which
machine states the address-level step is proved to simulate Abs/Machine `step`. Instructions whose handlers are not
transliterated (`TypeOf`, `ApplyType`, `TypeEqual`, `Equal`, `NotEqual`, the three `Access…Internal`) are `False`
here; everything else is either unconditional or carries the domain of its handler's refinement theorem.
-/
import Garnish.Model.Runtime.Sim
import Garnish.Model.Runtime.RefinesApply
import Garnish.Model.Runtime.CompareSpec
namespace Garnish.Model.Runtime
open Garnish Gen Garnish.Abs Garnish.Model.Equality

variable {F σ : Type} (fo : FloatOps F)

/-- the operand shapes the look-up arms of `apply_internal` are proved for -/
def ApplyDomain (fuel : Nat) (vl vr : Val F) : Prop :=
  match applyArm vl.typeOf vr.typeOf with
  | .accInt => AccessDomain vl ∧ ∃ i, vr = .num (.int i)
  | .accSym => AccessDomain vl
  | .path => ∀ items ps, vl = .list items → vr = .symList ps → PathDomain fo fuel ps (.list items)
  | .sliceNarrow => ∀ v sr, vl = .slice v sr → ∃ a b, sr = .range a b
  | _ => True


/-- the side condition of the comparison instructions on the two top registers -/
def CompareDomain (fuel : Nat) (vl vr : Val F) : Prop :=
  textLen vl ≤ 2147483647 ∧ textLen vr ≤ 2147483647 ∧ min (textLen vl) (textLen vr) + 1 ≤ fuel ∧
    compareValsR fo vl vr = some (.ok (compareVals fo vl vr))

/-- the side condition of `Access` on the two top registers -/
def AccessOK (fuel : Nat) (vl vr : Val F) : Prop :=
  accessArm vl.typeOf vr.typeOf = .get → AccessDomain vl ∧ accessFuel vl ≤ fuel ∧
    ∀ n, vr = .num n → (∃ i, n = .int i) ∧ RangeOrdered fo n vl

/-- the side condition of `Resolve k` -/
def ResolveOK (S : RStore F σ) (P : Prog F) (fuel : Nat) (s : σ) (m : MState F) (k : Nat) : Prop :=
  ∀ key, P.consts[k]? = some key → Decodes (S.view s) k key ∧
    ∀ cur vs, m.vals = cur :: vs → AccessDomain cur ∧ accessFuel cur ≤ fuel ∧
      ∀ n, key = .num n → (∃ i, n = .int i) ∧ RangeOrdered fo n cur

/-- the side condition of `Put k`: the constant `k` of the program lives at address `k` of the store -/
def PutOK (S : RStore F σ) (P : Prog F) (s : σ) (k : Nat) : Prop :=
  ∀ v, P.consts[k]? = some v → k < S.dataLen s ∧ Decodes (S.view s) k v

def StepOK (S : RStore F σ) (P : Prog F) (fuel : Nat) (s : σ) (m : MState F) (instr : Instruction)
    (operand : Option Nat) : Prop :=
  match instr with
  | .typeOf | .applyType | .typeEqual | .equal | .notEqual | .accessLeftInternal | .accessRightInternal
  | .accessLengthInternal => False
  | .put => ∀ k, operand = some k → PutOK S P s k
  | .resolve => ∀ k, operand = some k → ResolveOK fo S P fuel s m k
  | .lessThan | .lessThanOrEqual | .greaterThan | .greaterThanOrEqual =>
    ∀ vr vl rs, m.regs = vr :: vl :: rs → CompareDomain fo fuel vl vr
  | .access => ∀ vr vl rs, m.regs = vr :: vl :: rs → AccessOK fo fuel vl vr
  | .apply => ∀ vr vl rs, m.regs = vr :: vl :: rs → ApplyDomain fo fuel vl vr
  | .emptyApply => ∀ vl rs, m.regs = vl :: rs → ApplyDomain fo fuel vl .unit
  | _ => True

end Garnish.Model.Runtime
