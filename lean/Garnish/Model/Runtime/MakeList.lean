/-
L2 code model of `make_list` (runtime/src/runtime/list.rs) over the abstract store: `start_list`, one `add_to_list`
per register from `get_register(register_len - len)` upwards (the register `Vec` is indexed from the BOTTOM, the
model's register list has its top at the head: `get_register(i)` = `regs.reverse[i]?`), `len` pops, `end_list`,
`push_register`. Both `while` loops count a `usize` up to a bound fixed before the loop: `rem` = what is left.
-/
import Garnish.Model.Runtime.Concatenation
namespace Garnish.Model.Runtime
open Garnish Gen Garnish.Model.Equality

variable {F σ : Type} (S : RStore F σ)

/-- `get_register(i)` -/
def getRegister (i : Nat) : RM σ (Option Nat) := RM.read (fun s => (S.regs s).reverse[i]?)

/-- `while count < end { … add_to_list … count += 1 }` -/
def makeListAdd : Nat → Nat → Nat → RM σ Nat
  | 0, _, listIndex => pure listIndex
  | rem + 1, count, listIndex => do
    let r ← match ← getRegister S count with
      | none => stateError        -- "No register value at … when making list"
      | some r => pure r
    let listIndex ← S.addToList listIndex r
    makeListAdd rem (count + 1) listIndex

/-- `while count < len { this.pop_register()?; count += 1 }` -/
def popRegisters : Nat → RM σ Unit
  | 0 => pure ()
  | n + 1 => do
    let _ ← S.popRegister
    popRegisters n

/-- `make_list` -/
def makeList (len : Nat) : RM σ (Option Nat) := do
  if len > (← getRegisterLen S) then
    stateError                    -- "Not enough register values to make list of length"
  else pure ()
  let listIndex ← S.startList len
  let count := (← getRegisterLen S) - len
  let end_ ← getRegisterLen S
  let listIndex ← makeListAdd S (end_ - count) count listIndex
  -- remove used registers
  popRegisters S len
  let r ← S.endList listIndex
  S.pushRegister r
  pure none

end Garnish.Model.Runtime
