/-
What "the handler refines the value-level operation" means (used by Props/RuntimeRefine*.lean).

For a handler run from state `s` whose operands were on top of `rest`:
* `Pushed S s res next rest v`   — it returned `next`, the registers are `a :: rest` with `a` denoting `v`, every
  earlier `Decodes` fact, the value stack and the host trace are as before (`Eff`);
* `DeferProtocol S s0 res op l r` — from the state `s0` in which the operands have been popped, the handler's
  whole remaining behaviour is: ONE call `defer_op(op, l, r)`; if the host answers `true` the handler returns in
  the host's state without touching it; if it answers `false` unit is pushed on the host's registers; a host
  error is propagated;
* `RefinesOut S s res rest la ra o` — case split on the value-level outcome `o : OpOut F` (Abs/Ops.lean):
  `.val v` ↦ `Pushed`, `.defer op vl vr` ↦ operands popped then `DeferProtocol` with `(type of vl, la)`,
  `(type of vr, ra)`, `.err e` ↦ the same error class.
-/
import Garnish.Model.Runtime.Utilities
namespace Garnish.Model.Runtime
open Garnish Gen Garnish.Abs Garnish.Model.Equality

variable {F σ : Type}

def Pushed {α : Type} (S : RStore F σ) (s : σ) (res : Outcome (α × σ)) (next : α) (rest : List Nat)
    (v : Val F) : Prop :=
  ∃ a s', res = .ok (next, s') ∧ Decodes (S.view s') a v ∧ Eff S s s' (a :: rest) (S.vals s)

/-- the handler returned `next` with registers `rest`, nothing pushed -/
def Popped {α : Type} (S : RStore F σ) (s : σ) (res : Outcome (α × σ)) (next : α) (rest : List Nat) : Prop :=
  ∃ s', res = .ok (next, s') ∧ Eff S s s' rest (S.vals s)

def DeferProtocol {α : Type} (S : RStore F σ) (s0 : σ) (res : Outcome (α × σ)) (next : α) (op : Instruction)
    (l r : Ty × Nat) : Prop :=
  match S.deferOp op l r s0 with
  | .ok (true, s1) => res = .ok (next, s1)
  | .ok (false, s1) => Pushed S s1 res next (S.regs s1) .unit
  | .err e => res = .err e
  | .panic p => res = .panic p
  | .fuelOut => res = .fuelOut

def RefinesOut {α : Type} (S : RStore F σ) (s : σ) (res : Outcome (α × σ)) (next : α) (rest : List Nat)
    (la ra : Nat) (o : OpOut F) : Prop :=
  match o with
  | .val v => Pushed S s res next rest v
  | .defer op vl vr => ∃ s0, Eff S s s0 rest (S.vals s) ∧ DeferProtocol S s0 res next op (vl.typeOf, la) (vr.typeOf, ra)
  | .err e => res = .err e

/-- a lookup helper (`get_access_addr`, `access_with_integer`, `access_with_symbol`, `index_*`) against Abs/Ops
`Acc`: `Some(addr)` with `addr` denoting the value found (possibly freshly added), `None`, the
`UnsupportedOpTypes` error, or another error; registers, input values and host trace are as before -/
def AccOut (S : RStore F σ) (s : σ) (res : Outcome (Option Nat × σ)) (a : Acc F) : Prop :=
  match a with
  | .some v => ∃ x s', res = .ok (some x, s') ∧ Decodes (S.view s') x v ∧ Eff S s s' (S.regs s) (S.vals s)
  | .none => ∃ s', res = .ok (none, s') ∧ Eff S s s' (S.regs s) (S.vals s)
  | .unsupported => res = .err .unsupported
  | .err e => res = .err e

/-- the host's `resolve` is asked exactly once with `sym` from the state `s0`; `true` ↦ the handler returns in the
host's state without touching it; `false` ↦ unit is pushed on the host's registers; a host error is propagated -/
def ResolveProtocol {α : Type} (S : RStore F σ) (s0 : σ) (res : Outcome (α × σ)) (next : α) (sym : Nat) : Prop :=
  match S.resolve sym s0 with
  | .ok (true, s1) => res = .ok (next, s1)
  | .ok (false, s1) => Pushed S s1 res next (S.regs s1) .unit
  | .err e => res = .err e
  | .panic p => res = .panic p
  | .fuelOut => res = .fuelOut

/-- "check context, default to unit": a symbol key is offered to the host (`ResolveProtocol`); for any other key
unit is pushed and the host is not asked. Stacks and data before the host call are those of `s` (`Eff`). -/
def ResolveContext {α : Type} (S : RStore F σ) (s : σ) (res : Outcome (α × σ)) (next : α) (key : Val F) : Prop :=
  ∃ s0, Eff S s s0 (S.regs s) (S.vals s) ∧
    match key with
    | .sym sy => ResolveProtocol S s0 res next sy
    | _ => Pushed S s0 res next (S.regs s0) .unit

/-- the `External` arm of `apply_internal`: the host's `apply` is asked exactly once with the external's value and
the address of the argument -/
def ApplyProtocol {α : Type} (S : RStore F σ) (s0 : σ) (res : Outcome (α × σ)) (next : α) (ext arg : Nat) : Prop :=
  match S.apply ext arg s0 with
  | .ok (true, s1) => res = .ok (next, s1)
  | .ok (false, s1) => Pushed S s1 res next (S.regs s1) .unit
  | .err e => res = .err e
  | .panic p => res = .panic p
  | .fuelOut => res = .fuelOut

variable (fo : FloatOps F)

/-- values whose look-up is covered by the theorems: no slice at the top (Abs/Ops does not model look-ups in
slices); sequences — the flattened items of a concatenation included — no longer than `i32::MAX`
(`size_to_number`, the running index of the concatenation work-list) -/
def AccessDomain : Val F → Prop
  | .slice _ _ => False
  | .concat l r => (flatItems l ++ flatItems r).length ≤ 2147483647
  | .list vs => vs.length ≤ 2147483647
  | .chars cs => cs.length ≤ 2147483647
  | .bytes bs => bs.length ≤ 2147483647
  | .symList ps => ps.length ≤ 2147483647
  | _ => True

/-- the index is comparable with the length of the range (fails only for a NaN length or index) -/
def RangeOrdered (idx : Number F) (v : Val F) : Prop :=
  ∀ s e len, v = .range (.num s) (.num e) → Abs.rangeLen fo s e = some len →
    (Number.partialCmp fo idx len).isSome

end Garnish.Model.Runtime
