/-
What "the handler refines the value-level operation" means (used by Props/RuntimeRefine*.lean).

For a handler run from state `s` whose operands were on top of `rest`:
* `Pushed S s res next rest v`   — it returned `next`, the registers are `a :: rest` with `a` denoting `v`, every
  earlier `Decodes` fact, the value stack and the host trace are as before (`Eff`);
* `DeferProtocol S s0 res op l r` — from the state `s0` in which the operands have been popped, the handler's
  whole remaining behaviour is: ONE call `defer_op(op, l, r)`; if the host answers `true` the handler returns in
  the host's state without touching it; if it answers `false` unit is pushed on the host's registers; a host
  error is propagated;
* `RefinesOut S s res rest la ra o` — case split on the value-level outcome `o : OpOut F` (Abs/Ops.lean):
  `.val v` ↦ `Pushed`, `.defer op vl vr` ↦ operands popped then `DeferProtocol` with `(type of vl, la)`,
  `(type of vr, ra)`, `.err e` ↦ the same error class.
-/
import Garnish.Model.Runtime.Utilities
namespace Garnish.Model.Runtime
open Garnish Gen Garnish.Abs Garnish.Model.Equality

variable {F σ : Type}

def Pushed {α : Type} (S : RStore F σ) (s : σ) (res : Outcome (α × σ)) (next : α) (rest : List Nat)
    (v : Val F) : Prop :=
  ∃ a s', res = .ok (next, s') ∧ Decodes (S.view s') a v ∧ Eff S s s' (a :: rest) (S.vals s)

/-- the handler returned `next` with registers `rest`, nothing pushed -/
def Popped {α : Type} (S : RStore F σ) (s : σ) (res : Outcome (α × σ)) (next : α) (rest : List Nat) : Prop :=
  ∃ s', res = .ok (next, s') ∧ Eff S s s' rest (S.vals s)

def DeferProtocol {α : Type} (S : RStore F σ) (s0 : σ) (res : Outcome (α × σ)) (next : α) (op : Instruction)
    (l r : Ty × Nat) : Prop :=
  match S.deferOp op l r s0 with
  | .ok (true, s1) => res = .ok (next, s1)
  | .ok (false, s1) => Pushed S s1 res next (S.regs s1) .unit
  | .err e => res = .err e
  | .panic p => res = .panic p
  | .fuelOut => res = .fuelOut

def RefinesOut {α : Type} (S : RStore F σ) (s : σ) (res : Outcome (α × σ)) (next : α) (rest : List Nat)
    (la ra : Nat) (o : OpOut F) : Prop :=
  match o with
  | .val v => Pushed S s res next rest v
  | .defer op vl vr => ∃ s0, Eff S s s0 rest (S.vals s) ∧ DeferProtocol S s0 res next op (vl.typeOf, la) (vr.typeOf, ra)
  | .err e => res = .err e

end Garnish.Model.Runtime
