/-
Value-level description of the register work-list `iterate_concatenation_mut_with_method`
(traits/src/helpers/concatenation.rs, Model/Runtime/Concatenation.lean): the order in which the items of a
concatenation are visited (`visit`), the number of loop rounds (`nodes`), and "the first item the check accepts"
(`firstHit`). Used to state the refinement of look-ups into concatenations.
-/
import Garnish.Model.Runtime.Store
namespace Garnish.Model.Runtime
open Garnish Gen Garnish.Abs Garnish.Model.Equality

variable {F : Type}

/-- the items `iterate_concatenation_mut_with_method` visits for one pending value, in order: a list gives its items
(always forward), a concatenation its operands (left first, or right first when `rev`), anything else itself -/
def visit (rev : Bool) : Val F → List (Val F)
  | .list items => items
  | .concat l r => if rev then visit rev r ++ visit rev l else visit rev l ++ visit rev r
  | v => [v]

def visitAll (rev : Bool) : List (Val F) → List (Val F)
  | [] => []
  | v :: vs => visit rev v ++ visitAll rev vs

/-- loop iterations one pending value costs: one per node popped -/
def nodes : Val F → Nat
  | .concat l r => 1 + nodes l + nodes r
  | _ => 1

def nodesAll : List (Val F) → Nat
  | [] => 0
  | v :: vs => nodes v + nodesAll vs

/-- the first item (with its running index) the value-level check accepts -/
def firstHit (vchk : Nat → Val F → Option (Val F)) : Nat → List (Val F) → Option (Val F)
  | _, [] => none
  | k, v :: vs => match vchk k v with
    | some w => some w
    | none => firstHit vchk (k + 1) vs

/-- fuel that suffices for a look-up into `v` (only concatenations loop) -/
def accessFuel : Val F → Nat
  | .concat l r => nodes l + nodes r + 1
  | _ => 0

end Garnish.Model.Runtime
