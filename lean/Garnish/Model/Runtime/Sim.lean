/-
The simulation relation between the address-level runtime state (an `RStore` state) and the value-level machine
state of Abs/Machine.lean, used by Props/RuntimeRefineStep.lean:

* `SimD S P s regs vals frames` — data part: the register stack and the input-value stack decode pointwise to the
  machine's value stacks, the frame chains correspond (same return addresses, saved registers decode), and the
  program the store holds is `P` (instructions, jump table, instruction length);
* `Sim S P s m` — `SimD` plus `cursor = pc`;
* `HostRefines S host` — the store's three extension points answer as the value-level `Host` does: an accepted call
  pushes an address denoting the host's value, a declined call changes nothing; both keep all data, values, frames.
The host TRACE is not part of the relation ("exactly once" is stated per handler in the other Props files).
-/
import Garnish.Model.Runtime.Execute
import Garnish.Abs.Machine
namespace Garnish.Model.Runtime
open Garnish Gen Garnish.Abs Garnish.Model.Equality

variable {F σ : Type}

inductive FramesRel (view : StoreView F) : List (Nat × List Nat) → List (Frame F) → Prop
  | nil : FramesRel view [] []
  | cons {ret saved fs fr frs} : ret = fr.ret → DecodesList view saved fr.saved → FramesRel view fs frs →
      FramesRel view ((ret, saved) :: fs) (fr :: frs)

structure SimD (S : RStore F σ) (P : Prog F) (s : σ) (regs vals : List (Val F)) (frames : List (Frame F)) : Prop where
  regs : DecodesList (S.view s) (S.regs s) regs
  vals : DecodesList (S.view s) (S.vals s) vals
  frames : FramesRel (S.view s) (S.frames s) frames
  instrs : ∀ i, S.instruction s i = P.instrs[i]?
  jumps : ∀ j, S.jumpTable s j = P.jumps[j]?
  ilen : S.instrLen s = P.instrs.size

def Sim (S : RStore F σ) (P : Prog F) (s : σ) (m : MState F) : Prop :=
  S.cursor s = m.pc ∧ SimD S P s m.regs m.vals m.frames

/-- effect of a host call: data kept, values and frames as before, registers as stated (the trace grows) -/
structure HEff (S : RStore F σ) (s s' : σ) (regs' : List Nat) : Prop where
  keeps : Keeps S s s'
  regs : S.regs s' = regs'
  vals : S.vals s' = S.vals s
  frames : S.frames s' = S.frames s

/-- what a host call does, given the value-level host's answer -/
def HostAnswer (S : RStore F σ) (call : RM σ Bool) (s : σ) (answer : Option (Val F)) : Prop :=
  match answer with
  | some v => ∃ a s1, call s = .ok (true, s1) ∧ Decodes (S.view s1) a v ∧ HEff S s s1 (a :: S.regs s)
  | none => ∃ s1, call s = .ok (false, s1) ∧ HEff S s s1 (S.regs s)

structure HostRefines (S : RStore F σ) (host : Host F) : Prop where
  defer : ∀ op l r vl vr s, Decodes (S.view s) l vl → Decodes (S.view s) r vr →
    HostAnswer S (S.deferOp op (vl.typeOf, l) (vr.typeOf, r)) s (host.defer op vl vr)
  /-- a unary operation is offered with the filler `(Unit, 0)`; the value-level host sees unit -/
  deferUnary : ∀ op a v s, Decodes (S.view s) a v →
    HostAnswer S (S.deferOp op (v.typeOf, a) (.unit, 0)) s (host.defer op v .unit)
  resolve : ∀ y s, HostAnswer S (S.resolve y) s (host.resolve y)
  apply : ∀ n r vr s, Decodes (S.view s) r vr → HostAnswer S (S.apply n r) s (host.apply n vr)

/-- every `Decodes` fact of `s` still holds in `s'` -/
def DecKept (S : RStore F σ) (s s' : σ) : Prop := ∀ a v, Decodes (S.view s) a v → Decodes (S.view s') a v

/-- a handler run against the machine's pre-`finish` result: same next instruction, related data, cursor untouched,
every `Decodes` fact kept -/
def HandlerSim (S : RStore F σ) (P : Prog F) (s : σ) (res : Outcome (Option Nat × σ))
    (r : Except ErrClass (MState F × Nat)) : Prop :=
  match r with
  | .ok (md, n) => ∃ next s1, res = .ok (next, s1) ∧ next.getD (S.cursor s + 1) = n ∧ S.cursor s1 = S.cursor s ∧
      SimD S P s1 md.regs md.vals md.frames ∧ DecKept S s s1
  | .error _ => True

/-- one address-level step against one step of Abs/Machine: a running step ends in related states, a halting step
in related data (the Rust does not move the cursor when it ends); every `Decodes` fact is kept; nothing is claimed
when the machine errs -/
def StepSim (fo : FloatOps F) (host : Host F) (S : RStore F σ) (P : Prog F) (fuel : Nat) (H : OtherHandlers σ)
    (s : σ) (m : MState F) : Prop :=
  match Abs.step fo host P m with
  | .running m' => ∃ s', executeCurrentInstruction fo S fuel H s = .ok (.running, s') ∧ Sim S P s' m' ∧
      DecKept S s s'
  | .halted m' => ∃ s', executeCurrentInstruction fo S fuel H s = .ok (.end_, s') ∧
      SimD S P s' m'.regs m'.vals m'.frames ∧ DecKept S s s'
  | .err _ => True

end Garnish.Model.Runtime
