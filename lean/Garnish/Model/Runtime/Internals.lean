/-
L2 code model of runtime/src/runtime/internals.rs (`access_left_internal`, `access_right_internal`,
`access_length_internal`, `concatenation_len`), of `type_of` (casting.rs) and `type_equal` (equality.rs), and the
wrapper `equalH` that turns the read-only model of `perform_equality_check` (Model/Equality.lean: a function of the
store view and the register LIST) into a handler of the abstract store: run it on the current view and registers,
pop the registers it consumed, `push_boolean` the verdict (`equal`), resp. its negation (`not_equal`).
`fullHandlers` are the `OtherHandlers` of Model/Runtime/Execute.lean made of these; `type_cast` stays a parameter.
-/
import Garnish.Model.Runtime.Execute
namespace Garnish.Model.Runtime
open Garnish Gen Garnish.Model.Equality

variable {F σ : Type} (fo : FloatOps F) (S : RStore F σ)

/-- `get_type` -/
def getType (a : Nat) : RM σ Ty := fun s => RM.lift (fetch ((S.view s).type_ a)) s

/-- `type_of` -/
def typeOfH : RM σ (Option Nat) := do
  let a ← nextRef S
  let t ← getDataType S a
  let r ← S.addType t
  S.pushRegister r
  pure none

/-- `type_equal` -/
def typeEqualH : RM σ (Option Nat) := do
  let (right, left) ← nextTwoRawRef S
  let leftType ← getDataType S left
  let rightType ← getDataType S right
  -- if right is a Garnish Type value, then comparison is against that value
  let rightType ← if rightType == .type_ then getType S right else pure rightType
  let equal := leftType == rightType
  pushBoolean S equal
  pure none

/-- `equal` (`negate = false`) / `not_equal` (`negate = true`) around the read-only `perform_equality_check` -/
def equalH (fuel : Nat) (negate : Bool) : RM σ (Option Nat) := fun s =>
  match performEqualityCheck fo fuel (S.view s) (S.regs s) with
  | .ok (eq, regs') =>
    (do
      popRegisters S ((S.regs s).length - regs'.length)
      pushBoolean S (if negate then !eq else eq)
      pure none : RM σ (Option Nat)) s
  | .err e => .err e
  | .panic p => .panic p
  | .fuelOut => .fuelOut

/-- `access_left_internal` -/
def accessLeftInternalH : RM σ (Option Nat) := do
  let r ← nextRef S
  match ← getDataType S r with
  | .pair => do
    let (left, _) ← getPair S r
    S.pushRegister left
  | .range => do
    let (start, _) ← getRangeRaw S r
    match ← getDataType S start with
    | .number => S.pushRegister start
    | _ => pushUnit S
  | .slice => do
    let (value, _) ← getSlice S r
    S.pushRegister value
  | .concatenation => do
    let (left, _) ← getConcatenation S r
    S.pushRegister left
  | t => deferOrUnit S .accessLeftInternal (t, r) (.unit, 0)
  pure none

/-- `access_right_internal` -/
def accessRightInternalH : RM σ (Option Nat) := do
  let r ← nextRef S
  match ← getDataType S r with
  | .pair => do
    let (_, right) ← getPair S r
    S.pushRegister right
  | .range => do
    let (_, end_) ← getRangeRaw S r
    match ← getDataType S end_ with
    | .number => S.pushRegister end_
    | _ => pushUnit S
  | .slice => do
    let (_, range) ← getSlice S r
    S.pushRegister range
  | .concatenation => do
    let (_, right) ← getConcatenation S r
    S.pushRegister right
  | t => deferOrUnit S .accessRightInternal (t, r) (.unit, 0)
  pure none

/-- `concatenation_len`: `iterate_concatenation_mut(this, addr, |_, _, _| Ok(None))?.1` -/
def concatenationLen (fuel : Nat) (addr : Nat) : RM σ Nat := do
  let ((_, index), _) ← iterateConcatenation fo S false fuel addr (fun (_ : Unit) _ _ => pure (none, ())) ()
  pure index

/-- `access_length_internal` -/
def accessLengthInternalH (fuel : Nat) : RM σ (Option Nat) := do
  let r ← nextRef S
  match ← getDataType S r with
  | .pair => do
    let (left, _) ← getPair S r
    match ← getDataType S left with
    | .symbol => pushNumber S (.int 1)
    | _ => pushUnit S
  | .list => do
    let len : Number F := sizeToNumber (← RM.readR (fun s => S.listLen s r))
    pushNumber S len
  | .charList => do
    let len : Number F := sizeToNumber (← RM.readR (fun s => S.charLen s r))
    pushNumber S len
  | .byteList => do
    let len : Number F := sizeToNumber (← RM.readR (fun s => S.byteLen s r))
    pushNumber S len
  | .range => do
    let (start, end_) ← getRangeRaw S r
    let te ← getDataType S end_
    let ts ← getDataType S start
    match te, ts with
    | .number, .number => do
      let startInt ← getNumber S start
      let endInt ← getNumber S end_
      let result ← rangeLen fo startInt endInt
      let addr ← S.addNumber result
      S.pushRegister addr
    | _, _ => pushUnit S
  | .slice => do
    let (_, rangeAddr) ← getSlice S r
    let (start, end_) ← getRangeRaw S rangeAddr
    let ts ← getDataType S start
    let te ← getDataType S end_
    match ts, te with
    | .number, .number => do
      let start ← getNumber S start
      let end_ ← getNumber S end_
      let addr ← S.addNumber (← rangeLen fo start end_)
      S.pushRegister addr
    | _, _ => stateError           -- "Non integer values used for range"
  | .concatenation => do
    let count ← concatenationLen fo S fuel r
    let addr ← S.addNumber (sizeToNumber count)
    S.pushRegister addr
  | t => deferOrUnit S .accessLengthInternal (t, r) (.unit, 0)
  pure none

/-- the handlers of this file as the dispatcher's parameter; `type_cast` (casting.rs) stays a parameter -/
def fullHandlers (fuel : Nat) (typeCast : RM σ (Option Nat)) : OtherHandlers σ where
  typeOf := typeOfH S
  typeCast := typeCast
  typeEqual := typeEqualH S
  equal := equalH fo S fuel false
  notEqual := equalH fo S fuel true
  accessLeftInternal := accessLeftInternalH S
  accessRightInternal := accessRightInternalH S
  accessLengthInternal := accessLengthInternalH fo S fuel

end Garnish.Model.Runtime
