/-
L2 code model of runtime/src/runtime/pair.rs (`make_pair`), concat.rs (`concat`) and partial.rs
(`partial_apply`) over the abstract store. Note the operand order of `make_pair`: the FIRST pop is the left
component (the builder emits the right operand first), unlike every other binary handler.
-/
import Garnish.Model.Runtime.Utilities
namespace Garnish.Model.Runtime
open Garnish Gen Garnish.Model.Equality

variable {F σ : Type} (S : RStore F σ)

/-- `make_pair` -/
def makePair : RM σ (Option Nat) := do
  let (leftAddr, rightAddr) ← nextTwoRawRef S
  pushPair S leftAddr rightAddr
  pure none

/-- `concat` -/
def concat : RM σ (Option Nat) := do
  let (rightAddr, leftAddr) ← nextTwoRawRef S
  let v ← S.addConcatenation leftAddr rightAddr
  S.pushRegister v
  pure none

/-- `partial_apply` -/
def partialApply : RM σ (Option Nat) := do
  let (right, left) ← nextTwoRawRef S
  let i ← S.addPartial left right
  S.pushRegister i
  pure none

end Garnish.Model.Runtime
