/-
L2 code model of traits/src/helpers/concatenation.rs (`iterate_concatenation_mut`, `iterate_rev_concatenation_mut`,
`iterate_concatenation_mut_with_method`) over the abstract store: the register work-list that walks the operands
of a concatenation, calling `check_fn` on every item with its running index.

* `check_fn` is an `FnMut` closure; its captured mutable state is the accumulator `α` threaded through
  (`Unit` for the closures that capture nothing mutable).
* the outer `while get_register_len() > start_register` and the clean-up loop take explicit fuel (one unit per
  evaluation of the loop condition); the inner `while i < len` over one list operand counts `len - i` down.
* `unimplemented!("Not sure this function is used")` (a list item getter answering `None` below the length) is an
  explicit `Outcome.panic`.
-/
import Garnish.Model.Runtime.Utilities
namespace Garnish.Model.Runtime
open Garnish Gen Garnish.Model.Equality

variable {F σ : Type} (fo : FloatOps F) (S : RStore F σ)

/-- `get_method`: `Data::get_concatenation`, or `get_rev_concatentation` (the pair reversed) -/
def getMethod (rev : Bool) (addr : Nat) : RM σ (Nat × Nat) := do
  let (left, right) ← getConcatenation S addr
  pure (if rev then (right, left) else (left, right))

/-- `get_register_len()` -/
def getRegisterLen : RM σ Nat := RM.read (fun s => (S.regs s).length)

/-- the inner `while i < len` over the list operand `r`: `rem = len - i`; returns `temp_result` and the
closure state -/
def iterListLoop {α : Type} (checkFn : α → Number F → Nat → RM σ (Option Nat × α)) (r index : Nat) :
    Nat → Nat → α → RM σ (Option Nat × α)
  | 0, _, acc => pure (none, acc)
  | rem + 1, i, acc => do
    let subIndex : Number F := sizeToNumber i
    let item ← match ← RM.readR (fun s => S.listItem s r subIndex) with
      | none => (fun _ => .panic "traits/helpers/concatenation.rs: unimplemented!(Not sure this function is used)")
      | some item => pure item
    let idx ← orNumErr (Number.plus fo (sizeToNumber index) subIndex)     -- `.ok_or(RuntimeError::new("Number error"))?`
    let (tempResult, acc) ← checkFn acc idx item
    match tempResult with
    | some _ => pure (tempResult, acc)          -- break
    | none => iterListLoop checkFn r index rem (i + 1) acc

/-- the outer `while this.get_register_len() > start_register`; returns `(result, index)` and the closure state -/
def iterLoop {α : Type} (rev : Bool) (checkFn : α → Number F → Nat → RM σ (Option Nat × α)) (startRegister : Nat) :
    Nat → Nat → α → RM σ ((Option Nat × Nat) × α)
  | 0, _, _ => fun _ => .fuelOut
  | fuel + 1, index, acc => do
    if (← getRegisterLen S) > startRegister then
      match ← S.popRegister with
      | none => stateError        -- "Popping more registers than placed during concatenation indexing."
      | some r => do
        let ((tempResult, index), acc) ← (match ← getDataType S r with
          | .concatenation => do
            let (current, next) ← getMethod S rev r
            S.pushRegister next
            S.pushRegister current
            pure ((none, index), acc)
          | .list => do
            let len ← RM.readR (fun s => S.listLen s r)
            let (t, acc) ← iterListLoop fo S checkFn r index len 0 acc
            pure ((t, index + len), acc)
          | _ => do
            let (t, acc) ← checkFn acc (sizeToNumber index) r
            pure ((t, index + 1), acc) : RM σ ((Option Nat × Nat) × α))
        match tempResult with
        | some _ => pure ((tempResult, index), acc)     -- result = temp_result; break
        | none => iterLoop rev checkFn startRegister fuel index acc
    else
      pure ((none, index), acc)

/-- `while this.get_register_len() > start_register { this.pop_register()?; }` -/
def clearBorrowed (startRegister : Nat) : Nat → RM σ Unit
  | 0 => fun _ => .fuelOut
  | fuel + 1 => do
    if (← getRegisterLen S) > startRegister then
      let _ ← S.popRegister
      clearBorrowed startRegister fuel
    else
      pure ()

/-- `iterate_concatenation_mut_with_method` (`rev = false`: `iterate_concatenation_mut`, `rev = true`:
`iterate_rev_concatenation_mut`) -/
def iterateConcatenation {α : Type} (rev : Bool) (fuel : Nat) (addr : Nat)
    (checkFn : α → Number F → Nat → RM σ (Option Nat × α)) (acc : α) : RM σ ((Option Nat × Nat) × α) := do
  let (current, next) ← getMethod S rev addr
  let startRegister ← getRegisterLen S
  S.pushRegister next
  S.pushRegister current
  let ((result, index), acc) ← iterLoop fo S rev checkFn startRegister fuel 0 acc
  -- clear borrowed registers
  clearBorrowed S startRegister fuel
  pure ((result, index), acc)

end Garnish.Model.Runtime
