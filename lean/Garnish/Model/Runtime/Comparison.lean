/-
L2 code model of runtime/src/runtime/comparison.rs (`less_than`, `less_than_or_equal`, `greater_than`,
`greater_than_or_equal`, `perform_comparison`, `cmp_list`) over the abstract store.

`cmp_list` loops `while left_index < len1 && right_index < len2`: `cmpListLoop` takes explicit fuel, one unit per
evaluation of the loop condition. `get_func` / `len_func` are the getters the Rust passes
(`Data::get_char_list_item`, `Data::get_char_list_len` or the byte versions), here `S.charItem` / `S.charLen`.
`<` on `Data::Number` is `partial_cmp == Some(Less)` (`numLt`). The items are `Option<char>` / `Option<u8>`
(`get_*_list_item` returns an `Option`), compared by the derived `PartialOrd` of `Option` (`optCmp`).

`perform_comparison`'s two nested `match`es on type pairs are the functions `comparisonMatch` and
`sliceComparison` (arms in source order), so that lemmas can name them.
-/
import Garnish.Model.Runtime.Utilities
namespace Garnish.Model.Runtime
open Garnish Gen Garnish.Model.Equality

variable {F σ : Type} (fo : FloatOps F) (S : RStore F σ)

/-- `Option<T>::partial_cmp` (derived: `None < Some(_)`), `T` = `char` / `u8` -/
def optCmp : Option Nat → Option Nat → Option Ordering
  | none, none => some .eq
  | none, some _ => some .lt
  | some _, none => some .gt
  | some a, some b => some (compare a b)

/-- the `while` loop of `cmp_list` and the final `len1.partial_cmp(&len2)` -/
def cmpListLoop (getFunc : σ → Nat → Number F → Outcome (Option Nat)) (left right : Nat) (len1 len2 : Number F) :
    Nat → Number F → Number F → RM σ (Option Ordering)
  | 0, _, _ => fun _ => .fuelOut
  | fuel + 1, leftIndex, rightIndex => do
    if numLt fo leftIndex len1 && numLt fo rightIndex len2 then
      let x ← RM.readR (fun s => getFunc s left leftIndex)
      let y ← RM.readR (fun s => getFunc s right rightIndex)
      let next : RM σ (Option Ordering) := do
        let leftIndex ← orNumErr (Number.increment fo leftIndex)
        let rightIndex ← orNumErr (Number.increment fo rightIndex)
        cmpListLoop getFunc left right len1 len2 fuel leftIndex rightIndex
      match optCmp x y with
      | some .eq => next
      | some nonEq => pure (some nonEq)
      | none => next             -- deferr
    else
      pure (Number.partialCmp fo len1 len2)

/-- `cmp_list` -/
def cmpList (fuel : Nat) (left right : Nat) (leftStart rightStart : Number F)
    (getFunc : σ → Nat → Number F → Outcome (Option Nat)) (lenFunc : σ → Nat → Outcome Nat) :
    RM σ (Option Ordering) := do
  let n1 ← RM.readR (fun s => lenFunc s left)
  let n2 ← RM.readR (fun s => lenFunc s right)
  let (len1, len2) := ((sizeToNumber n1 : Number F), (sizeToNumber n2 : Number F))
  cmpListLoop fo getFunc left right len1 len2 fuel leftStart rightStart

/-- the inner `match` of the Slice/Slice arm, on the types of the two sliced values -/
def sliceComparison (fuel : Nat) (falseOrd : Ordering) (leftValue leftRange rightValue rightRange : Nat)
    (tlv trv : Ty) : RM σ (Option Ordering) :=
  match tlv, trv with
  | .byteList, .byteList => do
    let (start1, _, _) ← getRange fo S leftRange
    let (start2, _, _) ← getRange fo S rightRange
    cmpList fo fuel leftValue rightValue start1 start2 S.byteItem S.byteLen
  | .charList, .charList => do
    let (start1, _, _) ← getRange fo S leftRange
    let (start2, _, _) ← getRange fo S rightRange
    cmpList fo fuel leftValue rightValue start1 start2 S.charItem S.charLen
  | _, _ => pure (some falseOrd)

/-- the `match` of `perform_comparison`, on the types of the two operands (arms in source order) -/
def comparisonMatch (fuel : Nat) (falseOrd : Ordering) (left right : Nat) (tl tr : Ty) : RM σ (Option Ordering) :=
  match tl, tr with
  | .number, .number => do
    let a ← getNumber S left
    let b ← getNumber S right
    pure (Number.partialCmp fo a b)
  | .char, .char => do
    let a ← getChar S left
    let b ← getChar S right
    pure (some (compare a b))
  | .byte, .byte => do
    let a ← getByte S left
    let b ← getByte S right
    pure (some (compare a b))
  | .charList, .charList =>
    cmpList fo fuel left right (.int 0) (.int 0) S.charItem S.charLen
  | .byteList, .byteList =>
    cmpList fo fuel left right (.int 0) (.int 0) S.byteItem S.byteLen
  | .slice, .slice => do
    let (leftValue, leftRange) ← getSlice S left
    let (rightValue, rightRange) ← getSlice S right
    let tlv ← getDataType S leftValue
    let trv ← getDataType S rightValue
    sliceComparison fo S fuel falseOrd leftValue leftRange rightValue rightRange tlv trv
  | _, _ => pure (some falseOrd)

/-- `perform_comparison` -/
def performComparison (fuel : Nat) (falseOrd : Ordering) : RM σ (Option Ordering) := do
  let (right, left) ← nextTwoRawRef S
  let tl ← getDataType S left
  let tr ← getDataType S right
  comparisonMatch fo S fuel falseOrd left right tl tr

/-- the tail shared by the four handlers: `Some(result) => push_boolean(test(result)), None => push_unit` -/
def pushComparison (test : Ordering → Bool) (result : Option Ordering) : RM σ (Option Nat) := do
  match result with
  | some result => pushBoolean S (test result)
  | none => pushUnit S
  pure none

/-- `less_than`: `is_lt` -/
def lessThan (fuel : Nat) : RM σ (Option Nat) := do
  pushComparison S (fun o => o == .lt) (← performComparison fo S fuel .gt)
/-- `less_than_or_equal`: `is_le` -/
def lessThanOrEqual (fuel : Nat) : RM σ (Option Nat) := do
  pushComparison S (fun o => o != .gt) (← performComparison fo S fuel .gt)
/-- `greater_than`: `is_gt` -/
def greaterThan (fuel : Nat) : RM σ (Option Nat) := do
  pushComparison S (fun o => o == .gt) (← performComparison fo S fuel .lt)
/-- `greater_than_or_equal`: `is_ge` -/
def greaterThanOrEqual (fuel : Nat) : RM σ (Option Nat) := do
  pushComparison S (fun o => o != .lt) (← performComparison fo S fuel .lt)

end Garnish.Model.Runtime
