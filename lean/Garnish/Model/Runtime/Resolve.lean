/-
L2 code model of runtime/src/runtime/resolve.rs (`resolve`) and runtime/src/runtime/access.rs (`access`) over the
abstract store.

Both handlers inspect the ERROR of `get_access_addr`: `UnsupportedOpTypes` is caught, anything else is
propagated. `RM` drops the state on an error; the model continues from the state in which `get_access_addr`
was called, which is the state the Rust continues in, because every `Err(RuntimeError::unsupported_types())`
of list.rs is returned before the data object is touched (the three `_ =>` arms of `get_access_addr`,
`access_with_integer`, `access_with_symbol`).
-/
import Garnish.Model.Runtime.List
namespace Garnish.Model.Runtime
open Garnish Gen Garnish.Model.Equality

variable {F σ : Type} (fo : FloatOps F) (S : RStore F σ)

/-- the second half of `resolve` ("check context", then "default to unit") -/
def resolveContext (data : Nat) : RM σ (Option Nat) := do
  let resolved ← (match ← getDataType S data with
    | .symbol => do
      let sym ← getSymbol S data
      S.resolve sym                -- `true`: context resolved, end look up
    | _ => pure false : RM σ Bool)  -- not a symbol, push unit below
  if resolved then pure none
  else do
    -- default to unit
    pushUnit S
    pure none

/-- `resolve` -/
def resolve (fuel : Nat) (data : Nat) : RM σ (Option Nat) := do
  -- check input
  match ← getCurrentValue S with
  | none => resolveContext S data
  | some listRef => fun s =>
    match getAccessAddr fo S fuel data listRef s with
    | .err e =>
      -- ignore unsupported op type, will be handled by below resolve
      if e == .unsupported then resolveContext S data s else .err e
    | .ok (none, s') => resolveContext S data s'
    | .ok (some i, s') => (do S.pushRegister i; pure none : RM σ (Option Nat)) s'
    | .panic p => .panic p
    | .fuelOut => .fuelOut

/-- the statement `match get_access_addr(this, right_addr, left_addr) { … }` of the second arm of `access` -/
def accessGet (fuel : Nat) (leftAddr rightAddr : Nat) : RM σ Unit := fun s =>
  match getAccessAddr fo S fuel rightAddr leftAddr s with
  | .ok (none, s') => pushUnit S s'
  | .ok (some i, s') => S.pushRegister i s'
  | .err e =>
    -- the value cannot be accessed with this kind of key (e.g. text by symbol), same as any other undefined combination
    if e == .unsupported then
      (do
        let l ← getDataType S leftAddr
        let r ← getDataType S rightAddr
        deferOrUnit S .access (l, leftAddr) (r, rightAddr) : RM σ Unit) s
    else .err e
  | .panic p => .panic p
  | .fuelOut => .fuelOut

/-- the `match` of `access` on the two operand types (arms in source order) -/
def accessMatch (fuel : Nat) (leftAddr rightAddr : Nat) (tl tr : Ty) : RM σ Unit :=
  match tl, tr with
  | .symbol, .symbol | .symbol, .symbolList | .symbolList, .symbol | .symbolList, .symbolList
  | .symbolList, .number | .number, .symbolList | .symbol, .number | .number, .symbol => do
    let i ← S.mergeToSymbolList leftAddr rightAddr
    S.pushRegister i
  | .pair, .number | .pair, .symbol | .list, .number | .list, .symbol | .charList, .number | .charList, .symbol
  | .byteList, .number | .byteList, .symbol | .range, .number | .range, .symbol
  | .concatenation, .number | .concatenation, .symbol | .slice, .number | .slice, .symbol =>
    accessGet fo S fuel leftAddr rightAddr
  | l, r => deferOrUnit S .access (l, leftAddr) (r, rightAddr)

/-- `access` -/
def access (fuel : Nat) : RM σ (Option Nat) := do
  let rightAddr ← nextRef S
  let leftAddr ← nextRef S
  let tl ← getDataType S leftAddr
  let tr ← getDataType S rightAddr
  accessMatch fo S fuel leftAddr rightAddr tl tr
  pure none

end Garnish.Model.Runtime
