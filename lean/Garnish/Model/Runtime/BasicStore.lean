/-
`BasicGarnishData` as an instance of the runtime store interface `RStore` (Model/Runtime/Store.lean): the abstract
getters, stacks and adders of the interface, read off / performed on the heap model of Store/BasicCells.lean and
Store/BasicOptimize.lean.

* `basicView`: the read-only getters, each a function of the cell at the address and of the cells stored inline after
  it (text, bytes, symbol-list parts, `ListItem`s); `concatItems` flattens the two operands (`flatB`).
* `regsOf` / `valsOf` / `framesOf`: the three linked stacks read from their heads, top first.  `previous` is followed
  only downwards (`p < a`), which is what every reachable store satisfies (`WFq`), so the readers need no fuel
  argument and terminate on every heap.
* `BState`: the store together with what the interface observes and the heap model does not hold cell by cell — the
  jump table, the instruction list and cursor — and the two ghost components of the interface (`trace`, `building`).
* numbers: a `Number(..)` cell holds an opaque code; `NumCode` is an injective coding of `Number F`.
* the indexed getters are the SPECIFICATION-level readers over the sequences of the view (integer indexes: a negative
  list index answers `None`, text / byte / symbol-list indexes are clamped at 0, past the end `Err` resp. `None` as
  in `C07_*_item_exact`); float indexes are not modelled (`Err`).  The statement-level model of these getters is
  Model/Access.lean.
* host extension points: `BasicGarnishData` has none of its own; the call is recorded and declined.
-/
import Garnish.Model.Runtime.Store
import Garnish.Store.BasicOptimize
namespace Garnish.Model.Runtime.Basic
open Garnish Gen Garnish.Model.Equality Garnish.Model.Runtime Garnish.BasicOpt

variable {F : Type}

/-- an injective coding of numbers into the payload of `Number` cells -/
structure NumCode (F : Type) where
  enc : Number F → Nat
  dec : Nat → Number F
  dec_enc : ∀ n, dec (enc n) = n

/-- `get_data_type` of a cell; `none` for the cells that are not values -/
def cellTy : Cell → Option Ty
  | .unit => some .unit | .tru => some .true | .fls => some .false | .type _ => some .type_
  | .number _ => some .number | .char _ => some .char | .byte _ => some .byte | .symbol _ => some .symbol
  | .symbolList _ => some .symbolList | .expression _ => some .expression | .external _ => some .external
  | .charList _ => some .charList | .byteList _ => some .byteList | .pair _ _ => some .pair
  | .range _ _ => some .range | .slice _ _ => some .slice | .partial_ _ _ => some .partial_
  | .list _ _ => some .list | .concatenation _ _ => some .concatenation | .custom => some .custom
  | _ => none

/-- what the concatenation iterator yields for one operand: a list contributes its items, a concatenation recurses
(downwards only), any other value is itself -/
def flatB (cells : Array Cell) : Nat → Nat → Option (List Nat)
  | 0, _ => none
  | fuel + 1, a =>
    match cells[a]? with
    | some (.list n _) => listItems cells (a + 1) n
    | some (.concatenation l r) =>
      if l < a ∧ r < a then
        match flatB cells fuel l, flatB cells fuel r with
        | some x, some y => some (x ++ y)
        | _, _ => none
      else none
    | some c => if (cellTy c).isSome then some [a] else none
    | none => none

def basicView (numOf : Nat → Number F) (cells : Array Cell) : StoreView F where
  typeOf a := (cells[a]?).bind cellTy
  number a := match cells[a]? with | some (.number n) => some (numOf n) | _ => none
  char a := match cells[a]? with | some (.char c) => some c | _ => none
  byte a := match cells[a]? with | some (.byte b) => some b | _ => none
  symbol a := match cells[a]? with | some (.symbol s) => some s | _ => none
  expression a := match cells[a]? with | some (.expression e) => some e | _ => none
  external a := match cells[a]? with | some (.external e) => some e | _ => none
  type_ a := match cells[a]? with | some (.type t) => some t | _ => none
  pair a := match cells[a]? with | some (.pair l r) => some (l, r) | _ => none
  range a := match cells[a]? with | some (.range l r) => some (l, r) | _ => none
  concatenation a := match cells[a]? with | some (.concatenation l r) => some (l, r) | _ => none
  slice a := match cells[a]? with | some (.slice l r) => some (l, r) | _ => none
  partial_ a := match cells[a]? with | some (.partial_ l r) => some (l, r) | _ => none
  listItems a := match cells[a]? with | some (.list n _) => listItems cells (a + 1) n | _ => none
  concatItems a :=
    match cells[a]? with
    | some (.concatenation l r) =>
      if l < a ∧ r < a then
        match flatB cells a l, flatB cells a r with
        | some x, some y => some (x ++ y)
        | _, _ => none
      else none
    | _ => none
  chars a := match cells[a]? with
    | some (.charList n) => (inlineCells cells isChar (a + 1) n).map (·.map charCode) | _ => none
  bytes a := match cells[a]? with
    | some (.byteList n) => (inlineCells cells isByte (a + 1) n).map (·.map charCode) | _ => none
  symList a := match cells[a]? with
    | some (.symbolList n) => (inlineCells cells isSymPart (a + 1) n).map (·.map (symPartOf numOf)) | _ => none

/-! ### the linked stacks -/

/-- the register chain below `a` (at most `fuel` cells), top first -/
def regChain (cells : Array Cell) : Nat → Nat → List Nat
  | 0, _ => []
  | fuel + 1, a =>
    match cells[a]? with
    | some (.register p v) => v :: (if p < a then regChain cells fuel p else [])
    | some (.registerRoot v) => [v]
    | _ => []

def valChain (cells : Array Cell) : Nat → Nat → List Nat
  | 0, _ => []
  | fuel + 1, a =>
    match cells[a]? with
    | some (.value p v) => v :: (if p < a then valChain cells fuel p else [])
    | some (.valueRoot v) => [v]
    | _ => []

def regsOf (cells : Array Cell) : Option Nat → List Nat
  | none => []
  | some a => regChain cells (a + 1) a

def valsOf (cells : Array Cell) : Option Nat → List Nat
  | none => []
  | some a => valChain cells (a + 1) a

/-- the return point stored right before a frame cell -/
def retOf (cells : Array Cell) (a : Nat) : Nat :=
  match a with
  | 0 => 0
  | i + 1 => match cells[i]? with | some (.jumpPoint p) => p | _ => 0

/-- the frame chain below `a`: return address and the registers the frame saved -/
def frameChain (cells : Array Cell) : Nat → Nat → List (Nat × List Nat)
  | 0, _ => []
  | fuel + 1, a =>
    match cells[a]? with
    | some (.frame p r) => (retOf cells a, regsOf cells (some r)) :: (if p < a then frameChain cells fuel p else [])
    | some (.frameIndex p) => (retOf cells a, []) :: (if p < a then frameChain cells fuel p else [])
    | some (.frameRegister r) => [(retOf cells a, regsOf cells (some r))]
    | some .frameRoot => [(retOf cells a, [])]
    | _ => []

def framesOf (cells : Array Cell) : Option Nat → List (Nat × List Nat)
  | none => []
  | some a => frameChain cells (a + 1) a

/-! ### the state and the interface -/

structure BState where
  store : Store
  jumps : List Nat
  instrs : List (Instruction × Option Nat)
  cursor : Nat
  trace : List HostCall
  building : Option (Nat × List Nat)

def BState.init : BState :=
  { store := Store.fresh, jumps := [], instrs := [], cursor := 0, trace := [], building := none }

/-- an adder of the heap model as a handler statement -/
def liftAdd (f : Store → Outcome (Store × Nat)) : RM BState Nat := fun st =>
  match f st.store with
  | .ok (s', a) => .ok (a, { st with store := s' })
  | .err e => .err e
  | .panic m => .panic m
  | .fuelOut => .fuelOut

def liftUnit (f : Store → Outcome Store) : RM BState Unit := fun st =>
  match f st.store with
  | .ok s' => .ok ((), { st with store := s' })
  | .err e => .err e
  | .panic m => .panic m
  | .fuelOut => .fuelOut

def liftPop (f : Store → Outcome (Store × Option Nat)) : RM BState (Option Nat) := fun st =>
  match f st.store with
  | .ok (s', o) => .ok (o, { st with store := s' })
  | .err e => .err e
  | .panic m => .panic m
  | .fuelOut => .fuelOut

def recordHost (c : HostCall) : RM BState Bool := fun st => .ok (false, { st with trace := c :: st.trace })

/-- `get_*_len` over the sequence of the view -/
def seqLen {β : Type} (xs : Option (List β)) : Outcome Nat :=
  match xs with
  | some xs => .ok xs.length
  | none => .err .data

/-- `get_list_item`: a negative index is `None`, an index from the length on is an error -/
def listItemB (xs : Option (List Nat)) : Number F → Outcome (Option Nat)
  | .int i =>
    match xs with
    | some xs => if i < 0 then .ok none else if i.toNat ≥ xs.length then .err .data else .ok xs[i.toNat]?
    | none => .err .data
  | .float _ => .err .data

/-- `get_char_list_item` / `get_byte_list_item` / `get_symbol_list_item`: the index is clamped at 0 -/
def seqItemB {β : Type} (xs : Option (List β)) : Number F → Outcome (Option β)
  | .int i =>
    match xs with
    | some xs => .ok xs[i.toNat]?
    | none => .err .data
  | .float _ => .err .data

/-- the association table of the list at `a`, searched as `get_list_item_with_symbol` does -/
def listItemWithSymbolB (cells : Array Cell) (a sym : Nat) : Outcome (Option Nat) :=
  match cells[a]? with
  | some (.list n k) =>
    (Store.searchAssoc (cells.toList.extract (a + 1 + n) (a + 1 + n + k)) sym).bind fun r =>
      match r with
      | none => .ok none
      | some j =>
        match cells[a + 1 + n + j]? with
        | some (.associativeItem _ d) => .ok (some d)
        | _ => .err .data
  | _ => .err .data

def basicRStore (nc : NumCode F) : RStore F BState where
  view st := basicView nc.dec st.store.cells
  regs st := regsOf st.store.cells st.store.currentRegister
  vals st := valsOf st.store.cells st.store.currentValue
  trace st := st.trace
  jumpTable st j := st.jumps[j]?
  instruction st i := st.instrs[i]?
  frames st := framesOf st.store.cells st.store.currentFrame
  instrLen st := st.instrs.length
  cursor st := st.cursor
  dataLen st := st.store.cells.size
  listLen st a := seqLen ((basicView nc.dec st.store.cells).listItems a)
  charLen st a := seqLen ((basicView nc.dec st.store.cells).chars a)
  byteLen st a := seqLen ((basicView nc.dec st.store.cells).bytes a)
  symLen st a := seqLen ((basicView nc.dec st.store.cells).symList a)
  listItem st a i := listItemB ((basicView nc.dec st.store.cells).listItems a) i
  charItem st a i := seqItemB ((basicView nc.dec st.store.cells).chars a) i
  byteItem st a i := seqItemB ((basicView nc.dec st.store.cells).bytes a) i
  symItem st a i := seqItemB ((basicView nc.dec st.store.cells).symList a) i
  listItemWithSymbol st a sym := listItemWithSymbolB st.store.cells a sym
  addUnit := liftAdd (·.push .unit)
  addTrue := liftAdd (·.push .tru)
  addFalse := liftAdd (·.push .fls)
  addNumber n := liftAdd (·.push (.number (nc.enc n)))
  addType t := liftAdd (·.push (.type t))
  addChar c := liftAdd (·.push (.char c))
  addByte b := liftAdd (·.push (.byte b))
  addSymbol y := liftAdd (·.push (.symbol y))
  addPair p := liftAdd (·.push (.pair p.1 p.2))
  addConcatenation l r := liftAdd (·.push (.concatenation l r))
  addRange l r := liftAdd (·.push (.range l r))
  addSlice l r := liftAdd (·.push (.slice l r))
  addPartial l r := liftAdd (·.push (.partial_ l r))
  mergeToSymbolList l r := liftAdd (·.mergeToSymbolList l r)
  building st := st.building
  startList n := fun st =>
    match st.store.startList n with
    | .ok (s', i) => .ok (i, { st with store := s', building := some (i, []) })
    | .err e => .err e
    | .panic m => .panic m
    | .fuelOut => .fuelOut
  addToList t a := fun st =>
    match st.store.addToList t a with
    | .ok s' => .ok (t, { st with store := s', building := st.building.map (fun b => (t, b.2 ++ [a])) })
    | .err e => .err e
    | .panic m => .panic m
    | .fuelOut => .fuelOut
  endList t := fun st =>
    match st.store.endList t with
    | .ok (s', i) => .ok (i, { st with store := s', building := none })
    | .err e => .err e
    | .panic m => .panic m
    | .fuelOut => .fuelOut
  pushRegister a := liftUnit (·.pushRegister a)
  popRegister := liftPop (·.popRegister)
  pushValueStack a := liftUnit (·.pushValue a)
  popValueStack := fun st => .ok ((st.store.popValue).2, { st with store := (st.store.popValue).1 })
  setCurrentValue r := fun st =>
    match st.store.setCurrentValue r with
    | .ok s' => .ok (true, { st with store := s' })
    | .err _ => .ok (false, st)
    | .panic m => .panic m
    | .fuelOut => .fuelOut
  pushFrame j := liftUnit (·.pushFrame j)
  popFrame := liftPop (·.popFrame)
  setInstructionCursor n := fun st => .ok ((), { st with cursor := n })
  deferOp op l r := recordHost (.defer op l r)
  resolve y := recordHost (.resolve y)
  apply e a := recordHost (.apply e a)

end Garnish.Model.Runtime.Basic
