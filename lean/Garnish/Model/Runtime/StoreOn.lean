/-
The store contract RELATIVISED: `StoreLawsOn S Inv Readable` = `StoreLaws S` (Model/Runtime/Store.lean) on the states
satisfying an invariant `Inv` that every clause re-establishes, with the premises the two concrete data objects need:
* `push_register a` / `push_value_stack a`: `Readable s a` (Simple: a data address that is no `StackFrame`; Basic: a
  value node); every decodable address whose value is not `custom` is readable (`readable`);
* `pop_register`: not below the newest frame — `Deep S s rest`: the registers that remain are at least the ones the
  newest frame saved (Simple keeps frames as `StackFrame` entries of the register `Vec` and refuses to pop one);
  with no register: only outside a frame;
* `pop_frame` with no frame: the registers may be emptied (Simple drains the register `Vec`);
* `add_concatenation`: operands that are not slices (Simple's iterator expands a slice operand);
* `merge_to_symbol_list`: no number operand (Simple answers `Err`).
`get_list_item_with_symbol` (`StoreLaws.listSym`) is a separate clause (`ListSymOn`).
`StoreLaws.toOn`: the unrelativised contract is the instance `Inv = Readable = True`, so everything proved from
`StoreLawsOn` holds for every store with `StoreLaws` (the reference store).
-/
import Garnish.Model.Runtime.Run
namespace Garnish.Model.Runtime
open Garnish Gen Garnish.Model.Equality

variable {F σ : Type}

/-- popping down to `rest` stays above the registers the newest frame saved -/
def Deep (S : RStore F σ) (s : σ) (rest : List Nat) : Prop :=
  ∀ ret saved fs, S.frames s = (ret, saved) :: fs → saved.length ≤ rest.length

/-- an adder's contract with the invariant re-established -/
def AddsOn (S : RStore F σ) (Inv : σ → Prop) (m : RM σ Nat) (s : σ) (v : Val F) : Prop :=
  ∃ a s', m s = .ok (a, s') ∧ Decodes (S.view s') a v ∧ Eff S s s' (S.regs s) (S.vals s) ∧ Inv s'

structure StoreLawsOn (S : RStore F σ) (Inv : σ → Prop) (Readable : σ → Nat → Prop) : Prop where
  rangeTyped : ∀ s a p, (S.view s).range a = some p → (S.view s).typeOf a = some .range
  listIdx : ∀ s, Indexes (S.listLen s) (S.listItem s) (S.view s).listItems
  charIdx : ∀ s, Indexes (S.charLen s) (S.charItem s) (S.view s).chars
  byteIdx : ∀ s, Indexes (S.byteLen s) (S.byteItem s) (S.view s).bytes
  symIdx : ∀ s, Indexes (S.symLen s) (S.symItem s) (S.view s).symList
  addUnit : ∀ s, Inv s → AddsOn S Inv S.addUnit s .unit
  addTrue : ∀ s, Inv s → AddsOn S Inv S.addTrue s .tru
  addFalse : ∀ s, Inv s → AddsOn S Inv S.addFalse s .fls
  addNumber : ∀ n s, Inv s → AddsOn S Inv (S.addNumber n) s (.num n)
  addType : ∀ t s, Inv s → AddsOn S Inv (S.addType t) s (.type t)
  addChar : ∀ c s, Inv s → AddsOn S Inv (S.addChar c) s (.char c)
  addByte : ∀ b s, Inv s → AddsOn S Inv (S.addByte b) s (.byte b)
  addSymbol : ∀ y s, Inv s → AddsOn S Inv (S.addSymbol y) s (.sym y)
  addPair : ∀ l r vl vr s, Inv s → Decodes (S.view s) l vl → Decodes (S.view s) r vr →
    AddsOn S Inv (S.addPair (l, r)) s (.pair vl vr)
  addConcatenation : ∀ l r vl vr s, Inv s → Decodes (S.view s) l vl → Decodes (S.view s) r vr →
    (∀ x y, vl ≠ .slice x y) → (∀ x y, vr ≠ .slice x y) → AddsOn S Inv (S.addConcatenation l r) s (.concat vl vr)
  addRange : ∀ l r vl vr s, Inv s → Decodes (S.view s) l vl → Decodes (S.view s) r vr →
    AddsOn S Inv (S.addRange l r) s (.range vl vr)
  addSlice : ∀ l r vl vr s, Inv s → Decodes (S.view s) l vl → Decodes (S.view s) r vr →
    AddsOn S Inv (S.addSlice l r) s (.slice vl vr)
  addPartial : ∀ l r vl vr s, Inv s → Decodes (S.view s) l vl → Decodes (S.view s) r vr →
    AddsOn S Inv (S.addPartial l r) s (.part vl vr)
  mergeSome : ∀ l r vl vr v s, Inv s → Decodes (S.view s) l vl → Decodes (S.view s) r vr →
    Abs.mergeSymList vl vr = some v → (∀ n, vl ≠ .num n) → (∀ n, vr ≠ .num n) →
    AddsOn S Inv (S.mergeToSymbolList l r) s v
  startList : ∀ n s, Inv s → ∃ t s', S.startList n s = .ok (t, s') ∧ Eff S s s' (S.regs s) (S.vals s) ∧
    S.building s' = some (t, []) ∧ Inv s'
  addToList : ∀ t items a s, Inv s → S.building s = some (t, items) →
    ∃ t' s', S.addToList t a s = .ok (t', s') ∧ Eff S s s' (S.regs s) (S.vals s) ∧
      S.building s' = some (t', items ++ [a]) ∧ Inv s'
  endList : ∀ t items vs s, Inv s → S.building s = some (t, items) → DecodesList (S.view s) items vs →
    AddsOn S Inv (S.endList t) s (.list vs)
  popRegisterBuilding : ∀ s o s', S.popRegister s = .ok (o, s') → S.building s' = S.building s
  readable : ∀ s a v, Inv s → Decodes (S.view s) a v → v ≠ .custom → Readable s a
  pushRegister : ∀ a s, Inv s → Readable s a →
    ∃ s', S.pushRegister a s = .ok ((), s') ∧ Eff S s s' (a :: S.regs s) (S.vals s) ∧ Inv s'
  popRegisterNil : ∀ s, Inv s → S.regs s = [] → S.frames s = [] →
    ∃ s', S.popRegister s = .ok (none, s') ∧ Eff S s s' [] (S.vals s) ∧ Inv s'
  popRegisterCons : ∀ s a rest, Inv s → S.regs s = a :: rest → Deep S s rest →
    ∃ s', S.popRegister s = .ok (some a, s') ∧ Eff S s s' rest (S.vals s) ∧ Inv s'
  pushValueStack : ∀ a s, Inv s → Readable s a →
    ∃ s', S.pushValueStack a s = .ok ((), s') ∧ Eff S s s' (S.regs s) (a :: S.vals s) ∧ Inv s'
  popValueStackNil : ∀ s, Inv s → S.vals s = [] →
    ∃ s', S.popValueStack s = .ok (none, s') ∧ Eff S s s' (S.regs s) [] ∧ Inv s'
  popValueStackCons : ∀ s a rest, Inv s → S.vals s = a :: rest →
    ∃ s', S.popValueStack s = .ok (some a, s') ∧ Eff S s s' (S.regs s) rest ∧ Inv s'
  setCurrentNil : ∀ r s, Inv s → S.vals s = [] →
    ∃ s', S.setCurrentValue r s = .ok (false, s') ∧ Eff S s s' (S.regs s) [] ∧ Inv s'
  setCurrentCons : ∀ r s a rest, Inv s → Readable s r → S.vals s = a :: rest →
    ∃ s', S.setCurrentValue r s = .ok (true, s') ∧ Eff S s s' (S.regs s) (r :: rest) ∧ Inv s'
  pushFrame : ∀ j s, Inv s → ∃ s', S.pushFrame j s = .ok ((), s') ∧
    FEff S s s' (S.regs s) (S.vals s) ((j, S.regs s) :: S.frames s) ∧ Inv s'
  /-- `pop_frame` with no frame: `None`; the registers stay or are all gone -/
  popFrameNil : ∀ s, Inv s → S.frames s = [] →
    ∃ s' R, S.popFrame s = .ok (none, s') ∧ Eff S s s' R (S.vals s) ∧ (R = S.regs s ∨ R = []) ∧ Inv s'
  popFrameCons : ∀ s ret saved fs, Inv s → S.frames s = (ret, saved) :: fs →
    ∃ s', S.popFrame s = .ok (some ret, s') ∧ FEff S s s' saved (S.vals s) fs ∧ Inv s'
  setCursor : ∀ n s, ∃ s', S.setInstructionCursor n s = .ok ((), s') ∧ S.cursor s' = n ∧
    (∀ a v, Decodes (S.view s) a v → Decodes (S.view s') a v) ∧ S.jumpTable s' = S.jumpTable s ∧
    S.instrLen s' = S.instrLen s ∧ S.instruction s' = S.instruction s ∧ S.dataLen s' = S.dataLen s ∧
    S.regs s' = S.regs s ∧ S.vals s' = S.vals s ∧ S.trace s' = S.trace s ∧ S.frames s' = S.frames s ∧
    (Inv s → Inv s')
  deferOp : ∀ op l r, Records S (S.deferOp op l r) (.defer op l r)
  resolve : ∀ y, Records S (S.resolve y) (.resolve y)
  apply : ∀ e a, Records S (S.apply e a) (.apply e a)
  dataBound : ∀ s a v, Decodes (S.view s) a v → a < S.dataLen s

/-- `StoreLaws.listSym` on invariant states -/
def ListSymOn (S : RStore F σ) (Inv : σ → Prop) : Prop :=
  ∀ s a items vs sym, Inv s → (S.view s).listItems a = some items → DecodesList (S.view s) items vs →
    match Abs.lookupSym sym vs with
    | some v => ∃ r, S.listItemWithSymbol s a sym = .ok (some r) ∧ Decodes (S.view s) r v
    | none => S.listItemWithSymbol s a sym = .ok none

theorem Adds.on {S : RStore F σ} {m : RM σ Nat} {s : σ} {v : Val F} (h : Adds S m s v) :
    AddsOn S (fun _ => True) m s v := by
  obtain ⟨a, s', h1, h2, h3⟩ := h; exact ⟨a, s', h1, h2, h3, trivial⟩

/-- the unrelativised contract is the instance with the trivial invariant and everything readable -/
theorem StoreLawsRun.toOn {S : RStore F σ} (L : StoreLawsRun S) :
    StoreLawsOn S (fun _ => True) (fun _ _ => True) where
  rangeTyped := L.rangeTyped
  listIdx := L.listIdx
  charIdx := L.charIdx
  byteIdx := L.byteIdx
  symIdx := L.symIdx
  addUnit := fun s _ => (L.addUnit s).on
  addTrue := fun s _ => (L.addTrue s).on
  addFalse := fun s _ => (L.addFalse s).on
  addNumber := fun n s _ => (L.addNumber n s).on
  addType := fun t s _ => (L.addType t s).on
  addChar := fun c s _ => (L.addChar c s).on
  addByte := fun b s _ => (L.addByte b s).on
  addSymbol := fun y s _ => (L.addSymbol y s).on
  addPair := fun l r vl vr s _ hl hr => (L.addPair l r vl vr s hl hr).on
  addConcatenation := fun l r vl vr s _ hl hr _ _ => (L.addConcatenation l r vl vr s hl hr).on
  addRange := fun l r vl vr s _ hl hr => (L.addRange l r vl vr s hl hr).on
  addSlice := fun l r vl vr s _ hl hr => (L.addSlice l r vl vr s hl hr).on
  addPartial := fun l r vl vr s _ hl hr => (L.addPartial l r vl vr s hl hr).on
  mergeSome := fun l r vl vr v s _ hl hr hm _ _ => (L.mergeSome l r vl vr v s hl hr hm).on
  startList := fun n s _ => by
    obtain ⟨t, s', h1, h2, h3⟩ := L.startList n s; exact ⟨t, s', h1, h2, h3, trivial⟩
  addToList := fun t items a s _ hb => by
    obtain ⟨t', s', h1, h2, h3⟩ := L.addToList t items a s hb; exact ⟨t', s', h1, h2, h3, trivial⟩
  endList := fun t items vs s _ hb hd => (L.endList t items vs s hb hd).on
  popRegisterBuilding := L.popRegisterBuilding
  readable := fun _ _ _ _ _ _ => trivial
  pushRegister := fun a s _ _ => by
    obtain ⟨s', h1, h2⟩ := L.pushRegister a s; exact ⟨s', h1, h2, trivial⟩
  popRegisterNil := fun s _ hr _ => by
    obtain ⟨s', h1, h2⟩ := L.popRegisterNil s hr; exact ⟨s', h1, h2, trivial⟩
  popRegisterCons := fun s a rest _ hr _ => by
    obtain ⟨s', h1, h2⟩ := L.popRegisterCons s a rest hr; exact ⟨s', h1, h2, trivial⟩
  pushValueStack := fun a s _ _ => by
    obtain ⟨s', h1, h2⟩ := L.pushValueStack a s; exact ⟨s', h1, h2, trivial⟩
  popValueStackNil := fun s _ hv => by
    obtain ⟨s', h1, h2⟩ := L.popValueStackNil s hv; exact ⟨s', h1, h2, trivial⟩
  popValueStackCons := fun s a rest _ hv => by
    obtain ⟨s', h1, h2⟩ := L.popValueStackCons s a rest hv; exact ⟨s', h1, h2, trivial⟩
  setCurrentNil := fun r s _ hv => by
    obtain ⟨s', h1, h2⟩ := L.setCurrentNil r s hv; exact ⟨s', h1, h2, trivial⟩
  setCurrentCons := fun r s a rest _ _ hv => by
    obtain ⟨s', h1, h2⟩ := L.setCurrentCons r s a rest hv; exact ⟨s', h1, h2, trivial⟩
  pushFrame := fun j s _ => by
    obtain ⟨s', h1, h2⟩ := L.pushFrame j s; exact ⟨s', h1, h2, trivial⟩
  popFrameNil := fun s _ hf => by
    obtain ⟨s', h1, h2⟩ := L.popFrameNil s hf; exact ⟨s', _, h1, h2, .inl rfl, trivial⟩
  popFrameCons := fun s ret saved fs _ hf => by
    obtain ⟨s', h1, h2⟩ := L.popFrameCons s ret saved fs hf; exact ⟨s', h1, h2, trivial⟩
  setCursor := fun n s => by
    obtain ⟨s', h1, h2, h3, h4, h5, h6, h7, h8, h9, h10, h11⟩ := L.setCursor n s
    exact ⟨s', h1, h2, h3, h4, h5, h6, h7, h8, h9, h10, h11, fun _ => trivial⟩
  deferOp := L.deferOp
  resolve := L.resolve
  apply := L.apply
  dataBound := L.dataBound

theorem StoreLaws.listSymOn {S : RStore F σ} (L : StoreLaws S) : ListSymOn S (fun _ => True) :=
  fun s a items vs sym _ hi hd => L.listSym s a items vs sym hi hd

end Garnish.Model.Runtime
