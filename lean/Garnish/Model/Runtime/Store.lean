/-
L2 runtime store interface: the part of the `GarnishData` trait (traits/src/data.rs) the instruction
handlers of runtime/src/runtime/*.rs call, as an ABSTRACT STATE MACHINE over a state type `σ`.

* `RM σ α` = a handler body: `&mut Data` in, `Result<α, RuntimeError<Data::Error>>` out
  (`Outcome`: `err .data` = a `Data::Error`, `err .state` = `state_error`, `err .number` = `or_num_err`,
  `err .unsupported` = `RuntimeError::unsupported_types()`).
* `RStore F σ` = the read-only getters (`view : σ → StoreView F`, Model/Equality.lean), the observable stacks
  (`regs`: register stack, TOP AT THE HEAD; `vals`: the input-value stack, current value at the head), the
  program part the handlers read (`jumpTable`, `instrLen`, `cursor`, `dataLen`), the adders, the stack
  operations and the three host extension points. `trace` is a ghost component: the host calls made so far,
  newest first ("exactly once" is a statement about it).
* `StoreLaws S` = the trait's contract, stated ONCE: an adder returns an address that decodes to the added
  value, every earlier `Decodes` fact is preserved (`Keeps`), registers / values / trace are untouched
  (`Eff`); `push_register` / `pop_register` / the value-stack operations do what their names say and keep all
  `Decodes` facts; a host extension point records exactly one call. Allocation failure is not modelled
  (DESIGN 11.5): the adders succeed. Model/Runtime/RefStore.lean proves the laws for a list-backed store.
-/
import Garnish.Model.Equality
import Garnish.Abs.Ops
namespace Garnish.Model.Runtime
open Garnish Gen Garnish.Model.Equality

/-- a handler body: state in, `Result` and state out -/
abbrev RM (σ α : Type) := σ → Outcome (α × σ)

namespace RM
variable {σ α β : Type}
@[inline] def pure (a : α) : RM σ α := fun s => .ok (a, s)
@[inline] def bind (x : RM σ α) (f : α → RM σ β) : RM σ β := fun s =>
  match x s with
  | .ok (a, s') => f a s'
  | .err e => .err e
  | .panic p => .panic p
  | .fuelOut => .fuelOut
instance : Monad (RM σ) where
  pure := RM.pure
  bind := RM.bind
/-- `Err(...)?` -/
def fail (e : ErrClass) : RM σ α := fun _ => .err e
/-- a `&self` getter returning `Result` -/
def lift (o : Outcome α) : RM σ α := fun s => o.bind (fun a => .ok (a, s))
/-- a `&self` getter returning `Result`, given as a function of the state -/
def readR (g : σ → Outcome α) : RM σ α := fun s => (g s).bind (fun a => .ok (a, s))
/-- a `&self` getter that cannot fail -/
def read (f : σ → α) : RM σ α := fun s => .ok (f s, s)
end RM

/-- host extension point calls, on addresses as the trait passes them -/
inductive HostCall where
  | defer (op : Instruction) (l r : Ty × Nat)
  | resolve (sym : Nat)
  | apply (ext arg : Nat)
deriving DecidableEq

structure RStore (F σ : Type) where
  view : σ → StoreView F
  regs : σ → List Nat                       -- get_register_len / get_register, top at the head
  vals : σ → List Nat                       -- the value stack, `get_current_value` = head
  trace : σ → List HostCall                 -- ghost
  jumpTable : σ → Nat → Option Nat          -- get_from_jump_table
  instruction : σ → Nat → Option (Instruction × Option Nat)   -- get_instruction
  /-- ghost: the frame chain, newest first: return address and the caller's registers -/
  frames : σ → List (Nat × List Nat)
  instrLen : σ → Nat                        -- get_instruction_len
  cursor : σ → Nat                          -- get_instruction_cursor
  dataLen : σ → Nat                         -- get_data_len
  -- indexed getters (`&self`; the index is a `Data::Number`)
  listLen : σ → Nat → Outcome Nat                              -- get_list_len
  charLen : σ → Nat → Outcome Nat                              -- get_char_list_len
  byteLen : σ → Nat → Outcome Nat                              -- get_byte_list_len
  symLen : σ → Nat → Outcome Nat                               -- get_symbol_list_len
  listItem : σ → Nat → Number F → Outcome (Option Nat)         -- get_list_item
  charItem : σ → Nat → Number F → Outcome (Option Nat)         -- get_char_list_item
  byteItem : σ → Nat → Number F → Outcome (Option Nat)         -- get_byte_list_item
  symItem : σ → Nat → Number F → Outcome (Option (SymPart F))  -- get_symbol_list_item
  listItemWithSymbol : σ → Nat → Nat → Outcome (Option Nat)    -- get_list_item_with_symbol
  -- adders
  addUnit : RM σ Nat
  addTrue : RM σ Nat
  addFalse : RM σ Nat
  addNumber : Number F → RM σ Nat
  addType : Ty → RM σ Nat
  addChar : Nat → RM σ Nat
  addByte : Nat → RM σ Nat
  addSymbol : Nat → RM σ Nat
  addPair : Nat × Nat → RM σ Nat
  addConcatenation : Nat → Nat → RM σ Nat
  addRange : Nat → Nat → RM σ Nat
  addSlice : Nat → Nat → RM σ Nat
  addPartial : Nat → Nat → RM σ Nat
  mergeToSymbolList : Nat → Nat → RM σ Nat
  /-- ghost: the list under construction — the token `start_list` / `add_to_list` last returned and the items added
  so far, in order -/
  building : σ → Option (Nat × List Nat)
  startList : Nat → RM σ Nat
  addToList : Nat → Nat → RM σ Nat
  endList : Nat → RM σ Nat
  -- stacks
  pushRegister : Nat → RM σ Unit
  popRegister : RM σ (Option Nat)
  pushValueStack : Nat → RM σ Unit
  popValueStack : RM σ (Option Nat)         -- no `Result` in the trait: never `err`
  /-- `match get_current_value_mut() { None => false, Some(v) => { *v = r; true } }` -/
  setCurrentValue : Nat → RM σ Bool
  pushFrame : Nat → RM σ Unit
  popFrame : RM σ (Option Nat)
  setInstructionCursor : Nat → RM σ Unit
  -- host extension points
  deferOp : Instruction → Ty × Nat → Ty × Nat → RM σ Bool
  resolve : Nat → RM σ Bool
  apply : Nat → Nat → RM σ Bool

variable {F σ : Type}

/-! ### the contract -/

/-- every `Decodes` fact of `s` still holds in `s'`; the program part is untouched -/
structure Keeps (S : RStore F σ) (s s' : σ) : Prop where
  dec : ∀ a v, Decodes (S.view s) a v → Decodes (S.view s') a v
  jump : S.jumpTable s' = S.jumpTable s
  ilen : S.instrLen s' = S.instrLen s
  cur : S.cursor s' = S.cursor s
  instr : S.instruction s' = S.instruction s

/-- effect of a store operation that is not a host call: data kept, the two stacks as stated, no host call, the
frame chain untouched -/
structure Eff (S : RStore F σ) (s s' : σ) (regs' vals' : List Nat) : Prop where
  keeps : Keeps S s s'
  regs : S.regs s' = regs'
  vals : S.vals s' = vals'
  trace : S.trace s' = S.trace s
  frames : S.frames s' = S.frames s

/-- effect of an operation that may change the frame chain (`push_frame`, `pop_frame`, entering or leaving an
expression): data kept, stacks and frames as stated, no host call -/
structure FEff (S : RStore F σ) (s s' : σ) (regs' vals' : List Nat) (frames' : List (Nat × List Nat)) : Prop where
  keeps : Keeps S s s'
  regs : S.regs s' = regs'
  vals : S.vals s' = vals'
  trace : S.trace s' = S.trace s
  frames : S.frames s' = frames'

/-- contract of an adder: succeeds, the new address denotes `v`, nothing else is disturbed -/
def Adds (S : RStore F σ) (m : RM σ Nat) (s : σ) (v : Val F) : Prop :=
  ∃ a s', m s = .ok (a, s') ∧ Decodes (S.view s') a v ∧ Eff S s s' (S.regs s) (S.vals s)

/-- contract of a host extension point: whatever it answers, exactly this call is recorded -/
def Records (S : RStore F σ) (m : RM σ Bool) (c : HostCall) : Prop :=
  ∀ s b s', m s = .ok (b, s') → S.trace s' = c :: S.trace s

/-- contract of an indexed getter pair (`len`, `item`) over the sequence `seq` the iterator getter yields:
the length is the length; an integer index inside `0..len` yields that element. Outside (negative, too large,
fractional) the data implementations differ and nothing is promised. -/
def Indexes {β : Type} (len : Nat → Outcome Nat) (item : Nat → Number F → Outcome (Option β))
    (seq : Nat → Option (List β)) : Prop :=
  ∀ a xs, seq a = some xs → len a = .ok xs.length ∧ ∀ i, i < xs.length → item a (.int i) = .ok xs[i]?

/-- `DataFactory::size_to_number`: `from as i32` -/
def sizeToNumber (n : Nat) : Number F := .int (wrap n)

structure StoreLaws (S : RStore F σ) : Prop where
  /-- `get_range` answers only on a range -/
  rangeTyped : ∀ s a p, (S.view s).range a = some p → (S.view s).typeOf a = some .range
  listIdx : ∀ s, Indexes (S.listLen s) (S.listItem s) (S.view s).listItems
  charIdx : ∀ s, Indexes (S.charLen s) (S.charItem s) (S.view s).chars
  byteIdx : ∀ s, Indexes (S.byteLen s) (S.byteItem s) (S.view s).bytes
  symIdx : ∀ s, Indexes (S.symLen s) (S.symItem s) (S.view s).symList
  /-- `get_list_item_with_symbol`: the value of the first item that is a pair keyed by the symbol, if any -/
  listSym : ∀ s a items vs sym, (S.view s).listItems a = some items → DecodesList (S.view s) items vs →
    match Abs.lookupSym sym vs with
    | some v => ∃ r, S.listItemWithSymbol s a sym = .ok (some r) ∧ Decodes (S.view s) r v
    | none => S.listItemWithSymbol s a sym = .ok none
  addUnit : ∀ s, Adds S S.addUnit s .unit
  addTrue : ∀ s, Adds S S.addTrue s .tru
  addFalse : ∀ s, Adds S S.addFalse s .fls
  addNumber : ∀ n s, Adds S (S.addNumber n) s (.num n)
  addType : ∀ t s, Adds S (S.addType t) s (.type t)
  addChar : ∀ c s, Adds S (S.addChar c) s (.char c)
  addByte : ∀ b s, Adds S (S.addByte b) s (.byte b)
  addSymbol : ∀ y s, Adds S (S.addSymbol y) s (.sym y)
  addPair : ∀ l r vl vr s, Decodes (S.view s) l vl → Decodes (S.view s) r vr →
    Adds S (S.addPair (l, r)) s (.pair vl vr)
  addConcatenation : ∀ l r vl vr s, Decodes (S.view s) l vl → Decodes (S.view s) r vr →
    Adds S (S.addConcatenation l r) s (.concat vl vr)
  addRange : ∀ l r vl vr s, Decodes (S.view s) l vl → Decodes (S.view s) r vr →
    Adds S (S.addRange l r) s (.range vl vr)
  addSlice : ∀ l r vl vr s, Decodes (S.view s) l vl → Decodes (S.view s) r vr →
    Adds S (S.addSlice l r) s (.slice vl vr)
  addPartial : ∀ l r vl vr s, Decodes (S.view s) l vl → Decodes (S.view s) r vr →
    Adds S (S.addPartial l r) s (.part vl vr)
  /-- `merge_to_symbol_list`: symbols, numbers and symbol lists merge (the handlers pass nothing else) -/
  mergeSome : ∀ l r vl vr v s, Decodes (S.view s) l vl → Decodes (S.view s) r vr →
    Abs.mergeSymList vl vr = some v → Adds S (S.mergeToSymbolList l r) s v
  /-- `start_list(len)`: a fresh construction with no items; the token is what the data object chooses -/
  startList : ∀ n s, ∃ t s', S.startList n s = .ok (t, s') ∧ Eff S s s' (S.regs s) (S.vals s) ∧
    S.building s' = some (t, [])
  /-- `add_to_list(token, item)`: the item is appended, a new token returned -/
  addToList : ∀ t items a s, S.building s = some (t, items) →
    ∃ t' s', S.addToList t a s = .ok (t', s') ∧ Eff S s s' (S.regs s) (S.vals s) ∧
      S.building s' = some (t', items ++ [a])
  /-- `end_list(token)`: the address of a list of exactly the added items, in the order they were added -/
  endList : ∀ t items vs s, S.building s = some (t, items) → DecodesList (S.view s) items vs →
    Adds S (S.endList t) s (.list vs)
  /-- popping a register does not disturb a list under construction -/
  popRegisterBuilding : ∀ s o s', S.popRegister s = .ok (o, s') → S.building s' = S.building s
  pushRegister : ∀ a s, ∃ s', S.pushRegister a s = .ok ((), s') ∧ Eff S s s' (a :: S.regs s) (S.vals s)
  popRegisterNil : ∀ s, S.regs s = [] → ∃ s', S.popRegister s = .ok (none, s') ∧ Eff S s s' [] (S.vals s)
  popRegisterCons : ∀ s a rest, S.regs s = a :: rest →
    ∃ s', S.popRegister s = .ok (some a, s') ∧ Eff S s s' rest (S.vals s)
  pushValueStack : ∀ a s, ∃ s', S.pushValueStack a s = .ok ((), s') ∧ Eff S s s' (S.regs s) (a :: S.vals s)
  popValueStackNil : ∀ s, S.vals s = [] → ∃ s', S.popValueStack s = .ok (none, s') ∧ Eff S s s' (S.regs s) []
  popValueStackCons : ∀ s a rest, S.vals s = a :: rest →
    ∃ s', S.popValueStack s = .ok (some a, s') ∧ Eff S s s' (S.regs s) rest
  setCurrentNil : ∀ r s, S.vals s = [] → ∃ s', S.setCurrentValue r s = .ok (false, s') ∧ Eff S s s' (S.regs s) []
  setCurrentCons : ∀ r s a rest, S.vals s = a :: rest →
    ∃ s', S.setCurrentValue r s = .ok (true, s') ∧ Eff S s s' (S.regs s) (r :: rest)
  /-- `push_frame(j)`: a frame returning to `j`, remembering the caller's registers; registers and values stay -/
  pushFrame : ∀ j s, ∃ s', S.pushFrame j s = .ok ((), s') ∧
    FEff S s s' (S.regs s) (S.vals s) ((j, S.regs s) :: S.frames s)
  /-- `pop_frame` with no frame: `None`, nothing changes -/
  popFrameNil : ∀ s, S.frames s = [] → ∃ s', S.popFrame s = .ok (none, s') ∧ Eff S s s' (S.regs s) (S.vals s)
  /-- `pop_frame`: the return address; the registers are the caller's again -/
  popFrameCons : ∀ s ret saved fs, S.frames s = (ret, saved) :: fs →
    ∃ s', S.popFrame s = .ok (some ret, s') ∧ FEff S s s' saved (S.vals s) fs
  /-- `set_instruction_cursor(n)` moves the cursor and nothing else -/
  setCursor : ∀ n s, ∃ s', S.setInstructionCursor n s = .ok ((), s') ∧ S.cursor s' = n ∧
    (∀ a v, Decodes (S.view s) a v → Decodes (S.view s') a v) ∧ S.jumpTable s' = S.jumpTable s ∧
    S.instrLen s' = S.instrLen s ∧ S.instruction s' = S.instruction s ∧ S.dataLen s' = S.dataLen s ∧
    S.regs s' = S.regs s ∧ S.vals s' = S.vals s ∧ S.trace s' = S.trace s ∧ S.frames s' = S.frames s
  deferOp : ∀ op l r, Records S (S.deferOp op l r) (.defer op l r)
  resolve : ∀ y, Records S (S.resolve y) (.resolve y)
  apply : ∀ e a, Records S (S.apply e a) (.apply e a)

/-! ### getters as handler statements (`this.get_…(addr)?`) -/

section getters
variable (S : RStore F σ)

def getDataType (a : Nat) : RM σ Ty := fun s => RM.lift (fetch ((S.view s).typeOf a)) s
def getNumber (a : Nat) : RM σ (Number F) := fun s => RM.lift (fetch ((S.view s).number a)) s
def getChar (a : Nat) : RM σ Nat := fun s => RM.lift (fetch ((S.view s).char a)) s
def getByte (a : Nat) : RM σ Nat := fun s => RM.lift (fetch ((S.view s).byte a)) s
def getSymbol (a : Nat) : RM σ Nat := fun s => RM.lift (fetch ((S.view s).symbol a)) s
def getExpression (a : Nat) : RM σ Nat := fun s => RM.lift (fetch ((S.view s).expression a)) s
def getExternal (a : Nat) : RM σ Nat := fun s => RM.lift (fetch ((S.view s).external a)) s
def getPair (a : Nat) : RM σ (Nat × Nat) := fun s => RM.lift (fetch ((S.view s).pair a)) s
def getRangeRaw (a : Nat) : RM σ (Nat × Nat) := fun s => RM.lift (fetch ((S.view s).range a)) s
def getSlice (a : Nat) : RM σ (Nat × Nat) := fun s => RM.lift (fetch ((S.view s).slice a)) s
def getPartial (a : Nat) : RM σ (Nat × Nat) := fun s => RM.lift (fetch ((S.view s).partial_ a)) s
def getConcatenation (a : Nat) : RM σ (Nat × Nat) := fun s => RM.lift (fetch ((S.view s).concatenation a)) s
/-- `get_symbol_list_iter(a, 0..MAX)`, collected -/
def getSymbolListIter (a : Nat) : RM σ (List (SymPart F)) := fun s => RM.lift (fetch ((S.view s).symList a)) s
/-- `get_from_jump_table` -/
def getFromJumpTable (j : Nat) : RM σ (Option Nat) := RM.read (fun s => S.jumpTable s j)
/-- `get_current_value` -/
def getCurrentValue : RM σ (Option Nat) := RM.read (fun s => (S.vals s).head?)

end getters

end Garnish.Model.Runtime
