/-
The address-level execution LOOP and what is needed to state the multi-step refinement (Props/RuntimeRefineRun.lean):

* `executeLoop` — repeat `execute_current_instruction` until it answers `End` (at most `n` times), counting the steps,
  as `Abs.Machine.run` does (the driver loop of the harness / `garnish` crate: `loop { match execute_current_instruction
  … End => break }`);
* `StoreLawsRun` — `StoreLaws` plus ONE more clause of the trait contract: a decodable address lies inside the data
  (`get_data_len`), which is what `put` checks;
* `Loaded S P s` — the constants of the program are stored at their own addresses (what the builder's `add_*` calls
  leave in the data object): static, kept by every step (`DecKept`);
* `MachOK` — the side condition of one instruction on the MACHINE state only (`StepOKF` without its two store clauses,
  which `Loaded` discharges); `RunOK … n m` — `MachOK` holds at every state of the machine's run of `n` steps from `m`;
* `StaticOK P` — a static sufficient condition for `RunOK`: the program contains none of the instructions that have a
  dynamic side condition.
-/
import Garnish.Model.Runtime.StepDomainFull
namespace Garnish.Model.Runtime
open Garnish Gen Garnish.Abs Garnish.Model.Equality

variable {F σ : Type} (fo : FloatOps F)

/-- repeat `execute_current_instruction` until `End`, at most `n` times; the number of steps made -/
def executeLoop (S : RStore F σ) (fuel : Nat) (H : OtherHandlers σ) : Nat → RM σ (RuntimeState × Nat)
  | 0 => pure (.running, 0)
  | n + 1 => do
    match ← executeCurrentInstruction fo S fuel H with
    | .end_ => pure (.end_, 1)
    | .running => do
      let (r, k) ← executeLoop S fuel H n
      pure (r, k + 1)

structure StoreLawsRun (S : RStore F σ) : Prop extends StoreLaws S where
  /-- a decodable address is inside the data object -/
  dataBound : ∀ s a v, Decodes (S.view s) a v → a < S.dataLen s

/-- the constants of `P` are stored at their own addresses -/
def Loaded (S : RStore F σ) (P : Prog F) (s : σ) : Prop :=
  ∀ k v, P.consts[k]? = some v → Decodes (S.view s) k v

/-- the side condition of one instruction, on the machine state only -/
def MachOK (P : Prog F) (fuel : Nat) (m : MState F) (instr : Instruction) (operand : Option Nat) : Prop :=
  match instr with
  | .resolve => ∀ k key, operand = some k → P.consts[k]? = some key →
      ∀ cur vs, m.vals = cur :: vs → AccessDomain cur ∧ accessFuel cur ≤ fuel ∧
        ∀ n, key = .num n → (∃ i, n = .int i) ∧ RangeOrdered fo n cur
  | .lessThan | .lessThanOrEqual | .greaterThan | .greaterThanOrEqual =>
    ∀ vr vl rs, m.regs = vr :: vl :: rs → CompareDomain fo fuel vl vr
  | .access => ∀ vr vl rs, m.regs = vr :: vl :: rs → AccessOK fo fuel vl vr
  | .apply => ∀ vr vl rs, m.regs = vr :: vl :: rs → ApplyDomain fo fuel vl vr
  | .emptyApply => ∀ vl rs, m.regs = vl :: rs → ApplyDomain fo fuel vl .unit
  | .equal | .notEqual => ∀ vr vl rs, m.regs = vr :: vl :: rs → EqualDomain fuel vl vr
  | .accessLengthInternal => ∀ v rs, m.regs = v :: rs → LengthDomain v ∧ accessFuel v ≤ fuel
  | _ => True

/-- `MachOK` along the machine's run -/
def RunOK (host : Host F) (P : Prog F) (fuel : Nat) : Nat → MState F → Prop
  | 0, _ => True
  | n + 1, m =>
    (∀ instr operand, P.instrs[m.pc]? = some (instr, operand) → MachOK fo P fuel m instr operand) ∧
    ∀ m', Abs.step fo host P m = .running m' → RunOK host P fuel n m'

/-- instructions whose side condition depends on the run -/
def isDynamic : Instruction → Bool
  | .resolve | .lessThan | .lessThanOrEqual | .greaterThan | .greaterThanOrEqual | .access | .apply | .emptyApply
  | .equal | .notEqual | .accessLengthInternal => true
  | _ => false

/-- the program uses no instruction with a dynamic side condition -/
def StaticOK (P : Prog F) : Prop :=
  ∀ (i : Nat) (instr : Instruction) (operand : Option Nat), P.instrs[i]? = some (instr, operand) → isDynamic instr = false

end Garnish.Model.Runtime
