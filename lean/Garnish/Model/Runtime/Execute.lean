/-
L2 code model of runtime/src/execute.rs (`execute_current_instruction`) over the abstract store: fetch the
instruction at the cursor (`None` ↦ `End`), dispatch to its handler (the `match instruction` in source order;
the nine instructions that carry data fail with `instruction_error` when it is missing), take the handler's
`Some(next)` or `cursor + 1`, and either end (`next >= instruction_len`, the cursor is NOT moved) or move the cursor.

Handlers of files not transliterated in Model/Runtime (casting.rs `type_cast`, `type_of`, `type_equal`,
internals.rs `access_*_internal`, and equality.rs whose model Model/Equality.lean is read-only over `StoreView`) are
the parameter `OtherHandlers`. `fuel` is handed to every handler that loops.
-/
import Garnish.Model.Runtime.Arithmetic
import Garnish.Model.Runtime.Logical
import Garnish.Model.Runtime.Jumps
import Garnish.Model.Runtime.Comparison
import Garnish.Model.Runtime.Range
import Garnish.Model.Runtime.Pair
import Garnish.Model.Runtime.Put
import Garnish.Model.Runtime.Resolve
import Garnish.Model.Runtime.Apply
import Garnish.Model.Runtime.MakeList
namespace Garnish.Model.Runtime
open Garnish Gen Garnish.Model.Equality

variable {F σ : Type} (fo : FloatOps F) (S : RStore F σ)

/-- `SimpleRuntimeState` -/
inductive RuntimeState where
  | running
  | end_
deriving DecidableEq, Repr

/-- the handlers this development does not transliterate -/
structure OtherHandlers (σ : Type) where
  typeOf : RM σ (Option Nat)
  typeCast : RM σ (Option Nat)
  typeEqual : RM σ (Option Nat)
  equal : RM σ (Option Nat)
  notEqual : RM σ (Option Nat)
  accessLeftInternal : RM σ (Option Nat)
  accessRightInternal : RM σ (Option Nat)
  accessLengthInternal : RM σ (Option Nat)

/-- `instruction_error(instruction, cursor)?`: "Expected instruction … to have data. Found None." -/
def instructionError {α : Type} : RM σ α := RM.fail .implementation

/-- `Some(i) => handler(data, i)?, None => instruction_error(..)?` -/
def withData (instructionData : Option Nat) (handler : Nat → RM σ (Option Nat)) : RM σ (Option Nat) :=
  match instructionData with
  | none => instructionError
  | some i => handler i

/-- the `match instruction` of `execute_current_instruction` -/
def dispatch (fuel : Nat) (H : OtherHandlers σ) (instruction : Instruction) (instructionData : Option Nat) :
    RM σ (Option Nat) :=
  match instruction with
  | .invalid => pure none
  | .add => add fo S
  | .subtract => subtract fo S
  | .multiply => multiply fo S
  | .divide => divide fo S
  | .integerDivide => integerDivide fo S
  | .power => power fo S
  | .opposite => opposite fo S
  | .absoluteValue => absoluteValue fo S
  | .remainder => remainder fo S
  | .bitwiseNot => bitwiseNot S
  | .bitwiseAnd => bitwiseAnd S
  | .bitwiseOr => bitwiseOr S
  | .bitwiseXor => bitwiseXor S
  | .bitwiseShiftLeft => bitwiseLeftShift S
  | .bitwiseShiftRight => bitwiseRightShift S
  | .xor => xor S
  | .not => not S
  | .tis => tis S
  | .putValue => putValue S
  | .pushValue => pushValue S
  | .updateValue => updateValue S
  | .startSideEffect => startSideEffect S
  | .endSideEffect => endSideEffect S
  | .typeOf => H.typeOf
  | .applyType => H.typeCast
  | .typeEqual => H.typeEqual
  | .equal => H.equal
  | .notEqual => H.notEqual
  | .lessThan => lessThan fo S fuel
  | .lessThanOrEqual => lessThanOrEqual fo S fuel
  | .greaterThan => greaterThan fo S fuel
  | .greaterThanOrEqual => greaterThanOrEqual fo S fuel
  | .makePair => makePair S
  | .access => access fo S fuel
  | .accessLeftInternal => H.accessLeftInternal
  | .accessRightInternal => H.accessRightInternal
  | .accessLengthInternal => H.accessLengthInternal
  | .makeRange => makeRange fo S
  | .makeStartExclusiveRange => makeStartExclusiveRange fo S
  | .makeEndExclusiveRange => makeEndExclusiveRange fo S
  | .makeExclusiveRange => makeExclusiveRange fo S
  | .concat => concat S
  | .endExpression => endExpression S
  | .apply => apply fo S fuel
  | .partialApply => partialApply S
  | .emptyApply => emptyApply fo S fuel
  | .and => withData instructionData (and S)
  | .or => withData instructionData (or S)
  | .put => withData instructionData (put S)
  | .makeList => withData instructionData (makeList S)
  | .resolve => withData instructionData (resolve fo S fuel)
  | .reapply => withData instructionData (reapply S)
  | .jumpIfTrue => withData instructionData (jumpIfTrue S)
  | .jumpIfFalse => withData instructionData (jumpIfFalse S)
  | .jumpTo => withData instructionData (jump S)

/-- the tail of `execute_current_instruction`: `Some(i) => i, None => cursor + 1`, then end (`next >= instruction_len`)
or move the cursor -/
def advance (nextInstruction : Option Nat) : RM σ RuntimeState := do
  let cursor ← RM.read S.cursor
  let nextInstruction := nextInstruction.getD (cursor + 1)
  let instrLen ← RM.read S.instrLen
  if nextInstruction ≥ instrLen then pure .end_
  else do
    S.setInstructionCursor nextInstruction
    pure .running

/-- `execute_current_instruction` -/
def executeCurrentInstruction (fuel : Nat) (H : OtherHandlers σ) : RM σ RuntimeState := do
  match ← RM.read (fun s => S.instruction s (S.cursor s)) with
  | none => pure .end_
  | some (instruction, instructionData) => do
    let nextInstruction ← dispatch fo S fuel H instruction instructionData
    advance S nextInstruction

end Garnish.Model.Runtime
