/-
L2 code model of runtime/src/runtime/jumps.rs (`jump`, `jump_if_true`, `jump_if_false`, `end_expression`) over
the abstract store.
-/
import Garnish.Model.Runtime.Utilities
namespace Garnish.Model.Runtime
open Garnish Gen Garnish.Model.Equality

variable {F σ : Type} (S : RStore F σ)

/-- `jump` -/
def jump (index : Nat) : RM σ (Option Nat) := do
  match ← getFromJumpTable S index with
  | none => stateError            -- "No jump point at index"
  | some point => pure (some point)

/-- `jump_if_true` -/
def jumpIfTrue (index : Nat) : RM σ (Option Nat) := do
  let point ← match ← getFromJumpTable S index with
    | none => stateError
    | some point => pure point
  let d ← nextRef S
  match ← getDataType S d with
  | .false | .unit => pure none
  -- all other values are considered true
  | _ => pure (some point)

/-- `jump_if_false` -/
def jumpIfFalse (index : Nat) : RM σ (Option Nat) := do
  let point ← match ← getFromJumpTable S index with
    | none => stateError
    | some point => pure point
  let d ← nextRef S
  match ← getDataType S d with
  | .false | .unit => pure (some point)
  | _ => pure none

/-- `end_expression` -/
def endExpression : RM σ (Option Nat) := do
  -- store return value
  let r ← nextRef S
  match ← S.popFrame with
  | none => do
    -- no more jumps, this should be the end of the entire execution: set value to the return value
    match ← S.setCurrentValue r with
    | false => stateError         -- "No inputs available to update during end expression operation."
    | true => pure ()
    let n ← RM.read S.instrLen
    pure (some n)
  | some jumpPoint => do
    let _ ← S.popValueStack
    S.pushRegister r
    pure (some jumpPoint)

end Garnish.Model.Runtime
