/-
Side conditions of the instructions added by Model/Runtime/Internals.lean, and `StepOKF`: `StepOK` of
Model/Runtime/StepDomain.lean with those instructions no longer excluded.
-/
import Garnish.Model.Runtime.StepDomain
import Garnish.Model.Runtime.Internals
namespace Garnish.Model.Runtime
open Garnish Gen Garnish.Abs Garnish.Model.Equality

variable {F σ : Type} (fo : FloatOps F)

/-- where `access_length_internal` is proved: sequences no longer than `i32::MAX`, a slice holds a range -/
def LengthDomain : Val F → Prop
  | .list vs => vs.length ≤ 2147483647
  | .chars cs => cs.length ≤ 2147483647
  | .bytes bs => bs.length ≤ 2147483647
  | .concat l r => (flatItems l ++ flatItems r).length ≤ 2147483647
  | .slice _ sr => ∃ a b, sr = .range a b
  | _ => True


/-- the side condition of `Equal` / `NotEqual` on the two top registers: C11's domain and fuel -/
def EqualDomain (fuel : Nat) (vl vr : Val F) : Prop := NoSlice vl ∧ NoSlice vr ∧ eqFuel vl vr ≤ fuel

/-- `StepOK` for the dispatcher with `fullHandlers`: only `ApplyType` has no handler model (and the value-level
machine answers `unsupported` for it, so nothing is claimed there anyway) -/
def StepOKF (S : RStore F σ) (P : Prog F) (fuel : Nat) (s : σ) (m : MState F) (instr : Instruction)
    (operand : Option Nat) : Prop :=
  match instr with
  | .typeOf | .typeEqual | .accessLeftInternal | .accessRightInternal | .applyType => True
  | .equal | .notEqual => ∀ vr vl rs, m.regs = vr :: vl :: rs → EqualDomain fuel vl vr
  | .accessLengthInternal => ∀ v rs, m.regs = v :: rs → LengthDomain v ∧ accessFuel v ≤ fuel
  | i => StepOK fo S P fuel s m i operand

end Garnish.Model.Runtime
