/-
L2 code model of the index arithmetic of `SimpleGarnishData`'s accessors (property C07):
data/src/runtime.rs (`get_list_item`, `get_char_list_item`, `get_byte_list_item`, `get_symbol_list_item`,
the `get_*_iter` constructors — which ignore their extents —) and data/src/simple.rs (`get`,
`collect_concatenation_indices`).  `item_index as usize` on an `i32` is the sign-extending cast `asUsize`;
`Vec::get` / `Iterator::nth` are total (`Option`); the one place with unchecked arithmetic is the
slice-of-a-concatenation arm of `collect_concatenation_indices`, modelled with explicit `i64` / `usize`
overflow panics (as the harness profile has them).
-/
import Garnish.Model.Access
import Garnish.Gen.Enums
namespace Garnish.Access.Simple
open Garnish Garnish.Access
open Garnish.Gen (Ty)

/-- `SimpleData` as far as the accessors look into it; `leaf t` = a cell of type `t` whose payload no accessor reads -/
inductive SCell where
  | leaf (t : Ty)
  | symbol (s : Nat)
  | int (v : Int)
  | float
  | chars (cs : List Nat)
  | bytes (bs : List Nat)
  | syms (ss : List Nat)
  | pair (l r : Nat)
  | range (s e : Nat)
  | slice (v r : Nat)
  | concat (l r : Nat)
  | list (items : List Nat)
deriving DecidableEq, Repr, Inhabited

abbrev SData := Array SCell

/-- `x as usize` for an `i32` (sign extension to 64 bits) -/
def asUsize (v : Int) : Nat := (v % 18446744073709551616).toNat

/-- `SimpleGarnishData::get` -/
def get (d : SData) (i : Nat) : Outcome SCell :=
  match d[i]? with
  | some c => .ok c
  | none => .err .data

def asList : SCell → Outcome (List Nat) | .list items => .ok items | _ => .err .data
def asChars : SCell → Outcome (List Nat) | .chars cs => .ok cs | _ => .err .data
def asBytes : SCell → Outcome (List Nat) | .bytes bs => .ok bs | _ => .err .data
def asSyms : SCell → Outcome (List Nat) | .syms ss => .ok ss | _ => .err .data

def getListLen (d : SData) (a : Nat) : Outcome Nat := (get d a).bind fun c => (asList c).bind fun l => .ok l.length
def getCharListLen (d : SData) (a : Nat) : Outcome Nat := (get d a).bind fun c => (asChars c).bind fun l => .ok l.length
def getByteListLen (d : SData) (a : Nat) : Outcome Nat := (get d a).bind fun c => (asBytes c).bind fun l => .ok l.length
def getSymbolListLen (d : SData) (a : Nat) : Outcome Nat := (get d a).bind fun c => (asSyms c).bind fun l => .ok l.length

/-- `get_list_item`: `items.get(item_index as usize)`; a float index is an error -/
def getListItem (d : SData) (a : Nat) : Num → Outcome (Option Nat)
  | .int v => (get d a).bind fun c => (asList c).bind fun items => .ok items[asUsize v]?
  | .float _ _ => .err .data

/-- the three text-like item getters: a missing item is an *error* here (`None => Err(…)`) -/
def nthOrErr (xs : List Nat) (v : Int) : Outcome (Option Nat) :=
  match xs[asUsize v]? with
  | some x => .ok (some x)
  | none => .err .data

def getCharListItem (d : SData) (a : Nat) : Num → Outcome (Option Nat)
  | .int v => (get d a).bind fun c => (asChars c).bind fun cs => nthOrErr cs v
  | .float _ _ => .err .data

def getByteListItem (d : SData) (a : Nat) : Num → Outcome (Option Nat)
  | .int v => (get d a).bind fun c => (asBytes c).bind fun bs => nthOrErr bs v
  | .float _ _ => .err .data

def getSymbolListItem (d : SData) (a : Nat) : Num → Outcome (Option Nat)
  | .int v => (get d a).bind fun c => (asSyms c).bind fun ss => nthOrErr ss v
  | .float _ _ => .err .data

/-- `get_char_list_iter` and its two siblings: `len.and_then(…).unwrap_or(empty)` — the extents are ignored and
nothing is an error -/
def getCharListIter (d : SData) (a : Nat) : Outcome (List Nat) :=
  match d[a]? with | some (.chars cs) => .ok cs | _ => .ok []
def getByteListIter (d : SData) (a : Nat) : Outcome (List Nat) :=
  match d[a]? with | some (.bytes bs) => .ok bs | _ => .ok []
def getSymbolListIter (d : SData) (a : Nat) : Outcome (List Nat) :=
  match d[a]? with | some (.syms ss) => .ok ss | _ => .ok []

/-- `get_list_item_iter` -/
def getListItemIter (d : SData) (a : Nat) : Outcome (List Nat) :=
  match d[a]? with | some (.list items) => .ok items | _ => .ok []

/-! ### `collect_concatenation_indices` -/

def I64_MIN : Int := -9223372036854775808
def I64_MAX : Int := 9223372036854775807

/-- `a - b`, `a + b` on `i64` (overflow panics) -/
def i64sub (a b : Int) : Outcome Int :=
  if I64_MIN ≤ a - b ∧ a - b ≤ I64_MAX then .ok (a - b) else .panic "simple.rs: i64 attempt to subtract with overflow"
def i64add (a b : Int) : Outcome Int :=
  if I64_MIN ≤ a + b ∧ a + b ≤ I64_MAX then .ok (a + b) else .panic "simple.rs: i64 attempt to add with overflow"

/-- `x as usize` for an `i64` -/
def i64AsUsize (v : Int) : Nat := (v % 18446744073709551616).toNat

/-- `let count = if end < start { 0 } else { (*end as i64 - *start as i64 + 1) as usize };` (after fix fbec859) -/
def sliceCount (start end_ : Int) : Outcome Nat :=
  if end_ < start then .ok 0
  else (i64sub end_ start).bind fun d => (i64add d 1).bind fun n => .ok (i64AsUsize n)

/-- the expression this replaced, `(end - start) as usize + 1` on `i32` / `usize` — kept to state exactly when the
previous code panicked (Props/C07Access `sliceCountOld_panics_iff`) -/
def sliceCountOld (start end_ : Int) : Outcome Nat :=
  if InRange (end_ - start) then uadd (asUsize (end_ - start)) 1
  else .panic "simple.rs: i32 attempt to subtract with overflow"

/-- the inner `while let Some(item) = nested_con_stack.pop()`: the top-level items of a concatenation; a dangling
address pushes `UNIT_INDEX` onto the OUTER item list (`outer`, reversed) -/
def nestedLoop (d : SData) : Nat → List Nat → List Nat → List Nat → Outcome (List Nat × List Nat)
  | _, [], top, outer => .ok (top.reverse, outer)
  | 0, _ :: _, _, _ => .fuelOut
  | fuel + 1, item :: stack, top, outer =>
    match d[item]? with
    | none => nestedLoop d fuel stack top (0 :: outer)
    | some (.concat l r) => nestedLoop d fuel (l :: r :: stack) top outer
    | some _ => nestedLoop d fuel stack (item :: top) outer

/-- `.iter().skip(*start as usize).take(count)` -/
def skipTake (xs : List Nat) (start : Int) (count : Nat) : List Nat := (xs.drop (asUsize start)).take count

/-- the outer `while let Some(item) = con_stack.pop()` (head = top of the stack, `acc` = items reversed) -/
def collectLoop (d : SData) : Nat → List Nat → List Nat → Outcome (List Nat)
  | _, [], acc => .ok acc.reverse
  | 0, _ :: _, _ => .fuelOut
  | fuel + 1, item :: stack, acc =>
    match d[item]? with
    | none => collectLoop d fuel stack (0 :: acc)                                  -- UNIT_INDEX
    | some (.concat l r) => collectLoop d fuel (l :: r :: stack) acc
    | some (.list items) => collectLoop d fuel stack (items.reverse ++ acc)
    | some (.slice v r) =>
      match d[v]?, d[r]? with
      | some (.list items), some (.range s e) =>
        -- `self.get_number(*start)?`, `self.get_number(*end)?`, then `get_list_item_iter` (extents ignored)
        (match d[s]?, d[e]? with
         | some (.int _), some (.int _) | some (.int _), some .float | some .float, some (.int _) | some .float, some .float =>
           collectLoop d fuel stack (items.reverse ++ acc)
         | _, _ => .err .data)
      | some (.concat l2 r2), some (.range s e) =>
        (match d[s]?, d[e]? with
         | some (.int sv), some (.int ev) =>
           (nestedLoop d fuel [l2, r2] [] acc).bind fun p =>
           (sliceCount sv ev).bind fun count =>
           collectLoop d fuel stack ((skipTake p.1 sv count).reverse ++ p.2)
         | _, _ => collectLoop d fuel stack (0 :: acc))
      | _, _ => collectLoop d fuel stack (0 :: acc)
    | some _ => collectLoop d fuel stack (item :: acc)

/-- `get_concatenation_iter` -/
def getConcatenationIter (d : SData) (fuel : Nat) (a : Nat) : Outcome (List Nat) :=
  match d[a]? with
  | some (.concat l r) => collectLoop d fuel [l, r] []
  | _ => .ok []

end Garnish.Access.Simple
