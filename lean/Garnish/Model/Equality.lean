/-
L2 code model of /repo/runtime/src/runtime/equality.rs lines 1–489 (`equal`, `not_equal`,
`perform_equality_check`, `data_equal`, `compare_list_to_primitive`, `compare_index_iterator_values`,
`compare_item_iterators(_2)`, `push_iterator_values`, `match_last_iter_values`, `compare`): a statement-level
transliteration over an ABSTRACT read-only store interface (`StoreView`).

Conventions
* `Data::Size` addresses = `Nat`; the register stack = `List Nat`, TOP AT THE HEAD
  (`push_register a` = `a :: regs`, `pop_register` = head/tail).
* `StoreView F` are the read-only `GarnishData` getters `data_equal` consults. A getter that returns `none`
  is a `Data::Error` (`Outcome.err .data`). Iterators are the finite lists of what they yield, in order:
  `listItems a`   = `get_list_item_iter(a, 0..MAX)`,
  `concatItems a` = `get_concatenation_iter(a, 0..MAX)` (operands left to right, a list operand contributes
                    its items, a nested concatenation recurses, anything else itself),
  `chars/bytes/symList a` = `get_char_list_iter / get_byte_list_iter / get_symbol_list_iter (a, 0..MAX)`;
  `get_*_list_len` is the length of that list and `get_*_list_item(a, 0)` its first element.
* `Result<_, RuntimeError<_>>` = `Outcome _`; `state_error` = `Outcome.err .state`.
* `perform_equality_check` loops `while register_len > start`: `eqLoop` takes explicit fuel, one unit per
  evaluation of the loop condition (`Outcome.fuelOut` = still running). The clean-up loop and the iterator
  loops consume a finite list / shrink the stack on every round and are structural recursions.
* All arms of `data_equal` are present, in source order. The eleven arms that involve a `Slice` return
  `Outcome.err .unsupported` (outside C11's domain, not modelled); `(Slice, anything else)` falls to `_ => false`
  as in the Rust.
* The Rust computes `start_equal` and `end_equal` of the `(Range, Range)` arm by two textually identical
  `match` blocks; the model factors them into `rangeEndEqual`.
* `push_boolean` allocates in the store; on a read-only view `equal` / `notEqual` return the boolean that is
  pushed together with the register stack before that push.

Also here (deliverable 2): the decoding relation `Decodes view a v` — address `a` denotes the value `v : Val F`.
-/
import Garnish.Abs.Val
import Garnish.Model.Outcome

namespace Garnish.Model.Equality
open Garnish Garnish.Gen

/-- read-only getters of `GarnishData` used by `data_equal` (and by `Decodes`) -/
structure StoreView (F : Type) where
  typeOf : Nat → Option Ty                     -- get_data_type
  number : Nat → Option (Number F)             -- get_number
  char : Nat → Option Nat                      -- get_char
  byte : Nat → Option Nat                      -- get_byte
  symbol : Nat → Option Nat                    -- get_symbol
  expression : Nat → Option Nat                -- get_expression
  external : Nat → Option Nat                  -- get_external
  type_ : Nat → Option Ty                      -- get_type
  pair : Nat → Option (Nat × Nat)              -- get_pair
  range : Nat → Option (Nat × Nat)             -- get_range
  concatenation : Nat → Option (Nat × Nat)     -- get_concatenation (not used by data_equal; ties `concatItems` in `Decodes`)
  slice : Nat → Option (Nat × Nat)             -- get_slice (only `Decodes`)
  partial_ : Nat → Option (Nat × Nat)          -- get_partial (only `Decodes`)
  listItems : Nat → Option (List Nat)          -- get_list_item_iter
  concatItems : Nat → Option (List Nat)        -- get_concatenation_iter
  chars : Nat → Option (List Nat)              -- get_char_list_iter / _len / _item
  bytes : Nat → Option (List Nat)              -- get_byte_list_iter / _len / _item
  symList : Nat → Option (List (SymPart F))    -- get_symbol_list_iter

variable {F : Type}

/-- a `Data::Error` from a getter -/
@[inline] def fetch {α} (o : Option α) : Outcome α := Outcome.ofOption .data o

/-- `PartialEq for SymbolListPart` (derived) -/
def symPartEq (fo : FloatOps F) : SymPart F → SymPart F → Bool
  | .sym a, .sym b => a == b
  | .num a, .num b => Number.numEq fo a b
  | _, _ => false

/-- `match_last_iter_values` -/
def matchLastIterValues {α β} : Option α → Option β → Outcome Bool
  | some _, some _ => .err .state
  | none, some _ => .ok false
  | some _, none => .ok false
  | none, none => .ok true

/-- `compare_list_to_primitive` (`items` = the list getter, `getFn` = the primitive getter) -/
def compareListToPrimitive (items : Nat → Option (List Nat)) (getFn : Nat → Option Nat)
    (listAddr primitiveAddr : Nat) : Outcome Bool := do
  let xs ← fetch (items listAddr)
  if xs.length == 1 then
    match xs[0]? with
    | none => .ok false
    | some c1 =>
      let c2 ← fetch (getFn primitiveAddr)
      .ok (c1 == c2)
  else
    .ok false

/-- `compare_index_iterator_values`: `eq` is the `PartialEq` of the iterator's items -/
def compareIndexIteratorValues {α} (eq : α → α → Bool) : List α → List α → Outcome Bool
  | value1 :: iter1, value2 :: iter2 =>
    if !(eq value1 value2) then .ok false
    else compareIndexIteratorValues eq iter1 iter2
  | index1, index2 => matchLastIterValues index1.head? index2.head?

/-- `push_iterator_values`: pushes `index1` then `index2` while both iterators yield -/
def pushIteratorValues (regs : List Nat) : List Nat → List Nat → Outcome (Bool × List Nat)
  | index1 :: iter1, index2 :: iter2 => pushIteratorValues (index2 :: index1 :: regs) iter1 iter2
  | index1, index2 => do
    let b ← matchLastIterValues index1.head? index2.head?
    .ok (b, regs)

/-- one of the two identical `match` blocks of the `(Range, Range)` arm -/
def rangeEndEqual (fo : FloatOps F) (view : StoreView F) (a1 a2 : Nat) : Outcome Bool := do
  let t1 ← fetch (view.typeOf a1)
  let t2 ← fetch (view.typeOf a2)
  match t1, t2 with
  | .unit, .unit => .ok true
  | .number, .number => do
    let n1 ← fetch (view.number a1)
    let n2 ← fetch (view.number a2)
    .ok (Number.numEq fo n1 n2)
  | _, _ => .ok false

/-- `compare` with a `Nat`-valued getter -/
def compareNat (getFn : Nat → Option Nat) (leftAddr rightAddr : Nat) : Outcome Bool := do
  let left ← fetch (getFn leftAddr)
  let right ← fetch (getFn rightAddr)
  .ok (left == right)

/-- `data_equal`: the verdict for this pair of addresses and the register stack after the pushes -/
def dataEqual (fo : FloatOps F) (view : StoreView F) (regs : List Nat) (leftAddr rightAddr : Nat) :
    Outcome (Bool × List Nat) := do
  let leftType ← fetch (view.typeOf leftAddr)
  let rightType ← fetch (view.typeOf rightAddr)
  match leftType, rightType with
  | .unit, .unit | .true, .true | .false, .false => .ok (true, regs)
  | .type_, .type_ => do
    let a ← fetch (view.type_ leftAddr)
    let b ← fetch (view.type_ rightAddr)
    .ok (a == b, regs)
  | .expression, .expression => do .ok (← compareNat view.expression leftAddr rightAddr, regs)
  | .external, .external => do .ok (← compareNat view.external leftAddr rightAddr, regs)
  | .symbol, .symbol => do .ok (← compareNat view.symbol leftAddr rightAddr, regs)
  | .char, .char => do .ok (← compareNat view.char leftAddr rightAddr, regs)
  | .byte, .byte => do .ok (← compareNat view.byte leftAddr rightAddr, regs)
  | .number, .number => do
    let a ← fetch (view.number leftAddr)
    let b ← fetch (view.number rightAddr)
    .ok (Number.numEq fo a b, regs)
  | .char, .charList => do .ok (← compareListToPrimitive view.chars view.char rightAddr leftAddr, regs)
  | .charList, .char => do .ok (← compareListToPrimitive view.chars view.char leftAddr rightAddr, regs)
  | .byte, .byteList => do .ok (← compareListToPrimitive view.bytes view.byte rightAddr leftAddr, regs)
  | .byteList, .byte => do .ok (← compareListToPrimitive view.bytes view.byte leftAddr rightAddr, regs)
  | .charList, .charList => do
    let iter1 ← fetch (view.chars leftAddr)
    let iter2 ← fetch (view.chars rightAddr)
    .ok (← compareIndexIteratorValues (· == ·) iter1 iter2, regs)
  | .byteList, .byteList => do
    let iter1 ← fetch (view.bytes leftAddr)
    let iter2 ← fetch (view.bytes rightAddr)
    .ok (← compareIndexIteratorValues (· == ·) iter1 iter2, regs)
  | .symbolList, .symbolList => do
    let iter1 ← fetch (view.symList leftAddr)
    let iter2 ← fetch (view.symList rightAddr)
    .ok (← compareIndexIteratorValues (symPartEq fo) iter1 iter2, regs)
  | .range, .range => do
    let (start1, end1) ← fetch (view.range leftAddr)
    let (start2, end2) ← fetch (view.range rightAddr)
    let startEqual ← rangeEndEqual fo view start1 start2
    let endEqual ← rangeEndEqual fo view end1 end2
    .ok (startEqual && endEqual, regs)
  | .pair, .pair => do
    let (left1, right1) ← fetch (view.pair leftAddr)
    let (left2, right2) ← fetch (view.pair rightAddr)
    .ok (true, right2 :: right1 :: left2 :: left1 :: regs)
  | .concatenation, .concatenation => do
    let iter1 ← fetch (view.concatItems leftAddr)
    let iter2 ← fetch (view.concatItems rightAddr)
    pushIteratorValues regs iter1 iter2
  | .list, .list => do
    let iter1 ← fetch (view.listItems leftAddr)
    let iter2 ← fetch (view.listItems rightAddr)
    pushIteratorValues regs iter1 iter2
  | .list, .concatenation => do
    let iter1 ← fetch (view.listItems leftAddr)
    let iter2 ← fetch (view.concatItems rightAddr)
    pushIteratorValues regs iter1 iter2
  | .concatenation, .list => do
    let iter1 ← fetch (view.concatItems leftAddr)
    let iter2 ← fetch (view.listItems rightAddr)
    pushIteratorValues regs iter1 iter2
  | .slice, .charList | .charList, .slice | .slice, .byteList | .byteList, .slice
  | .slice, .symbolList | .symbolList, .slice | .list, .slice | .slice, .list
  | .concatenation, .slice | .slice, .concatenation | .slice, .slice => .err .unsupported
  | _, _ => .ok (false, regs)

/-- the clean-up loop `while register_len > start { pop_register()? }` -/
def popTo (start : Nat) : List Nat → List Nat
  | [] => []
  | x :: xs => if (x :: xs).length > start then popTo start xs else x :: xs

/-- the main loop of `perform_equality_check` (`start` = register length below the two operands) -/
def eqLoop (fo : FloatOps F) (view : StoreView F) (start : Nat) : Nat → List Nat → Outcome (Bool × List Nat)
  | 0, _ => .fuelOut
  | fuel + 1, regs =>
    if regs.length > start then
      -- next_two_raw_ref: (right, left) = (first pop, second pop)
      match regs with
      | right :: left :: regs' => do
        let (eq, regs'') ← dataEqual fo view regs' left right
        if !eq then
          -- ending early: remove any remaining values from registers
          .ok (false, popTo start regs'')
        else
          eqLoop fo view start fuel regs''
      | _ => .err .state
    else
      .ok (true, regs)

/-- `perform_equality_check`: verdict and the register stack afterwards -/
def performEqualityCheck (fo : FloatOps F) (fuel : Nat) (view : StoreView F) (regs : List Nat) :
    Outcome (Bool × List Nat) :=
  if regs.length < 2 then .err .state
  else eqLoop fo view (regs.length - 2) fuel regs

/-- `equal`: the boolean handed to `push_boolean` and the registers before that push -/
def equal (fo : FloatOps F) (fuel : Nat) (view : StoreView F) (regs : List Nat) : Outcome (Bool × List Nat) := do
  let (eq, regs') ← performEqualityCheck fo fuel view regs
  .ok (eq, regs')

/-- `not_equal` -/
def notEqual (fo : FloatOps F) (fuel : Nat) (view : StoreView F) (regs : List Nat) : Outcome (Bool × List Nat) := do
  let (eq, regs') ← performEqualityCheck fo fuel view regs
  .ok (!eq, regs')

/-! ### decoding: which value an address denotes -/

/-- what `get_concatenation_iter` yields for ONE operand of a concatenation, stated on addresses: a list
contributes its items, a concatenation recurses left then right, anything else is itself -/
inductive FlatOf (view : StoreView F) : Nat → List Nat → Prop
  | list {a items} : view.typeOf a = some .list → view.listItems a = some items → FlatOf view a items
  | concat {a l r il ir} : view.typeOf a = some .concatenation → view.concatenation a = some (l, r) →
      FlatOf view l il → FlatOf view r ir → FlatOf view a (il ++ ir)
  | other {a t} : view.typeOf a = some t → t ≠ .list → t ≠ .concatenation → FlatOf view a [a]

mutual
/-- address `a` denotes the value `v`. Sharing and equal values at different addresses are just different
addresses decoding to equal `Val`s; nothing relates the numeric order of addresses to the structure. -/
inductive Decodes (view : StoreView F) : Nat → Val F → Prop
  | unit {a} : view.typeOf a = some .unit → Decodes view a .unit
  | tru {a} : view.typeOf a = some .true → Decodes view a .tru
  | fls {a} : view.typeOf a = some .false → Decodes view a .fls
  | num {a n} : view.typeOf a = some .number → view.number a = some n → Decodes view a (.num n)
  | char {a c} : view.typeOf a = some .char → view.char a = some c → Decodes view a (.char c)
  | byte {a b} : view.typeOf a = some .byte → view.byte a = some b → Decodes view a (.byte b)
  | sym {a s} : view.typeOf a = some .symbol → view.symbol a = some s → Decodes view a (.sym s)
  | expr {a j} : view.typeOf a = some .expression → view.expression a = some j → Decodes view a (.expr j)
  | ext {a n} : view.typeOf a = some .external → view.external a = some n → Decodes view a (.ext n)
  | type {a t} : view.typeOf a = some .type_ → view.type_ a = some t → Decodes view a (.type t)
  | chars {a cs} : view.typeOf a = some .charList → view.chars a = some cs → Decodes view a (.chars cs)
  | bytes {a bs} : view.typeOf a = some .byteList → view.bytes a = some bs → Decodes view a (.bytes bs)
  | symList {a ps} : view.typeOf a = some .symbolList → view.symList a = some ps → Decodes view a (.symList ps)
  | pair {a l r vl vr} : view.typeOf a = some .pair → view.pair a = some (l, r) →
      Decodes view l vl → Decodes view r vr → Decodes view a (.pair vl vr)
  | list {a items vs} : view.typeOf a = some .list → view.listItems a = some items →
      DecodesList view items vs → Decodes view a (.list vs)
  /-- the concatenation iterator yields the flattened operands (`FlatOf`) -/
  | concat {a l r vl vr il ir} : view.typeOf a = some .concatenation → view.concatenation a = some (l, r) →
      Decodes view l vl → Decodes view r vr → FlatOf view l il → FlatOf view r ir →
      view.concatItems a = some (il ++ ir) → Decodes view a (.concat vl vr)
  | range {a s e vs ve} : view.typeOf a = some .range → view.range a = some (s, e) →
      Decodes view s vs → Decodes view e ve → Decodes view a (.range vs ve)
  | slice {a v r vv vr} : view.typeOf a = some .slice → view.slice a = some (v, r) →
      Decodes view v vv → Decodes view r vr → Decodes view a (.slice vv vr)
  | part {a f x vf vx} : view.typeOf a = some .partial_ → view.partial_ a = some (f, x) →
      Decodes view f vf → Decodes view x vx → Decodes view a (.part vf vx)
  | custom {a} : view.typeOf a = some .custom → Decodes view a .custom
inductive DecodesList (view : StoreView F) : List Nat → List (Val F) → Prop
  | nil : DecodesList view [] []
  | cons {a as v vs} : Decodes view a v → DecodesList view as vs → DecodesList view (a :: as) (v :: vs)
end

mutual
/-- no slice at any position `data_equal` can reach (components of pairs, items of lists, operands of
concatenations). Range end points and partial applications are never descended into. -/
def noSlice : Val F → Bool
  | .slice _ _ => false
  | .pair l r => noSlice l && noSlice r
  | .list items => noSliceList items
  | .concat l r => noSlice l && noSlice r
  | _ => true
def noSliceList : List (Val F) → Bool
  | [] => true
  | x :: xs => noSlice x && noSliceList xs
end

def NoSlice (v : Val F) : Prop := noSlice v = true

mutual
/-- size of a value as seen by the work-list (leaves, ranges and partials count 1) -/
def vsize : Val F → Nat
  | .pair l r => 1 + vsize l + vsize r
  | .list items => 1 + vsizeList items
  | .concat l r => 1 + vsize l + vsize r
  | _ => 1
def vsizeList : List (Val F) → Nat
  | [] => 0
  | x :: xs => vsize x + vsizeList xs
end

/-- fuel that always suffices for comparing `vl` with `vr` -/
def eqFuel (vl vr : Val F) : Nat := vsize vl + vsize vr + 1

end Garnish.Model.Equality
