/-
Outcome of a model function that mirrors Rust code which can return Err, panic or loop.
`panic` and `fuelOut` are explicit so that "no panic / terminates" are theorems, not conventions.
-/
namespace Garnish

/-- error classes (messages are not modelled) -/
inductive ErrClass where
  | syntax | implementation | state | data | unsupported | number | other
deriving DecidableEq, Repr, Inhabited

def ErrClass.name : ErrClass → String
  | .syntax => "syntax" | .implementation => "implementation" | .state => "state" | .data => "data"
  | .unsupported => "unsupported" | .number => "number" | .other => "other"

inductive Outcome (α : Type) where
  | ok (a : α)
  | err (e : ErrClass)
  | panic (site : String)
  | fuelOut
deriving Repr

namespace Outcome
@[inline] def bind {α β} (x : Outcome α) (f : α → Outcome β) : Outcome β :=
  match x with
  | .ok a => f a
  | .err e => .err e
  | .panic s => .panic s
  | .fuelOut => .fuelOut

instance : Monad Outcome where
  pure := .ok
  bind := bind

def isOk {α} : Outcome α → Bool
  | .ok _ => true
  | _ => false

def ofOption {α} (e : ErrClass) : Option α → Outcome α
  | some a => .ok a
  | none => .err e
end Outcome

end Garnish
