/-
Lexer tokens → parser tokens: what `parse(&lex(input)?)` hands over.  The parser model's token (`PToken`) is the lexer
model's token (`LexerToken`) with the same text and type; `row` / `col` are not looked at by `parse` or `build`, and the
development uses `col` to carry the POSITION of the token in the list (the harness' `!tokidx` mode, `Spec.NumberedFrom`),
which is what the tree / reference-parser statements refer to.
-/
import Garnish.Model.Lexer
import Garnish.Model.Parser
namespace Garnish.Model
open Garnish.Model.Lexer Garnish.Model.Parser

/-- token `i` of the list becomes the parser token with position `k + i` -/
def toPFrom : Nat → List LexerToken → List PToken
  | _, [] => []
  | k, t :: rest => { text := t.text, type := t.tokenType, row := 0, col := k } :: toPFrom (k + 1) rest

/-- the parser's input for a lexed source -/
def toP (toks : List LexerToken) : List PToken := toPFrom 0 toks

end Garnish.Model
