/-
The constructors of `SimpleGarnishData` (data/src/runtime.rs `add_*`, `merge_to_symbol_list`, `start_list` /
`add_to_list` / `end_list`; data/src/simple.rs `add`, `add_string`, `add_u8_vec`, `add_symbol_list`, `add_custom`,
`add_stack_frame`, `add_plain_list_from`) in the vocabulary of the accessor model (Model/AccessSimple.lean): what each
of them does to the `SimpleDataList`.

* `add_unit` / `add_false` / `add_true` return the preallocated addresses 0 / 1 / 2 and push nothing.
* constants go through `cache_add`: a hit returns the address of a stored cell and leaves the list unchanged, a miss
  pushes.  Which of the two happens depends on the 64-bit hash (Store/SimpleCache.lean models that for C15); here the
  decision is a PARAMETER `hit`, so everything proved holds for the code before and after the comparison-on-hit fix
  and for any hasher.
* everything else pushes one cell.
An integer handed to `add_number` is a `SimpleNumber::Integer(i32)`: the operation carries an `Int32`.
Not modelled: the register / value / frame stacks and instruction lists (separate `Vec`s that no data accessor reads),
`end_list`'s `Err("Could not place associative value")` and every other `Err` (an `Err` leaves the list unchanged, so
every statement about reachable lists covers the list after a failed call).
-/
import Garnish.Model.AccessSimple
namespace Garnish.Access.Simple
open Garnish Garnish.Access
open Garnish.Gen (Ty)

/-- `SimpleDataList::default()`: Unit, False, True -/
def SData.seed : SData := #[.leaf .unit, .leaf .false, .leaf .true]

/-- `cache_add(value)`: `hit` decides whether a stored cell answers for `value` -/
def intern (hit : SData → SCell → Option Nat) (d : SData) (c : SCell) : SData × Nat :=
  match hit d c with
  | some a => (d, a)
  | none => (d.push c, d.size)

def pushCell (d : SData) (c : SCell) : SData × Nat := (d.push c, d.size)

/-- one constructor call -/
inductive SOp where
  | unit | tru | fls
  | number (v : Int32) | float
  | leafConst (t : Ty)                              -- add_type / add_char / add_byte / add_expression / add_external
  | symbol (s : Nat)
  | charsInterned (cs : List Nat) | bytesInterned (bs : List Nat)     -- end_char_list / end_byte_list / parse_add_*
  | chars (cs : List Nat) | bytes (bs : List Nat) | syms (ss : List Nat)   -- add_string / add_u8_vec / add_symbol_list
  | pair (l r : Nat) | range (s e : Nat) | slice (v r : Nat) | concat (l r : Nat) | partial_ (l r : Nat)
  | mergeSymbolList (a b : Nat)
  | list (items : List Nat)                         -- start_list; add_to_list …; end_list
  | listInterned (items : List Nat)                 -- add_plain_list_from
  | custom | stackFrame
deriving Repr

/-- the longest list the call hands over -/
def SOp.listLen : SOp → Nat
  | .list items | .listInterned items => items.length
  | _ => 0

def step (hit : SData → SCell → Option Nat) (d : SData) : SOp → Outcome (SData × Nat)
  | .unit => .ok (d, 0)
  | .tru => .ok (d, 2)
  | .fls => .ok (d, 1)
  | .number v => .ok (intern hit d (.int v.toInt))
  | .float => .ok (intern hit d .float)
  | .leafConst t => .ok (intern hit d (.leaf t))
  | .symbol s => .ok (intern hit d (.symbol s))
  | .charsInterned cs => .ok (intern hit d (.chars cs))
  | .bytesInterned bs => .ok (intern hit d (.bytes bs))
  | .chars cs => .ok (pushCell d (.chars cs))
  | .bytes bs => .ok (pushCell d (.bytes bs))
  | .syms ss => .ok (pushCell d (.syms ss))
  | .pair l r => .ok (pushCell d (.pair l r))
  | .range s e => .ok (pushCell d (.range s e))
  | .slice v r => .ok (pushCell d (.slice v r))
  | .concat l r => .ok (pushCell d (.concat l r))
  | .partial_ _ _ => .ok (pushCell d (.leaf .partial_))
  | .mergeSymbolList a b =>
    match d[a]?, d[b]? with
    | some (.symbol s1), some (.symbol s2) => .ok (pushCell d (.syms [s1, s2]))
    | some (.syms l1), some (.syms l2) => .ok (pushCell d (.syms (l1 ++ l2)))
    | some (.syms l), some (.symbol s) => .ok (pushCell d (.syms (l ++ [s])))
    | some (.symbol s), some (.syms l) => .ok (pushCell d (.syms (s :: l)))
    | _, _ => .err .data
  | .list items => .ok (pushCell d (.list items))
  | .listInterned items => .ok (intern hit d (.list items))
  | .custom => .ok (pushCell d (.leaf .custom))
  | .stackFrame => .ok (pushCell d (.leaf .custom))

/-- a history of constructor calls; a call that answers `Err` leaves the list as it is and the history goes on -/
def run (hit : SData → SCell → Option Nat) : List SOp → SData → SData
  | [], d => d
  | op :: ops, d =>
    match step hit d op with
    | .ok (d1, _) => run hit ops d1
    | _ => run hit ops d

end Garnish.Access.Simple
