/-
L2 code model of the index arithmetic the runtime performs on `Data::Number` before it calls the data object
(property C07): runtime/src/runtime/range.rs (`range_len`), utilities.rs (`get_range`), list.rs
(`access_with_integer`, `index_list`, `index_char_list`, `index_byte_list`, `index_symbol_list`,
`index_concatenation_for`, the slice arm of `access_with_symbol`) and traits/src/helpers/concatenation.rs
(`iterate_concatenation_mut`), generic over the data object exactly as the code is (`Iface` = the part of the
`GarnishData` trait these functions call; instantiated by the two store models below).

Numbers at this level are `i32` (`Int` + `InRange`): `plus` / `subtract` / `increment` are the checked operations of
`GarnishNumber` (`None` on overflow) followed by `.or_num_err()?`, i.e. `Err(Number error)` — never a panic.
`DataFactory::size_to_number(n)` is `n as i32`, the truncating cast (`sizeToNumber`).  Float operands are outside this
model (the value-level model `Abs/Ops.lean` and the OP suite cover them).
-/
import Garnish.Model.Access
import Garnish.Model.AccessSimple
namespace Garnish.Access.Runtime
open Garnish Garnish.Access
open Garnish.Gen (Ty)

/-- the `GarnishData` functions the access code calls -/
structure Iface where
  typeOf : Nat → Outcome Ty
  getPair : Nat → Outcome (Nat × Nat)
  getRange : Nat → Outcome (Nat × Nat)
  getSlice : Nat → Outcome (Nat × Nat)
  getConcat : Nat → Outcome (Nat × Nat)
  /-- `get_number`, integer variant (a float is outside this model: `err other`) -/
  getNumber : Nat → Outcome Int
  getSymbol : Nat → Outcome Nat
  listLen : Nat → Outcome Nat
  listItem : Nat → Num → Outcome (Option Nat)
  charLen : Nat → Outcome Nat
  charItem : Nat → Num → Outcome (Option Nat)
  byteLen : Nat → Outcome Nat
  byteItem : Nat → Num → Outcome (Option Nat)
  symLen : Nat → Outcome Nat
  symItem : Nat → Num → Outcome (Option Part)

/-! ### checked `i32` arithmetic followed by `.or_num_err()?` -/

def numPlus (a b : Int) : Outcome Int := if InRange (a + b) then .ok (a + b) else .err .number
def numSub (a b : Int) : Outcome Int := if InRange (a - b) then .ok (a - b) else .err .number
def numInc (a : Int) : Outcome Int := numPlus a 1

/-- `DataFactory::size_to_number`: `from as i32` -/
def sizeToNumber (n : Nat) : Int := wrap n

/-- `range_len`: `end.subtract(start).or_num_err()?.increment().or_num_err()` -/
def rangeLen (start end_ : Int) : Outcome Int := (numSub end_ start).bind numInc

/-- `get_range` (utilities.rs): both ends must be numbers (else a state error), result `(start, end, range_len)` -/
def getRangeNums (d : Iface) (addr : Nat) : Outcome (Int × Int × Int) :=
  (d.getRange addr).bind fun p =>
  (d.typeOf p.1).bind fun ts => (d.typeOf p.2).bind fun te =>
  match ts, te with
  | .number, .number =>
    (d.getNumber p.1).bind fun s => (d.getNumber p.2).bind fun e => (rangeLen s e).bind fun len => .ok (s, e, len)
  | _, _ => .err .state

/-- what an access hands back: nothing, an existing address, or a value it adds to the data object -/
inductive Res where
  | none
  | addr (a : Nat)
  | unit
  | char (c : Nat)
  | byte (b : Nat)
  | sym (s : Nat)
  | num (payload : Nat)
  | int (v : Int)
deriving DecidableEq, Repr, Inhabited

/-- `index_list`: `index < 0 || index >= size_to_number(get_list_len(list)?)` is no item -/
def indexList (d : Iface) (list : Nat) (ix : Int) : Outcome Res :=
  if ix < 0 then .ok .none else
  (d.listLen list).bind fun len =>
  if ix ≥ sizeToNumber len then .ok .none else
  (d.listItem list (.int ix)).bind fun r =>
  match r with
  | some a => .ok (.addr a)
  | none => .ok .unit

def indexCharList (d : Iface) (list : Nat) (ix : Int) : Outcome Res :=
  if ix < 0 then .ok .none else
  (d.charLen list).bind fun len =>
  if ix ≥ sizeToNumber len then .ok .none else
  (d.charItem list (.int ix)).bind fun r =>
  match r with
  | some c => .ok (.char c)
  | none => .ok .unit

def indexByteList (d : Iface) (list : Nat) (ix : Int) : Outcome Res :=
  if ix < 0 then .ok .none else
  (d.byteLen list).bind fun len =>
  if ix ≥ sizeToNumber len then .ok .none else
  (d.byteItem list (.int ix)).bind fun r =>
  match r with
  | some b => .ok (.byte b)
  | none => .ok .unit

def indexSymbolList (d : Iface) (list : Nat) (ix : Int) : Outcome Res :=
  if ix < 0 then .ok .none else
  (d.symLen list).bind fun len =>
  if ix ≥ sizeToNumber len then .ok .none else
  (d.symItem list (.int ix)).bind fun r =>
  match r with
  | some (.sym s) => .ok (.sym s)
  | some (.num n) => .ok (.num n)
  | none => .ok .unit

/-- `iterate_concatenation_mut`, the `while i < len` over one list, with the check function "`index == target`":
`rem = len - i`.  `get_list_item` saying `None` below the length is the `unimplemented!` of the helper. -/
def listScan (d : Iface) (r : Nat) (index : Nat) (target : Int) : Nat → Nat → Outcome (Option Nat)
  | 0, _ => .ok none
  | rem + 1, i =>
    let sub := sizeToNumber i
    (d.listItem r (.int sub)).bind fun it =>
    match it with
    | none => .panic "traits/helpers/concatenation.rs: unimplemented!(get_list_item returned None)"
    | some item =>
      -- `size_to_number(index).plus(sub_index).ok_or(RuntimeError::new("Number error"))?`
      if InRange (sizeToNumber index + sub) then
        if sizeToNumber index + sub = target then .ok (some item)
        else listScan d r index target rem (i + 1)        -- `i + 1` stays below `len`, a `usize`
      else .err .number

/-- `iterate_concatenation_mut` with the check function of `index_concatenation_for` / the slice arm of
`access_with_integer`; the register stack it borrows is the list `stack` (head = top) -/
def concatFind (d : Iface) (target : Int) : Nat → List Nat → Nat → Outcome Res
  | _, [], _ => .ok .none
  | 0, _ :: _, _ => .fuelOut
  | fuel + 1, r :: stack, index =>
    (d.typeOf r).bind fun t =>
    match t with
    | .concatenation => (d.getConcat r).bind fun p => concatFind d target fuel (p.1 :: p.2 :: stack) index
    | .list =>
      (d.listLen r).bind fun len =>
      (listScan d r index target len 0).bind fun f =>
      match f with
      | some item => .ok (.addr item)
      | none => (uadd index len).bind fun index' => concatFind d target fuel stack index'
    | _ =>
      if sizeToNumber index = target then .ok (.addr r)
      else (uadd index 1).bind fun index' => concatFind d target fuel stack index'

/-- `index_concatenation_for` -/
def indexConcatenation (d : Iface) (fuel : Nat) (addr : Nat) (ix : Int) : Outcome Res :=
  (d.getConcat addr).bind fun p => concatFind d ix fuel [p.1, p.2] 0

/-- `access_with_integer` -/
def accessWithInteger (d : Iface) (fuel : Nat) (ix : Int) (value : Nat) : Outcome Res :=
  (d.typeOf value).bind fun t =>
  match t with
  | .pair =>
    if ix = 0 then
      (d.getPair value).bind fun p => (d.typeOf p.1).bind fun tl =>
      match tl with
      | .symbol => .ok (.addr value)
      | _ => .ok .none
    else .ok .none
  | .list => indexList d value ix
  | .charList => indexCharList d value ix
  | .byteList => indexByteList d value ix
  | .symbolList => indexSymbolList d value ix
  | .range =>
    (d.getRange value).bind fun p =>
    (d.typeOf p.1).bind fun ts => (d.typeOf p.2).bind fun te =>
    match ts, te with
    | .number, .number =>
      (d.getNumber p.1).bind fun s => (d.getNumber p.2).bind fun e =>
      (rangeLen s e).bind fun len =>
      if ix ≥ len then .ok .none
      else (numPlus s ix).bind fun r => .ok (.int r)
    | _, _ => .ok .none
  | .slice =>
    (d.getSlice value).bind fun p =>
    (getRangeNums d p.2).bind fun r =>
    (numPlus r.1 ix).bind fun adjusted =>
    (d.typeOf p.1).bind fun tv =>
    match tv with
    | .list => indexList d p.1 adjusted
    | .charList => indexCharList d p.1 adjusted
    | .byteList => indexByteList d p.1 adjusted
    | .concatenation => indexConcatenation d fuel p.1 adjusted
    | _ => .err .state
  | .concatenation => indexConcatenation d fuel value ix
  | _ => .err .unsupported

/-! ### `access_with_symbol`, slice-of-a-list arm -/

/-- the `match` inside the loop: the value of an item that is a pair keyed by `sym` -/
def keyedValue (d : Iface) (addr sym : Nat) : Outcome (Option Nat) :=
  (d.typeOf addr).bind fun t =>
  match t with
  | .pair =>
    (d.getPair addr).bind fun p => (d.typeOf p.1).bind fun tl =>
    match tl with
    | .symbol => (d.getSymbol p.1).bind fun s => .ok (if s = sym then some p.2 else none)
    | _ => .ok none
  | _ => .ok none

/-- the body of the scan for one item: a pair keyed by `sym` replaces what was found so far -/
def scanItem (d : Iface) (sym : Nat) (item : Option Nat) : Option Nat → Outcome (Option Nat)
  | some addr => (keyedValue d addr sym).bind fun kv => .ok (match kv with | some r => some r | none => item)
  | none => .ok item

/-- `while i <= end { get_list_item(value, i)?; …; i = i.increment().or_num_err()? }`; one unit of `fuel` per iteration -/
def sliceScan (d : Iface) (value sym : Nat) (end_ : Int) : Nat → Int → Option Nat → Outcome (Option Nat)
  | 0, i, item => if i ≤ end_ then .fuelOut else .ok item
  | fuel + 1, i, item =>
    if i ≤ end_ then
      (d.listItem value (.int i)).bind fun li =>
      (scanItem d sym item li).bind fun item' =>
      (numInc i).bind fun i' => sliceScan d value sym end_ fuel i' item'
    else .ok item

/-- `let end = if end >= length { length.subtract(one).or_num_err()? } else { end };` -/
def clampEnd (end_ length : Int) : Outcome Int := if end_ ≥ length then numSub length 1 else .ok end_

/-- number of iterations of the scan: one per index from `start` to the clamped end (2·10⁹ for `start` near `i32::MIN`:
the slow single step recorded next to F-C07-range-cast-unbounded) -/
def sliceScanSteps (start end_ : Int) : Nat := (end_ - start + 1).toNat

/-- `access_with_symbol`, `Slice` arm, `List` case -/
def accessSliceListSymbol (d : Iface) (value range sym : Nat) : Outcome (Option Nat) :=
  (getRangeNums d range).bind fun r =>
  (d.listLen value).bind fun len =>
  (clampEnd r.2.1 (sizeToNumber len)).bind fun e =>
  sliceScan d value sym e (sliceScanSteps r.1 e) r.1 none

/-! ### the two data objects behind the interface -/

/-- `BasicData::get_data_type` -/
def cellType : BasicOpt.Cell → Ty
  | .unit => .unit | .tru => .true | .fls => .false | .type _ => .type_ | .number _ => .number
  | .char _ => .char | .byte _ => .byte | .symbol _ => .symbol | .symbolList _ => .symbolList
  | .expression _ => .expression | .external _ => .external | .charList _ => .charList | .byteList _ => .byteList
  | .pair _ _ => .pair | .range _ _ => .range | .slice _ _ => .slice | .partial_ _ _ => .partial_
  | .list _ _ => .list | .concatenation _ _ => .concatenation | .custom => .custom
  | _ => .invalid

/-- `BasicGarnishData`; `intOf` reads the opaque payload of a `Number` cell (`none` = a float) -/
def basicIface (h : Heap) (intOf : Nat → Option Int) : Iface where
  typeOf a := (h.getData a).bind fun c => .ok (cellType c)
  getPair a := (h.getData a).bind fun c => match c with | .pair l r => .ok (l, r) | _ => .err .data
  getRange a := (h.getData a).bind fun c => match c with | .range l r => .ok (l, r) | _ => .err .data
  getSlice a := (h.getData a).bind fun c => match c with | .slice l r => .ok (l, r) | _ => .err .data
  getConcat a := (h.getData a).bind fun c => match c with | .concatenation l r => .ok (l, r) | _ => .err .data
  getNumber a := (h.getData a).bind fun c => match c with
    | .number n => (match intOf n with | some v => .ok v | none => .err .other)
    | _ => .err .data
  getSymbol a := (h.getData a).bind fun c => match c with | .symbol s => .ok s | _ => .err .data
  listLen := getListLen h
  listItem := getListItem h
  charLen := getCharListLen h
  charItem := getCharListItem h
  byteLen := getByteListLen h
  byteItem := getByteListItem h
  symLen := getSymbolListLen h
  symItem := getSymbolListItem h

open Simple in
/-- `SimpleData::get_data_type` -/
def scellType : SCell → Ty
  | .leaf t => t | .symbol _ => .symbol | .int _ => .number | .float => .number | .chars _ => .charList
  | .bytes _ => .byteList | .syms _ => .symbolList | .pair _ _ => .pair | .range _ _ => .range
  | .slice _ _ => .slice | .concat _ _ => .concatenation | .list _ => .list

open Simple in
/-- `SimpleGarnishData` (its symbol lists hold symbols only) -/
def simpleIface (d : SData) : Iface where
  typeOf a := (get d a).bind fun c => .ok (scellType c)
  getPair a := (get d a).bind fun c => match c with | .pair l r => .ok (l, r) | _ => .err .data
  getRange a := (get d a).bind fun c => match c with | .range l r => .ok (l, r) | _ => .err .data
  getSlice a := (get d a).bind fun c => match c with | .slice l r => .ok (l, r) | _ => .err .data
  getConcat a := (get d a).bind fun c => match c with | .concat l r => .ok (l, r) | _ => .err .data
  getNumber a := (get d a).bind fun c => match c with | .int v => .ok v | .float => .err .other | _ => .err .data
  getSymbol a := (get d a).bind fun c => match c with | .symbol s => .ok s | _ => .err .data
  listLen := Simple.getListLen d
  listItem := Simple.getListItem d
  charLen := Simple.getCharListLen d
  charItem := Simple.getCharListItem d
  byteLen := Simple.getByteListLen d
  byteItem := Simple.getByteListItem d
  symLen := Simple.getSymbolListLen d
  symItem a ix := (Simple.getSymbolListItem d a ix).bind fun r => .ok (r.map Part.sym)

end Garnish.Access.Runtime
