/-
Executable model of /repo/compiler/src/parse/parser.rs (non-test code, lines 1–1312):
a statement-by-statement transliteration.  Bugs of the Rust code are reproduced, not repaired
(cyclic node structures, `right` links that point past the node array, ...).

Conventions
* `usize` = `Nat`, `Option<usize>` = `Option Nat`, `Vec<ParseNode>` = `Array ParseNode`.
* every table lookup (`get_definition`, priority map, `check_composition`, `is_*`) uses the tables that
  tools/gen/parse_tables.py regenerates from the Rust source (Garnish/Gen/ParseTables.lean).
* error propagation (`?`) is `Outcome.bind`.
* `Outcome.err .syntax` = the Rust `Err` whose message starts with "Syntax Error", `Outcome.err .implementation` =
  "Implementation Error".  Error messages / positions are not modelled.
* `Vec::get` / `get_mut` are `a[i]?` / `setNode?` (the Rust handles the `None` arm explicitly everywhere);
  the only slice (`&tokens[start..end]` in `trim_tokens`) and the only `usize` subtractions are modelled with
  explicit `Outcome.panic` results.
* the two parent walks are bounded in the Rust by `count > nodes.len()`; the model runs them with
  fuel `nodes.size + 1` and the same counter.  `Outcome.fuelOut` is returned only if the fuel is exhausted before
  the Rust cap fires (never: see Garnish/Lemmas/Parser.lean).
-/
import Garnish.Gen.ParseTables
import Garnish.Model.Outcome

namespace Garnish.Model.Parser
open Garnish Garnish.Gen

/-- `LexerToken` -/
structure PToken where
  text : List Char
  type : TokenType
  row : Nat
  col : Nat
deriving Repr, DecidableEq, Inhabited

/-- `LexerToken::empty()` -/
def PToken.empty : PToken := { text := [], type := .unknown, row := 0, col := 0 }

/-- `ParseNode` -/
structure ParseNode where
  definition : Definition
  secondaryDefinition : SecDef
  parent : Option Nat
  left : Option Nat
  right : Option Nat
  lexToken : PToken
deriving Repr, DecidableEq, Inhabited

/-- `ParseResult` -/
structure ParseResult where
  root : Nat
  nodes : Array ParseNode
deriving Repr, DecidableEq

/-- `implementation_error(..)` / `implementation_error_with_token(..)` -/
def implErr {α : Type} : Outcome α := .err .implementation
/-- `composition_error`, `unmatched_grouping_error`, `unclosed_grouping_error`, "Syntax Error: Expected .." -/
def syntaxErr {α : Type} : Outcome α := .err .syntax

/-- `match nodes.get_mut(i) { None => .., Some(n) => *n = f(*n) }`: `none` is the `None` arm -/
def modifyNode? (nodes : Array ParseNode) (i : Nat) (f : ParseNode → ParseNode) : Option (Array ParseNode) :=
  if h : i < nodes.size then some (nodes.set i (f nodes[i]) h) else none

/-- the 4-tuple `(Definition, Option<usize>, Option<usize>, Option<usize>)` returned by the `parse_*` helpers -/
structure Info where
  definition : Definition
  parent : Option Nat
  left : Option Nat
  right : Option Nat
deriving Repr, DecidableEq

/-! ### `parse_token` (parser.rs 466–596) -/

/-- the `while let Some(left_index) = current_left` loop of `parse_token` (lines 491–539).
    Returns `(true_left, parent)`. `count` is the Rust counter, `fuel` only makes the recursion structural. -/
def walkLoop (nodes : Array ParseNode) (myPriority : Nat) (underGroup : Option Nat) (rightToLeft : Bool) :
    (fuel : Nat) → (count : Nat) → (trueLeft : Option Nat) → (currentLeft : Option Nat) → Outcome (Option Nat × Option Nat)
  | fuel, count, trueLeft, currentLeft =>
    match currentLeft with
    | none => .ok (trueLeft, none)
    | some leftIndex =>
      match fuel with
      | 0 => .fuelOut
      | fuel + 1 =>
        match nodes[leftIndex]? with
        | none => implErr
        | some n =>
          match priority n.definition with
          | none => implErr
          | some theirPriority =>
            let isOurGroup := n.definition.isGroupLike &&
              (match underGroup with
               | none => false
               | some groupIndex => groupIndex == leftIndex)
            let stop := decide (myPriority < theirPriority) || (myPriority == theirPriority && rightToLeft)
            if stop || isOurGroup then
              -- parent = Some(left_index); break
              .ok (trueLeft, some leftIndex)
            else
              -- true_left = Some(left_index); current_left = n.parent
              let count := count + 1
              if count > nodes.size then implErr
              else walkLoop nodes myPriority underGroup rightToLeft fuel count (some leftIndex) n.parent

/-- `parse_token`; returns the updated node vector and the info tuple.
    (`*check_for_list = false` is done by the callers through `PState`, see `parseTokenSt`.) -/
def parseToken (id : Nat) (definition : Definition) (left right : Option Nat) (nodes : Array ParseNode)
    (underGroup : Option Nat) (rightToLeft : Bool) : Outcome (Array ParseNode × Info) :=
  match priority definition with
  | none => implErr
  | some myPriority =>
    Outcome.bind (walkLoop nodes myPriority underGroup rightToLeft (nodes.size + 1) 0 left left) fun (trueLeft, parent) =>
      -- if parent == true_left { true_left = None }
      let trueLeft := if parent == trueLeft then none else trueLeft
      -- match true_left { Some(index) => nodes.get_mut(index) .. node.parent = Some(id) }
      let r1 : Outcome (Array ParseNode) :=
        match trueLeft with
        | none => .ok nodes
        | some index =>
          match modifyNode? nodes index (fun node => { node with parent := some id }) with
          | none => implErr
          | some nodes => .ok nodes
      Outcome.bind r1 fun nodes =>
        match parent with
        | none => .ok (nodes, ⟨definition, parent, trueLeft, right⟩)
        | some index =>
          match nodes[index]? with
          | none => implErr
          | some parentNode =>
            let r := parentNode.right
            match modifyNode? nodes index (fun p => { p with right := some id }) with
            | none => implErr
            | some nodes =>
              match r with
              | none => .ok (nodes, ⟨definition, parent, trueLeft, right⟩)
              | some r =>
                -- match nodes.get_mut(r) { None => (), Some(node) => { node.parent = Some(id); true_left = Some(r) } }
                match modifyNode? nodes r (fun node => { node with parent := some id }) with
                | none => .ok (nodes, ⟨definition, parent, trueLeft, right⟩)
                | some nodes => .ok (nodes, ⟨definition, parent, some r, right⟩)

/-! ### parser state: the local mutable variables of `parse` (lines 797–806) -/

structure PState where
  nodes : Array ParseNode
  nextParent : Option Nat
  lastLeft : Option Nat
  checkForList : Bool
  lastToken : PToken
  nextLastLeft : Option Nat
  groupStack : Array (Nat × Bool)
  currentGroup : Option Nat
  previousSecondDef : SecDef
deriving Repr

def PState.init : PState :=
  { nodes := #[], nextParent := none, lastLeft := none, checkForList := false, lastToken := PToken.empty,
    nextLastLeft := none, groupStack := #[], currentGroup := none, previousSecondDef := .none }

/-- `parse_token(.., &mut nodes, .., &mut check_for_list, ..)` on the state: on success the nodes are updated
    and `check_for_list` is cleared (line 593) -/
def parseTokenSt (st : PState) (id : Nat) (definition : Definition) (left right : Option Nat)
    (underGroup : Option Nat) (rightToLeft : Bool) : Outcome (PState × Info) :=
  Outcome.bind (parseToken id definition left right st.nodes underGroup rightToLeft) fun (nodes, info) => .ok ({ st with nodes := nodes, checkForList := false }, info)

/-- `parse_token_left_to_right` -/
def parseTokenLeftToRight (st : PState) (id : Nat) (definition : Definition) (left right : Option Nat)
    (underGroup : Option Nat) : Outcome (PState × Info) :=
  parseTokenSt st id definition left right underGroup false

/-- `parse_token_right_to_left` -/
def parseTokenRightToLeft (st : PState) (id : Nat) (definition : Definition) (left right : Option Nat)
    (underGroup : Option Nat) : Outcome (PState × Info) :=
  parseTokenSt st id definition left right underGroup true

/-- the repeated block "List flag is set, creating list node before current node":
    `parse_token_left_to_right(id, Definition::List, last_left, Some(our_id), ..)?` followed by
    `nodes.push(ParseNode::new(list_info.0, StartGrouping, list_info.1, list_info.2, list_info.3, last_token.clone()))` -/
def pushListNode (st : PState) (id ourId : Nat) (underGroup : Option Nat) : Outcome PState :=
  Outcome.bind (parseTokenLeftToRight st id .list st.lastLeft (some ourId) underGroup) fun (st, listInfo) =>
    let listNode : ParseNode :=
      ⟨listInfo.definition, .startGrouping, listInfo.parent, listInfo.left, listInfo.right, st.lastToken⟩
    .ok { st with nodes := st.nodes.push listNode }

/-- `parse_value_like` (lines 624–669) -/
def parseValueLike (st : PState) (id : Nat) (definition : Definition) (underGroup : Option Nat) :
    Outcome (PState × Info) :=
  if st.checkForList then
    let ourId := id + 1
    Outcome.bind (pushListNode st id ourId underGroup) fun st' =>
      -- our_left = Some(id); *next_last_left = Some(nodes.len())
      let st' := { st' with nextLastLeft := some st'.nodes.size }
      parseTokenLeftToRight st' ourId definition (some id) none underGroup
  else
    parseTokenLeftToRight st id definition st.lastLeft none underGroup

/-- `setup_space_list_check` (lines 671–707); `currentGroup` is the parameter name, the caller passes `under_group` -/
def setupSpaceListCheck (st : PState) (currentGroup : Option Nat) : Outcome (PState × Info) :=
  let r : Outcome PState :=
    match st.lastLeft with
    | none => .ok st
    | some left =>
      match st.nodes[left]? with
      | none => implErr
      | some leftNode =>
        let isValue := leftNode.definition.isValueLike
        let isGroupValue := leftNode.definition.isGroupLike && st.lastLeft != currentGroup
        if isValue || isGroupValue then .ok { st with checkForList := true } else .ok st
  Outcome.bind r fun st => .ok ({ st with nextLastLeft := st.lastLeft }, ⟨.drop, none, none, none⟩)

/-! ### `trim_tokens` (lines 765–791) -/

def isTrimmable (t : PToken) : Bool := t.type == .whitespace || t.type == .subexpression

/-- first loop: `start += 1` while leading tokens are Whitespace / Subexpression -/
def trimStart : List PToken → Nat
  | [] => 0
  | t :: rest => if isTrimmable t then trimStart rest + 1 else 0

/-- second loop over `tokens.iter().rev()`: `end -= 1` (a `usize` subtraction) -/
def trimEnd : (revTokens : List PToken) → (end_ : Nat) → Outcome Nat
  | [], end_ => .ok end_
  | t :: rest, end_ =>
    if isTrimmable t then
      (if end_ = 0 then .panic "trim_tokens: end -= 1 underflow" else trimEnd rest (end_ - 1))
    else .ok end_

def trimTokens (tokens : List PToken) : Outcome (List PToken) :=
  let start := trimStart tokens
  Outcome.bind (trimEnd tokens.reverse tokens.length) fun end_ =>
    if start > end_ then .ok []
    else if end_ > tokens.length then .panic "trim_tokens: &tokens[start..end] out of range"
    else .ok ((tokens.drop start).take (end_ - start))

/-! ### the body of `for (i, token) in trimmed.iter().enumerate()` (lines 814–1262), one function per arm -/

/-- lines 824–830 -/
def underGroupOf (st : PState) : Outcome (Option Nat) :=
  match st.currentGroup with
  | none => .ok none
  | some current =>
    match st.groupStack[current]? with
    | none => implErr
    | some (group, _) => .ok (some group)

/-- lines 836–855: if last left is a finished side effect with a parent, move last left to that parent -/
def adjustLastLeft (st : PState) (underGroup : Option Nat) : Outcome PState :=
  match st.lastLeft with
  | none => .ok st
  | some i =>
    match st.nodes[i]? with
    | none => implErr
    | some node =>
      if node.definition == .sideEffect && st.lastLeft != underGroup && node.parent.isSome then
        let lastLeft := node.parent
        match lastLeft.bind (fun p => st.nodes[p]?) with
        | none => .ok { st with lastLeft := lastLeft }
        | some node' => .ok { st with lastLeft := lastLeft, previousSecondDef := node'.secondaryDefinition }
      else .ok st

/-- arm `SecondaryDefinition::UnaryPrefix` (lines 926–966) -/
def armUnaryPrefix (st : PState) (currentId : Nat) (definition : Definition) (assumedRight underGroup : Option Nat) :
    Outcome (PState × Info) :=
  let parent := st.nextParent
  if st.checkForList then
    let ourId := currentId + 1
    let parent := some currentId
    let right := some (ourId + 1)
    Outcome.bind (pushListNode st currentId ourId underGroup) fun st =>
      let st := { st with nextLastLeft := some st.nodes.size }
      .ok ({ st with nextParent := some ourId }, ⟨definition, parent, none, right⟩)
  else
    .ok ({ st with nextParent := some currentId }, ⟨definition, parent, none, assumedRight⟩)

/-- arm `SecondaryDefinition::StartGrouping` (lines 980–1031) -/
def armStartGrouping (st : PState) (currentId : Nat) (definition : Definition) (assumedRight underGroup : Option Nat) :
    Outcome (PState × Info) :=
  let parent := st.nextParent
  let st := { st with currentGroup := some st.groupStack.size }
  if st.checkForList then
    let ourId := currentId + 1
    Outcome.bind (pushListNode st currentId ourId underGroup) fun st =>
      let parent := some currentId
      let right := some (ourId + 1)
      let st := { st with nextLastLeft := some ourId }
      -- group_stack.push((our_id, check_for_list)); next_parent = Some(our_id)
      let st := { st with groupStack := st.groupStack.push (ourId, st.checkForList), nextParent := some ourId }
      .ok (st, ⟨definition, parent, none, right⟩)
  else
    let st := { st with groupStack := st.groupStack.push (currentId, st.checkForList), nextParent := some currentId }
    .ok (st, ⟨definition, parent, none, assumedRight⟩)

/-- arm `SecondaryDefinition::StartSideEffect` (lines 1032–1055) -/
def armStartSideEffect (st : PState) (currentId : Nat) (definition : Definition) (assumedRight underGroup : Option Nat) :
    Outcome (PState × Info) :=
  let st := { st with nextParent := some currentId }
  let groupInfo := (currentId, st.checkForList)
  Outcome.bind (parseTokenLeftToRight st currentId definition st.lastLeft assumedRight underGroup) fun (st, info) =>
    let st := { st with currentGroup := some st.groupStack.size }
    .ok ({ st with groupStack := st.groupStack.push groupInfo }, info)

/-- lines 1104–1152: "check last left for optional, unset its right if so" and the trailing-subexpression drop -/
def endGroupingFixLastLeft (st : PState) (currentId endedGroup : Nat) : Outcome PState :=
  match st.lastLeft with
  | none => .ok st
  | some left =>
    match st.nodes[left]? with
    | none => implErr
    | some leftNode0 =>
      -- if left_node.definition.is_optional() || left == ended_group { left_node.right = None; }
      let leftNode : ParseNode :=
        if leftNode0.definition.isOptional || left == endedGroup then { leftNode0 with right := none } else leftNode0
      match modifyNode? st.nodes left (fun _ => leftNode) with
      | none => implErr
      | some nodes =>
        if leftNode.definition == .subexpression && leftNode.right == some currentId then
          let newParent := leftNode.parent
          let l := leftNode.left
          match l with
          | none => .ok { st with nodes := nodes }
          | some left2 =>
            match modifyNode? nodes left2 (fun n => { n with parent := newParent }) with
            | none => implErr
            | some nodes =>
              match newParent with
              | none => .ok { st with nodes := nodes }
              | some p =>
                match modifyNode? nodes p (fun n => { n with right := l }) with
                | none => implErr
                | some nodes => .ok { st with nodes := nodes }
        else .ok { st with nodes := nodes }

/-- arm `SecondaryDefinition::EndGrouping | SecondaryDefinition::EndSideEffect` (lines 1056–1155) -/
def armEndGrouping (st : PState) (currentId : Nat) (token : PToken) : Outcome (PState × Info) :=
  -- group_stack.pop()
  match st.groupStack.back? with
  | none => syntaxErr            -- unmatched_grouping_error
  | some (left, needListCheck) =>
    let st := { st with groupStack := st.groupStack.pop }
    match st.nodes[left]? with
    | none => implErr
    | some startGroupNode =>
      let st := { st with nextLastLeft := some left, checkForList := needListCheck }
      let expected : Outcome TokenType :=
        match startGroupNode.definition with
        | .group => .ok .endGroup
        | .nestedExpression => .ok .endExpression
        | .sideEffect => .ok .endSideEffect
        | _ => implErr
      Outcome.bind expected fun expectedToken =>
        if token.type != expectedToken then syntaxErr
        else
          let endedGroup := left
          -- current_group = match group_stack.is_empty() { true => None, false => Some(group_stack.len() - 1) }
          let st := { st with currentGroup := if st.groupStack.isEmpty then none else some (st.groupStack.size - 1) }
          Outcome.bind (endGroupingFixLastLeft st currentId endedGroup) fun st => .ok (st, ⟨.drop, none, none, none⟩)

/-- arm `SecondaryDefinition::Subexpression` (lines 1156–1217) -/
def armSubexpression (st : PState) (currentId : Nat) (definition : Definition) (assumedRight underGroup : Option Nat) :
    Outcome (PState × Info) :=
  let r : Outcome (Definition × Nat) :=
    match st.currentGroup with
    | none => .ok (.drop, 0)
    | some group =>
      match st.groupStack[group]? with
      | none => implErr
      | some (groupIndex, _) =>
        match st.nodes[groupIndex]? with
        | none => implErr
        | some groupNode => .ok (groupNode.definition, groupIndex)
  Outcome.bind r fun (inGroup, groupIndex) =>
    if inGroup == .group then
      setupSpaceListCheck st underGroup
    else
      let rd : Outcome (PState × Bool) :=
        match st.lastLeft with
        | none => .ok (st, false)
        | some left =>
          match st.nodes[left]? with
          | none => implErr
          | some leftNode0 =>
            let leftNode : ParseNode := if leftNode0.definition.isOptional then { leftNode0 with right := none } else leftNode0
            match modifyNode? st.nodes left (fun _ => leftNode) with
            | none => implErr
            | some nodes =>
              let leftIsExpressionStart := inGroup == .nestedExpression && groupIndex == left
              .ok ({ st with nodes := nodes }, leftNode.secondaryDefinition == .subexpression || leftIsExpressionStart)
      Outcome.bind rd fun (st, drop) =>
        if drop then
          .ok ({ st with nextLastLeft := st.lastLeft }, ⟨.drop, none, none, none⟩)
        else
          let st := { st with nextParent := some currentId }
          parseTokenLeftToRight st currentId definition st.lastLeft assumedRight underGroup

/-- the big `match secondary_definition` (lines 877–1218) -/
def dispatch (st : PState) (currentId : Nat) (token : PToken) (definition : Definition) (secondaryDefinition : SecDef)
    (assumedRight underGroup : Option Nat) : Outcome (PState × Info) :=
  match secondaryDefinition with
  | .none => implErr
  | .whitespace => setupSpaceListCheck st underGroup
  | .annotation => .ok ({ st with nextLastLeft := st.lastLeft }, ⟨definition, none, none, none⟩)
  | .identifier | .value => parseValueLike st currentId definition underGroup
  | .binaryRightToLeft =>
    let st := { st with nextParent := some currentId }
    parseTokenRightToLeft st currentId definition st.lastLeft assumedRight underGroup
  | .binaryLeftToRight | .optionalBinaryLeftToRight =>
    let st := { st with nextParent := some currentId }
    parseTokenLeftToRight st currentId definition st.lastLeft assumedRight underGroup
  | .unaryPrefix => armUnaryPrefix st currentId definition assumedRight underGroup
  | .unarySuffix =>
    let st := { st with nextParent := some currentId }
    parseTokenLeftToRight st currentId definition st.lastLeft none underGroup
  | .startGrouping => armStartGrouping st currentId definition assumedRight underGroup
  | .startSideEffect => armStartSideEffect st currentId definition assumedRight underGroup
  | .endGrouping | .endSideEffect => armEndGrouping st currentId token
  | .subexpression => armSubexpression st currentId definition assumedRight underGroup

/-- lines 1225–1240: push the node unless it is `Drop`; an Identifier under an Access parent becomes a Property -/
def pushNode (st : PState) (info : Info) (secondaryDefinition : SecDef) (token : PToken) : PState :=
  if info.definition != .drop then
    let definition :=
      match info.definition with
      | .identifier =>
        match info.parent.bind (fun p => st.nodes[p]?) with
        | none => info.definition
        | some p => if p.definition == .access then .property else info.definition
      | d => d
    let node : ParseNode := ⟨definition, secondaryDefinition, info.parent, info.left, info.right, token⟩
    { st with nodes := st.nodes.push node }
  else st

/-- one iteration of the token loop; `isLast` is `i + 1 >= trimmed.len()` -/
def step (st : PState) (token : PToken) (isLast : Bool) : Outcome PState :=
  let currentId := st.nodes.size
  Outcome.bind (underGroupOf st) fun underGroup =>
    Outcome.bind (adjustLastLeft st underGroup) fun st =>
      let assumedRight := if isLast then none else some (currentId + 1)
      let (definition, secondaryDefinition) := getDefinition token.type
      if !checkComposition st.previousSecondDef secondaryDefinition st.checkForList then syntaxErr
      else
        let st := { st with previousSecondDef := secondaryDefinition }
        Outcome.bind (dispatch st currentId token definition secondaryDefinition assumedRight underGroup) fun (st, info) =>
          let st := pushNode st info secondaryDefinition token
          -- lines 1242–1251
          let st :=
            match st.nextLastLeft with
            | some i => { st with nextLastLeft := none, lastLeft := some i }
            | none => { st with lastLeft := if st.nodes.size == 0 then none else some currentId }
          .ok { st with lastToken := token }

/-- the `for` loop: structural recursion over the trimmed token list -/
def loop (st : PState) : List PToken → Outcome PState
  | [] => .ok st
  | token :: rest =>
    Outcome.bind (step st token rest.isEmpty) fun st => loop st rest

/-- the `while !node.parent.is_none()` loop that finds the root (lines 1290–1308) -/
def rootLoop (nodes : Array ParseNode) : (fuel : Nat) → (count : Nat) → (root : Nat) → (node : ParseNode) → Outcome Nat
  | fuel, count, root, node =>
    match node.parent with
    | none => .ok root
    | some i =>
      match fuel with
      | 0 => .fuelOut
      | fuel + 1 =>
        match nodes[i]? with
        | none => implErr
        | some parent =>
          let count := count + 1
          if count > nodes.size then implErr
          else rootLoop nodes fuel count i parent

/-- lines 1264–1310 -/
def finish (st : PState) : Outcome ParseResult :=
  if !checkComposition st.previousSecondDef .none st.checkForList then syntaxErr
  else if !st.groupStack.isEmpty then syntaxErr       -- unclosed_grouping_error
  else if st.nodes.isEmpty then .ok { root := 0, nodes := st.nodes }
  else
    match st.nodes[0]? with
    | none => implErr
    | some node =>
      Outcome.bind (rootLoop st.nodes (st.nodes.size + 1) 0 0 node) fun root => .ok { root := root, nodes := st.nodes }

/-- `pub fn parse(lex_tokens: &Vec<LexerToken>) -> Result<ParseResult, CompilerError>` -/
def parse (lexTokens : List PToken) : Outcome ParseResult :=
  Outcome.bind (trimTokens lexTokens) fun trimmed =>
    if trimmed.isEmpty then .ok { root := 0, nodes := #[] }
    else
      Outcome.bind (loop PState.init trimmed) fun st => finish st

end Garnish.Model.Parser
