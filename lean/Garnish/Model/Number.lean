/-
L2 code model of `data/src/data/number.rs` (SimpleNumber and its GarnishNumber impl).

i32 is `Int` with the explicit predicate `InRange`; Rust's `overflowing_*` functions are modelled by
their documented semantics `(wrap exact, ¬InRange exact)` (Rust `std` is in the trusted base).
f64 is an abstract type `F` with the operations the code uses (`FloatOps F`); the driver instantiates
it with hardware doubles, theorems quantify over it.
-/
namespace Garnish

def I32_MIN : Int := -2147483648
def I32_MAX : Int := 2147483647

def InRange (x : Int) : Prop := -2147483648 ≤ x ∧ x ≤ 2147483647
instance (x : Int) : Decidable (InRange x) := by unfold InRange; infer_instance

/-- two's-complement wrap into i32 -/
def wrap (x : Int) : Int := (x + 2147483648) % 4294967296 - 2147483648

/-- operations on f64 consulted by the code; `F` is opaque in theorems -/
structure FloatOps (F : Type) where
  add : F → F → F
  sub : F → F → F
  mul : F → F → F
  div : F → F → F
  rem : F → F → F
  powf : F → F → F
  neg : F → F
  abs : F → F
  ofInt : Int → F            -- `f64::from(i32)` / `as f64` (exact on i32)
  one : F
  isFinite : F → Bool
  isInfinite : F → Bool
  isNaN : F → Bool
  isZero : F → Bool          -- `== 0.0` (true for +0.0 and -0.0)
  ltZero : F → Bool          -- `< 0.0`
  trunc : F → F              -- `f64::trunc`
  /-- `Some (x as i32)` when `trunc x` lies in the i32 range, else none (what C09 asks of `//`) -/
  toI32? : F → Option Int
  /-- saturating `as i32` (NaN ↦ 0) -/
  toI32Sat : F → Int
  feq : F → F → Bool         -- IEEE `==`
  flt : F → F → Bool         -- IEEE `<`
  fle : F → F → Bool         -- IEEE `<=`

inductive Number (F : Type) where
  | int (v : Int)
  | float (f : F)
deriving Repr

namespace Number
variable {F : Type} (fo : FloatOps F)

/-- `i32::overflowing_add` etc.: (wrapped, overflowed) -/
def ovf (exact : Int) : Int × Bool := (wrap exact, !decide (InRange exact))

def overflowingAdd (a b : Int) := ovf (a + b)
def overflowingSub (a b : Int) := ovf (a - b)
def overflowingMul (a b : Int) := ovf (a * b)
/-- `overflowing_div`: panics on b = 0 (the callers guard it); MIN / -1 = (MIN, true) -/
def overflowingDiv (a b : Int) := ovf (Int.tdiv a b)
/-- `overflowing_rem`: MIN % -1 = (0, true) -/
def overflowingRem (a b : Int) : Int × Bool :=
  if a = -2147483648 ∧ b = -1 then (0, true) else (Int.tmod a b, false)
def overflowingNeg (a : Int) := ovf (-a)
def overflowingAbs (a : Int) := ovf (if a < 0 then -a else a)

/-- exact `a ^ n` when representable (executable form of `overflowing_pow`'s flag) -/
def powExact (a : Int) (n : Nat) : Option Int :=
  if a = 0 then some (if n = 0 then 1 else 0)
  else if a = 1 then some 1
  else if a = -1 then some (if n % 2 = 0 then 1 else -1)
  else if 32 ≤ n then none
  else if InRange (a ^ n) then some (a ^ n) else none

/-- `do_op` -/
def doOp (intOp : Int → Int → Int × Bool) (floatOp : F → F → F) (l r : Number F) : Option (Number F) :=
  let fin (f : F) : Option (Number F) := if !fo.isFinite f then none else some (.float f)
  match l, r with
  | .int a, .int b => let (v, o) := intOp a b; if o then none else some (.int v)
  | .float a, .float b => fin (floatOp a b)
  | .int a, .float b => fin (floatOp (fo.ofInt a) b)
  | .float a, .int b => fin (floatOp a (fo.ofInt b))

/-- `rhs == Integer(0) || rhs == Float(0.0)` with the mixed `PartialEq` -/
def isZeroNum : Number F → Bool
  | .int b => b == 0
  | .float b => fo.isZero b

def plus := doOp fo overflowingAdd fo.add
def subtract := doOp fo overflowingSub fo.sub
def multiply := doOp fo overflowingMul fo.mul
def divide (l r : Number F) : Option (Number F) :=
  if isZeroNum fo r then none else doOp fo overflowingDiv fo.div l r
def remainder (l r : Number F) : Option (Number F) :=
  if isZeroNum fo r then none else doOp fo overflowingRem fo.rem l r

def power (l r : Number F) : Option (Number F) :=
  let fin (f : F) : Option (Number F) := if !fo.isFinite f then none else some (.float f)
  match l, r with
  | .int a, .int b => if b < 0 then none else (powExact a b.toNat).map .int
  | .float a, .float b => if fo.ltZero b then none else fin (fo.powf a b)
  | .int a, .float b => if fo.ltZero b then none else fin (fo.powf (fo.ofInt a) b)
  | .float a, .int b => if b < 0 then none else fin (fo.powf a (fo.ofInt b))

def integerDivide (l r : Number F) : Option (Number F) :=
  if isZeroNum fo r then none else
  let q (f : F) : Option (Number F) := some (.int (fo.toI32Sat f))   -- `as i32` saturates (finding F-C09-1)
  match l, r with
  | .int a, .int b => let (v, o) := overflowingDiv a b; if o then none else some (.int v)
  | .float a, .float b => q (fo.div a b)
  | .int a, .float b => q (fo.div (fo.ofInt a) b)
  | .float a, .int b => q (fo.div a (fo.ofInt b))

def absoluteValue : Number F → Option (Number F)
  | .int a => let (v, o) := overflowingAbs a; if o then none else some (.int v)
  | .float a => some (.float (fo.abs a))
def opposite : Number F → Option (Number F)
  | .int a => let (v, o) := overflowingNeg a; if o then none else some (.int v)
  | .float a => some (.float (fo.neg a))
def increment : Number F → Option (Number F)
  | .int a => let (v, o) := overflowingAdd a 1; if o then none else some (.int v)
  | .float a => some (.float (fo.add a fo.one))
def decrement : Number F → Option (Number F)
  | .int a => let (v, o) := overflowingSub a 1; if o then none else some (.int v)
  | .float a => some (.float (fo.sub a fo.one))

def bitwiseNot : Number F → Option (Number F)
  | .int a => some (.int (~~~ BitVec.ofInt 32 a).toInt)   -- `!v` on two's complement
  | .float _ => none
def bitwiseAnd : Number F → Number F → Option (Number F)
  | .int a, .int b => some (.int (BitVec.ofInt 32 a &&& BitVec.ofInt 32 b).toInt)
  | _, _ => none
def bitwiseOr : Number F → Number F → Option (Number F)
  | .int a, .int b => some (.int (BitVec.ofInt 32 a ||| BitVec.ofInt 32 b).toInt)
  | _, _ => none
def bitwiseXor : Number F → Number F → Option (Number F)
  | .int a, .int b => some (.int (BitVec.ofInt 32 a ^^^ BitVec.ofInt 32 b).toInt)
  | _, _ => none
/-- `v1 << v2` guarded by `0 <= v2 < 32` (fix commit); the result is the 32-bit shift -/
def bitwiseShiftLeft : Number F → Number F → Option (Number F)
  | .int a, .int b => if b < 0 ∨ 31 < b then none else some (.int (wrap (a * 2 ^ b.toNat)))
  | _, _ => none
def bitwiseShiftRight : Number F → Number F → Option (Number F)
  | .int a, .int b => if b < 0 ∨ 31 < b then none else some (.int (a >>> b.toNat))
  | _, _ => none

/-- `PartialOrd::partial_cmp` -/
def partialCmp (l r : Number F) : Option Ordering :=
  let fc (a b : F) : Option Ordering :=
    if fo.flt a b then some .lt else if fo.feq a b then some .eq else if fo.flt b a then some .gt else none
  match l, r with
  | .int a, .int b => some (compare a b)
  | .float a, .float b => fc a b
  | .int a, .float b => fc (fo.ofInt a) b
  | .float a, .int b => fc a (fo.ofInt b)

/-- `PartialEq::eq` -/
def numEq (l r : Number F) : Bool :=
  match l, r with
  | .int a, .int b => a == b
  | .float a, .float b => fo.feq a b
  | .int a, .float b => fo.feq (fo.ofInt a) b
  | .float a, .int b => fo.feq a (fo.ofInt b)

end Number

/-- the 17 GarnishNumber operations by name (protocol + theorem index) -/
inductive NumOp where
  | plus | subtract | multiply | divide | integerDivide | power | remainder
  | absoluteValue | opposite | increment | decrement
  | bitwiseNot | bitwiseAnd | bitwiseOr | bitwiseXor | bitwiseShiftLeft | bitwiseShiftRight
deriving DecidableEq, Repr

def NumOp.isUnary : NumOp → Bool
  | .absoluteValue | .opposite | .increment | .decrement | .bitwiseNot => true
  | _ => false

def Number.apply {F : Type} (fo : FloatOps F) (op : NumOp) (l r : Number F) : Option (Number F) :=
  match op with
  | .plus => plus fo l r | .subtract => subtract fo l r | .multiply => multiply fo l r
  | .divide => divide fo l r | .integerDivide => integerDivide fo l r | .power => power fo l r
  | .remainder => remainder fo l r
  | .absoluteValue => absoluteValue fo l | .opposite => opposite fo l
  | .increment => increment fo l | .decrement => decrement fo l
  | .bitwiseNot => bitwiseNot l | .bitwiseAnd => bitwiseAnd l r | .bitwiseOr => bitwiseOr l r
  | .bitwiseXor => bitwiseXor l r | .bitwiseShiftLeft => bitwiseShiftLeft l r
  | .bitwiseShiftRight => bitwiseShiftRight l r

end Garnish
