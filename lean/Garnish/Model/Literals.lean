/-
Executable model of /repo/data/src/data/parsing.rs (non-test code, lines 1–225 at commit e7eab2e) and of the `parse_*` entry
points of the two data factories (runtime.rs / basic/garnish/factory.rs: identical bodies):
a statement-by-statement transliteration of the code as it is now (after the fixes ca81cbf, 5e723e1, 4061d44,
e7eab2e: lengths in characters, `''` is empty, multi-byte characters keep all their bytes, `trim_start_matches`).

Conventions
* `&str` = `List Char`; byte lengths / byte offsets (`str::len`, slicing) are computed with `Char.utf8Size`.
* `Result<_, DataError>` = `Outcome _` with `Outcome.err .data` (messages are not modelled).
* the harness is compiled with overflow checks: every `&s[a..b]` slice that can fail is an explicit
  `Outcome.panic "<site>"` (the `usize` subtractions of the current code cannot underflow: they are guarded).
* `f64::from_str` followed by the finiteness guard (`nan` / `inf` / overflowing exponents are rejected as literals) is the
  parameter `parseFloat : List Char → Option F` (Rust `std` is in the trusted base;
  the driver instantiates it with an exact decimal → binary64 conversion, see Driver/BuildDrv.lean).
* `i32::from_str_radix` / `u32::from_str` are modelled by their documented grammar
  (`[+-]? digit+` resp. `+? digit+`, a lone sign is an error, out-of-range is an error).
-/
import Garnish.Model.Outcome
import Garnish.Model.Number
import Garnish.Model.SipHash
import Garnish.Gen.CharRanges

namespace Garnish.Model.Literals
open Garnish

def dataErr {α : Type} : Outcome α := .err .data

/-- `str::len()` : number of UTF-8 bytes -/
def byteLen (cs : List Char) : Nat := cs.foldl (fun n c => n + c.utf8Size) 0

/-! ### Rust `std` integer parsing -/

/-- `char::to_digit(radix)` for `2 ≤ radix ≤ 36` -/
def toDigit (c : Char) (radix : Nat) : Option Nat :=
  let n := c.toNat
  let d : Option Nat :=
    if 48 ≤ n ∧ n ≤ 57 then some (n - 48)
    else if 97 ≤ n ∧ n ≤ 122 then some (n - 97 + 10)
    else if 65 ≤ n ∧ n ≤ 90 then some (n - 65 + 10)
    else none
  match d with
  | some d => if d < radix then some d else none
  | none => none

/-- value of a non-empty digit string; `none` on an invalid digit or an empty string -/
def digitsValue (radix : Nat) : List Char → Option Nat
  | [] => none
  | cs => cs.foldl (fun acc c =>
      match acc, toDigit c radix with
      | some a, some d => some (a * radix + d)
      | _, _ => none) (some 0)

/-- `i32::from_str_radix(src, radix)` (`Err` = `none`) -/
def i32FromStrRadix (src : List Char) (radix : Nat) : Option Int :=
  match src with
  | [] => none
  | ['+'] => none
  | ['-'] => none
  | '+' :: rest =>
    match digitsValue radix rest with
    | some v => if (v : Int) ≤ I32_MAX then some v else none
    | none => none
  | '-' :: rest =>
    match digitsValue radix rest with
    | some v => if I32_MIN ≤ -(v : Int) then some (-(v : Int)) else none
    | none => none
  | _ =>
    match digitsValue radix src with
    | some v => if (v : Int) ≤ I32_MAX then some v else none
    | none => none

/-- `u32::from_str(src)` (`Err` = `none`): a `-` is not a sign for unsigned types -/
def u32FromStr (src : List Char) : Option Nat :=
  match src with
  | [] => none
  | ['+'] => none
  | ['-'] => none
  | '+' :: rest =>
    match digitsValue 10 rest with
    | some v => if v ≤ 4294967295 then some v else none
    | none => none
  | _ =>
    match digitsValue 10 src with
    | some v => if v ≤ 4294967295 then some v else none
    | none => none

/-- `s.trim_matches(c)` -/
def trimMatches (c : Char) (s : List Char) : List Char :=
  ((s.dropWhile (· == c)).reverse.dropWhile (· == c)).reverse

/-- `s.trim_start_matches(c)` -/
def trimStartMatches (c : Char) (s : List Char) : List Char := s.dropWhile (· == c)

/-- `input.find('_')` as a split: `none`, or `(input[0..i], input[i+1..])` -/
def splitAtUnderscore : List Char → Option (List Char × List Char)
  | [] => none
  | c :: rest =>
    if c == '_' then some ([], rest)
    else match splitAtUnderscore rest with
      | none => none
      | some (a, b) => some (c :: a, b)

/-! ### `parse_number_internal` / `parse_simple_number` (parsing.rs 167–211) -/

section
variable {F : Type} (parseFloat : List Char → Option F)

def parseNumberInternal (input : List Char) (defaultRadix : Nat) : Outcome (Number F) :=
  -- let (radix, input) = match input.find('_') { .. }
  let r : Outcome (Nat × List Char) :=
    match splitAtUnderscore input with
    | none => .ok (defaultRadix, input)
    | some (part, afterUnderscore) =>
      -- if part.starts_with("0")
      match part with
      | '0' :: _ =>
        let trimmed := trimStartMatches '0' part
        match u32FromStr trimmed with
        | none => dataErr                                   -- "Could not parse radix from .."
        | some v =>
          if v < 2 ∨ v > 36 then dataErr                    -- "Radix must be with in range [2, 36]"
          else .ok (v, afterUnderscore)                     -- &input[i + 1..]
      | _ => .ok (defaultRadix, input)
  Outcome.bind r fun (radix, input) =>
    -- let stripped = input.replace("_", "")
    let stripped := input.filter (· != '_')
    match i32FromStrRadix stripped radix with
    | some v => .ok (.int v)
    | none =>
      if radix == 10 then
        match parseFloat stripped with
        | some v => .ok (.float v)
        | none => dataErr
      else dataErr                                          -- "Decimal values only support a radix of 10"

def parseSimpleNumber (input : List Char) : Outcome (Number F) :=
  parseNumberInternal parseFloat input 10

/-! ### `parse_char_list` (parsing.rs 7–88) -/

/-- `char::from_u32(v as u32)` for an `i32` value `v` -/
def charFromI32 (v : Int) : Option Char :=
  let u : Nat := (v % 4294967296).toNat        -- `v as u32`
  if h : u.isValidChar then some (Char.ofNatAux u h) else none

/-- loop state of `parse_char_list` -/
structure CharListState where
  new : List Char              -- reversed
  checkEscape : Bool
  inUnicode : Bool
  unicodeCharacters : List Char  -- reversed
deriving Repr

/-- body of `for c in input.chars().skip(start_quote_count).take(real_len)` -/
def charListStep (startQuoteCount : Nat) (st : CharListState) (c : Char) : Outcome CharListState :=
  if st.inUnicode then
    if c == '}' then
      -- the float type of the model is irrelevant here: a float is an error
      Outcome.bind (parseNumberInternal parseFloat st.unicodeCharacters.reverse 16) fun n =>
        match n with
        | .float _ => dataErr                      -- "Float numbers are not allowed in Unicode escape."
        | .int v =>
          match charFromI32 v with
          | none => dataErr                        -- "Invalid unicode value"
          | some ch => .ok { st with new := ch :: st.new, unicodeCharacters := [], inUnicode := false }
    else
      if c != '{' then .ok { st with unicodeCharacters := c :: st.unicodeCharacters }
      else .ok st
  else if st.checkEscape then
    let push (ch : Char) : Outcome CharListState := .ok { st with new := ch :: st.new, checkEscape := false }
    if c == 'n' then push '\n'
    else if c == 't' then push '\t'
    else if c == 'r' then push '\r'
    else if c == '0' then push (Char.ofNat 0)
    else if c == '\\' then push '\\'
    else if c == '"' then push '"'
    else if c == 'u' then .ok { st with inUnicode := true, checkEscape := false }
    else dataErr                                   -- "Invalid escape character"
  else
    if c == '\\' then .ok { st with checkEscape := true }
    else if (c == '\n' || c == '\t') && startQuoteCount ≤ 1 then .ok st     -- skip
    else .ok { st with new := c :: st.new }

def charListLoop (startQuoteCount : Nat) : CharListState → List Char → Outcome CharListState
  | st, [] => .ok st
  | st, c :: rest => Outcome.bind (charListStep parseFloat startQuoteCount st c) fun st => charListLoop startQuoteCount st rest

def parseCharList (input : List Char) : Outcome (List Char) :=
  if byteLen input == 0 then .ok []
  else
    let startQuoteCount := (input.takeWhile (· == '"')).length
    -- lengths are in characters: let char_count = input.chars().count();
    let charCount := input.length
    if startQuoteCount * 2 ≥ charCount then .ok []
    else
      let realLen := charCount - startQuoteCount * 2
      Outcome.bind (charListLoop parseFloat startQuoteCount ⟨[], false, false, []⟩ ((input.drop startQuoteCount).take realLen))
        fun st => .ok st.new.reverse

/-! ### `parse_byte_list` / `parse_byte_list_numbers` (parsing.rs 90–164) -/

/-- character index of the byte offset `off`, `none` when `off` is not a char boundary (or past the end).
    `pos` = byte offset of the head of the list, `i` = its character index -/
def charIndexOfByte : List Char → (pos i off : Nat) → Option Nat
  | cs, pos, i, off =>
    if pos == off then some i
    else match cs with
      | [] => none
      | c :: rest => if pos > off then none else charIndexOfByte rest (pos + c.utf8Size) (i + 1) off

/-- `&input[a..b]` on byte offsets: `none` (= panic) unless `a ≤ b ≤ len` and both are char boundaries -/
def sliceBytes (input : List Char) (a b : Nat) : Option (List Char) :=
  if a > b then none
  else match charIndexOfByte input 0 0 a, charIndexOfByte input 0 0 b with
    | some i, some j => some ((input.drop i).take (j - i))
    | _, _ => none

/-- loop state of `parse_byte_list_numbers` -/
structure ByteNumState where
  currentNumber : List Char   -- reversed
  numbers : List Nat          -- reversed
deriving Repr

def byteNumStep (st : ByteNumState) (c : Char) : Outcome ByteNumState :=
  if Garnish.Gen.CharRanges.isAlphanumeric c || c == '_' then
    .ok { st with currentNumber := c :: st.currentNumber }
  else if c == ' ' && st.currentNumber.length > 0 then       -- `current_number.len() > 0` (bytes; same truth value)
    Outcome.bind (parseSimpleNumber parseFloat st.currentNumber.reverse) fun n =>
      match n with
      | .float _ => dataErr                        -- "Float numbers are not allowed in ByteLists."
      | .int v =>
        if v < 0 ∨ v > 255 then dataErr            -- "Number to large for byte value"
        else .ok { numbers := v.toNat :: st.numbers, currentNumber := [] }
  else dataErr                                     -- "Invalid character in byte number"

def byteNumLoop : ByteNumState → List Char → Outcome ByteNumState
  | st, [] => .ok st
  | st, c :: rest => Outcome.bind (byteNumStep parseFloat st c) fun st => byteNumLoop st rest

def parseByteListNumbers (input : List Char) : Outcome (List Nat) :=
  -- for c in input.chars().chain(iter::once(' '))
  Outcome.bind (byteNumLoop parseFloat ⟨[], []⟩ (input ++ [' '])) fun st => .ok st.numbers.reverse

/-- `c.encode_utf8(&mut buffer).as_bytes()` -/
def utf8BytesOf (c : Char) : List Nat := (Garnish.Model.SipHash.utf8Bytes [c]).map UInt8.toNat

/-- the escape loop of `parse_byte_list` (state: reversed bytes, check_escape) -/
def byteListLoop : List Nat → Bool → List Char → Outcome (List Nat)
  | bytes, _, [] => .ok bytes.reverse
  | bytes, true, c :: rest =>
    if c == 'n' then byteListLoop (10 :: bytes) false rest
    else if c == 't' then byteListLoop (9 :: bytes) false rest
    else if c == 'r' then byteListLoop (13 :: bytes) false rest
    else if c == '0' then byteListLoop (0 :: bytes) false rest
    else if c == '\\' then byteListLoop (92 :: bytes) false rest
    else if c == '\'' then byteListLoop (39 :: bytes) false rest
    else dataErr                                   -- "Invalid escape character"
  | bytes, false, c :: rest =>
    if c == '\\' then byteListLoop bytes true rest
    else byteListLoop ((utf8BytesOf c).reverse ++ bytes) false rest      -- bytes.extend_from_slice(c.encode_utf8(..))

def parseByteList (input : List Char) : Outcome (List Nat) :=
  let startQuoteCount := (input.takeWhile (· == '\'')).length
  -- lengths are in characters; a literal made only of quotes (`''`) is the empty byte list
  let charCount := input.length
  if startQuoteCount * 2 ≥ charCount then .ok []
  else
    let realLen := charCount - startQuoteCount * 2
    if startQuoteCount ≥ 2 then
      -- &input[start_quote_count..(input.len() - start_quote_count)]     (byte offsets: `input.len()` is a byte length;
      -- no underflow since 2·quotes < chars ≤ bytes, but the end offset can fall inside a multi-byte character)
      match sliceBytes input startQuoteCount (byteLen input - startQuoteCount) with
      | none => .panic "parsing.rs:116 byte index is not a char boundary"
      | some inner => parseByteListNumbers parseFloat inner
    else
      byteListLoop [] false ((input.drop startQuoteCount).take realLen)

end

/-! ### factory `parse_symbol` -/

/-- `DataFactory::parse_symbol(from)`: `symbol_value(from.trim_matches(':'))` (as a `Nat` below 2^64) -/
def parseSymbol (src : List Char) : Nat :=
  (Garnish.Model.SipHash.symbolValue (trimMatches ':' src)).toNat

/-- `&text[1..]` : panics when the text is empty or its first character is longer than one byte -/
def dropFirstByte (text : List Char) : Option (List Char) :=
  match text with
  | [] => none
  | c :: rest => if c.utf8Size == 1 then some rest else none

end Garnish.Model.Literals
