/-
L2 code model of the index / extent arithmetic of `BasicGarnishData` (property C07): every place where
the accessors and iterator constructors of data/src/basic/garnish/garnish_impl.rs, the bounds-checked
getter of data/src/basic/internal.rs, `extents_to_start_end` (garnish/utils.rs) and the slicing
conversions (garnish/conversions/{bytes,number,string}.rs) compute an index, cast a number to `usize`,
slice the heap `Vec` by a computed range, or `unwrap` — transliterated statement by statement, with
every Rust panic condition as an explicit `Outcome.panic`:

  * `usize` is `Nat`; `a + b` on `usize` is `uadd` (overflow panics, as in the debug / overflow-checks
    profile the harness is built with), `a - b` is `usub`;
  * `&self.data()[i]` is `Heap.raw` (out of bounds panics), `&self.data()[a..b]` is `Heap.rawSlice`
    (`a > b` panics, `b > len` panics);
  * `.unwrap()` on `as_char()` / `as_byte()` is `unwrapChars` / `unwrapBytes`;
  * `usize::from(SimpleNumber)` (data/src/data/number.rs: `v.max(0) as usize`, `v.max(0.0) as usize`)
    is `usizeFrom`.

The heap is the whole allocation `self.data` (all six blocks) with the data block's `start` and
`cursor`; data addresses are block-relative, exactly as in the code, so the places where the code
forgets the block base (conversions/bytes.rs) read what the code reads.
Cells are `BasicOpt.Cell` (Store/BasicCells.lean).  Chars, bytes, symbols are `Nat`; the payload of a
`Number` cell is opaque here.
-/
import Garnish.Model.Outcome
import Garnish.Model.Number
import Garnish.Store.BasicCells
namespace Garnish.Access
open Garnish
open Garnish.BasicOpt (Cell)

/-! ### usize arithmetic -/

def USIZE_MAX : Nat := 18446744073709551615

/-- `a + b` on `usize` (overflow-checks on: overflow panics) -/
def uadd (a b : Nat) : Outcome Nat :=
  if a + b ≤ USIZE_MAX then .ok (a + b) else .panic "usize: attempt to add with overflow"

/-- `a - b` on `usize` -/
def usub (a b : Nat) : Outcome Nat :=
  if b ≤ a then .ok (a - b) else .panic "usize: attempt to subtract with overflow"

/-! ### numbers as the accessors see them -/

/-- a `SimpleNumber` handed to an accessor.  `Float(f)` is represented by the two things the accessors
compute from it: `f < 0.0` and `f.max(0.0) as usize` (saturating float-to-int cast, NaN ↦ 0). -/
inductive Num where
  | int (v : Int)
  | float (neg : Bool) (sat : Nat)
deriving DecidableEq, Repr, Inhabited

/-- the number is a value of its Rust type: an `i32`, resp. a cast result that is a `usize` -/
def Num.Valid : Num → Prop
  | .int v => InRange v
  | .float _ sat => sat ≤ USIZE_MAX
instance (n : Num) : Decidable n.Valid := by cases n <;> (unfold Num.Valid; infer_instance)

/-- `impl From<SimpleNumber> for usize`: `Integer(v) => v.max(0) as usize`, `Float(v) => v.max(0.0) as usize` -/
def usizeFrom : Num → Nat
  | .int v => (max v 0).toNat
  | .float _ sat => sat

/-- `item_index < Self::Number::zero()` (`partial_cmp` against `Integer(0)`; NaN is not less) -/
def Num.ltZero : Num → Bool
  | .int v => decide (v < 0)
  | .float neg _ => neg

/-- `BasicNumber::max_value()` = `Float(f64::MAX)`: not negative, saturates to `usize::MAX` -/
def Num.maxValue : Num := .float false USIZE_MAX

/-! ### the heap -/

/-- `BasicGarnishData` as far as the accessors read it -/
structure Heap where
  /-- `self.data`: the whole allocation -/
  heap : Array Cell
  /-- `self.data_block().start` -/
  dstart : Nat
  /-- `self.data_block().cursor` -/
  cursor : Nat
deriving Repr, Inhabited

/-- `&self.data()[i]` -/
def Heap.raw (h : Heap) (i : Nat) (site : String) : Outcome Cell :=
  match h.heap[i]? with
  | some c => .ok c
  | none => .panic (site ++ ": index out of bounds")

/-- `&self.data()[a..b]` -/
def Heap.rawSlice (h : Heap) (a b : Nat) (site : String) : Outcome (List Cell) :=
  if a > b then .panic (site ++ ": slice index starts after its end")
  else if b > h.heap.size then .panic (site ++ ": range end index out of range")
  else .ok (h.heap.extract a b).toList

/-- `get_from_data_block_ensure_index` (internal.rs) -/
def Heap.getData (h : Heap) (i : Nat) : Outcome Cell :=
  if i ≥ h.cursor then .err .data
  else (uadd h.dstart i).bind fun t => h.raw t "internal.rs:get_from_data_block_ensure_index"

/-! ### `as_*` projections of `BasicData` (data/src/basic/data.rs): `Err` on any other variant -/

def asList : Cell → Outcome (Nat × Nat) | .list n k => .ok (n, k) | _ => .err .data
def asCharList : Cell → Outcome Nat | .charList n => .ok n | _ => .err .data
def asByteList : Cell → Outcome Nat | .byteList n => .ok n | _ => .err .data
def asSymbolList : Cell → Outcome Nat | .symbolList n => .ok n | _ => .err .data
def asListItem : Cell → Outcome Nat | .listItem a => .ok a | _ => .err .data
def asChar : Cell → Outcome Nat | .char c => .ok c | _ => .err .data
def asByte : Cell → Outcome Nat | .byte b => .ok b | _ => .err .data
def asConcatenation : Cell → Outcome (Nat × Nat) | .concatenation l r => .ok (l, r) | _ => .err .data

/-- `SymbolListPart` (the payload of a number part is the opaque cell payload) -/
inductive Part where
  | sym (s : Nat)
  | num (n : Nat)
deriving DecidableEq, Repr, Inhabited

/-- the `match` on a symbol-list cell in `get_symbol_list_item` / `get_symbol_list_iter` -/
def asPart : Cell → Outcome Part
  | .symbol s => .ok (.sym s)
  | .number n => .ok (.num n)
  | _ => .err .data

/-! ### length getters -/

def getListLen (h : Heap) (a : Nat) : Outcome Nat := (h.getData a).bind fun c => (asList c).bind fun p => .ok p.1
def getCharListLen (h : Heap) (a : Nat) : Outcome Nat := (h.getData a).bind asCharList
def getByteListLen (h : Heap) (a : Nat) : Outcome Nat := (h.getData a).bind asByteList
def getSymbolListLen (h : Heap) (a : Nat) : Outcome Nat := (h.getData a).bind asSymbolList

/-! ### item accessors -/

/-- `list_addr + 1 + index` -/
def itemAddr (la index : Nat) : Outcome Nat := (uadd la 1).bind fun a => uadd a index

/-- `get_list_item`: a negative index is no item, `index >= len` is `Err(InvalidListItemIndex)` -/
def getListItem (h : Heap) (la : Nat) (ix : Num) : Outcome (Option Nat) :=
  (h.getData la).bind fun c => (asList c).bind fun p =>
  if ix.ltZero then .ok none else
  let index := usizeFrom ix
  if index ≥ p.1 then .err .data else
  (itemAddr la index).bind fun a => (h.getData a).bind fun c => (asListItem c).bind fun item => .ok (some item)

/-- `get_char_list_item`: `index >= len` (a negative index is cast to 0 first) is `Ok(None)` -/
def getCharListItem (h : Heap) (la : Nat) (ix : Num) : Outcome (Option Nat) :=
  (h.getData la).bind fun c => (asCharList c).bind fun len =>
  let index := usizeFrom ix
  if index ≥ len then .ok none else
  (itemAddr la index).bind fun a => (h.getData a).bind fun c => (asChar c).bind fun ch => .ok (some ch)

/-- `get_byte_list_item` -/
def getByteListItem (h : Heap) (la : Nat) (ix : Num) : Outcome (Option Nat) :=
  (h.getData la).bind fun c => (asByteList c).bind fun len =>
  let index := usizeFrom ix
  if index ≥ len then .ok none else
  (itemAddr la index).bind fun a => (h.getData a).bind fun c => (asByte c).bind fun b => .ok (some b)

/-- `get_symbol_list_item` -/
def getSymbolListItem (h : Heap) (la : Nat) (ix : Num) : Outcome (Option Part) :=
  (h.getData la).bind fun c => (asSymbolList c).bind fun len =>
  let index := usizeFrom ix
  if index ≥ len then .ok none else
  (itemAddr la index).bind fun a => (h.getData a).bind fun c => (asPart c).bind fun p => .ok (some p)

/-! ### iterator constructors -/

/-- `extents_to_start_end(extents, base, len)` (garnish/utils.rs):
`start = base + 1 + usize::from(start).min(len)`, `end = base + 1 + usize::from(end).min(len)`, `(start, end.max(start))` -/
def extentsToStartEnd (s e : Num) (base len : Nat) : Outcome (Nat × Nat) :=
  (uadd base 1).bind fun b1 =>
  (uadd b1 (min (usizeFrom s) len)).bind fun start =>
  (uadd b1 (min (usizeFrom e) len)).bind fun end_ =>
  .ok (start, max end_ start)

/-- the four per-cell loops of the iterator constructors: project every cell, stop with `bad` at the first cell
that is not of the expected variant -/
def collectWith {β : Type} (proj : Cell → Option β) (bad : Outcome (List β)) : List Cell → Outcome (List β)
  | [] => .ok []
  | c :: rest =>
    match proj c with
    | some b => (collectWith proj bad rest).bind fun bs => .ok (b :: bs)
    | none => bad

def charOf : Cell → Option Nat | .char c => some c | _ => none
def byteOf : Cell → Option Nat | .byte b => some b | _ => none
def partOf : Cell → Option Part | .symbol s => some (.sym s) | .number n => some (.num n) | _ => none
def itemOf : Cell → Option Nat | .listItem a => some a | _ => none

/-- `.map(|c| c.as_char().unwrap())`: a cell that is not a `Char` panics -/
def unwrapChars : List Cell → Outcome (List Nat) :=
  collectWith charOf (.panic "garnish_impl.rs:get_char_list_iter: as_char().unwrap() on a cell that is not a Char")

/-- `.map(|c| c.as_byte().unwrap())` -/
def unwrapBytes : List Cell → Outcome (List Nat) :=
  collectWith byteOf (.panic "garnish_impl.rs:get_byte_list_iter: as_byte().unwrap() on a cell that is not a Byte")

/-- `.map(|c| match c { Symbol | Number => Ok(part), d => Err(NotASymbolListPart) }).collect::<Result<Vec<_>, _>>()?` -/
def collectParts : List Cell → Outcome (List Part) := collectWith partOf (.err .data)

/-- the `for item in slice.iter()` of `get_list_item_iter`: every cell must be a `ListItem`, else `Err(NotAListItem)` -/
def collectItems : List Cell → Outcome (List Nat) := collectWith itemOf (.err .data)

/-- `get_char_list_iter` -/
def getCharListIter (h : Heap) (li : Nat) (s e : Num) : Outcome (List Nat) :=
  (h.getData li).bind fun c => (asCharList c).bind fun len =>
  (uadd h.dstart li).bind fun base =>
  (extentsToStartEnd s e base len).bind fun se =>
  (h.rawSlice se.1 se.2 "garnish_impl.rs:get_char_list_iter").bind unwrapChars

/-- `get_byte_list_iter` -/
def getByteListIter (h : Heap) (li : Nat) (s e : Num) : Outcome (List Nat) :=
  (h.getData li).bind fun c => (asByteList c).bind fun len =>
  (uadd h.dstart li).bind fun base =>
  (extentsToStartEnd s e base len).bind fun se =>
  (h.rawSlice se.1 se.2 "garnish_impl.rs:get_byte_list_iter").bind unwrapBytes

/-- `get_symbol_list_iter` (computes its own start / end, same arithmetic as `extents_to_start_end`) -/
def getSymbolListIter (h : Heap) (li : Nat) (s e : Num) : Outcome (List Part) :=
  (h.getData li).bind fun c => (asSymbolList c).bind fun len =>
  (uadd h.dstart li).bind fun base =>
  (uadd base 1).bind fun b1 =>
  (uadd b1 (min (usizeFrom s) len)).bind fun start =>
  (uadd b1 (min (usizeFrom e) len)).bind fun end0 =>
  (h.rawSlice start (max end0 start) "garnish_impl.rs:get_symbol_list_iter").bind collectParts

/-- `get_list_item_iter` -/
def getListItemIter (h : Heap) (li : Nat) (s e : Num) : Outcome (List Nat) :=
  (h.getData li).bind fun c => (asList c).bind fun p =>
  (uadd h.dstart li).bind fun base =>
  (extentsToStartEnd s e base p.1).bind fun se =>
  (h.rawSlice se.1 se.2 "garnish_impl.rs:get_list_item_iter").bind collectItems

/-- `items[start..end].to_vec()` on a `Vec` -/
def vecSlice {α} (items : List α) (a b : Nat) (site : String) : Outcome (List α) :=
  if a > b then .panic (site ++ ": slice index starts after its end")
  else if b > items.length then .panic (site ++ ": range end index out of range")
  else .ok ((items.drop a).take (b - a))

/-- `get_concatenation_iter`, the `while let Some(index) = stack.pop()` (head = top of the stack, `acc` = items
reversed).  The loop has no bound of its own: explicit fuel, `fuelOut` when it runs out. -/
def concatLoop (h : Heap) : Nat → List Nat → List Nat → Outcome (List Nat)
  | _, [], acc => .ok acc.reverse
  | 0, _ :: _, _ => .fuelOut
  | fuel + 1, index :: stack, acc =>
    (h.getData index).bind fun c =>
    match c with
    | .concatenation l r => concatLoop h fuel (l :: r :: stack) acc
    | .list _ _ =>
      (getListItemIter h index (.int 0) Num.maxValue).bind fun items => concatLoop h fuel stack (items.reverse ++ acc)
    | _ => concatLoop h fuel stack (index :: acc)

/-- `get_concatenation_iter` -/
def getConcatenationIter (h : Heap) (fuel : Nat) (index : Nat) (s e : Num) : Outcome (List Nat) :=
  (h.getData index).bind fun c => (asConcatenation c).bind fun _ =>
  (concatLoop h fuel [index] []).bind fun items =>
  let len := items.length
  let start := min (usizeFrom s) len
  let end_ := max (min (usizeFrom e) len) start
  vecSlice items start end_ "garnish_impl.rs:get_concatenation_iter"

/-- `get_list_item_with_symbol`, the slice handed to the binary search:
`association_start = data_block().start + list_index + len + 1`, `&self.data()[association_start..association_start + associations_len]` -/
def getAssociationSlice (h : Heap) (li : Nat) : Outcome (List Cell) :=
  (h.getData li).bind fun c => (asList c).bind fun p =>
  (uadd h.dstart li).bind fun a => (uadd a p.1).bind fun a => (uadd a 1).bind fun start =>
  (uadd start p.2).bind fun end_ =>
  h.rawSlice start end_ "garnish_impl.rs:get_list_item_with_symbol"

/-! ### conversions that slice by a computed range -/

/-- conversions/bytes.rs `convert_basic_data_at_to_bytes`, the `ByteList` / `CharList` / `SymbolList` arms:
`start = from + 1; end = start + length; self.data()[start..end]` — the block base is NOT added (the code
reads the heap cells at the block-relative address; recorded in DESIGN 11.7), the range arithmetic is
modelled as it is -/
def convertBytesSlice (h : Heap) (from_ : Nat) : Outcome (List Cell) :=
  (h.getData from_).bind fun c =>
  match c with
  | .byteList n | .charList n | .symbolList n =>
    (uadd from_ 1).bind fun start => (uadd start n).bind fun end_ => h.rawSlice start end_ "conversions/bytes.rs"
  | _ => .ok []

/-- conversions/bytes.rs `List` arm and conversions/number.rs `CharList` / `ByteList` arms, string.rs `CharList`:
`for i in from + 1 .. from + 1 + length { get_from_data_block_ensure_index(i)? … }` — the cells read -/
def inlineCellsAt (h : Heap) (from_ : Nat) : Nat → Outcome (List Cell)
  | 0 => .ok []
  | n + 1 => (inlineCellsAt h from_ n).bind fun cs =>
    (uadd from_ 1).bind fun start => (uadd start n).bind fun i => (h.getData i).bind fun c => .ok (cs ++ [c])

/-- conversions/number.rs, `ByteList` arm: `if bytes.len() > 4 { return Ok(None) }`, then
`conversion_bytes[i] = *byte` into `[0; 4]` for every `(i, byte)` (an index ≥ 4 would panic), `i32::from_le_bytes` -/
def leBytesFill : List Nat → Nat → Array Nat → Outcome (Array Nat)
  | [], _, arr => .ok arr
  | b :: rest, i, arr =>
    if h : i < arr.size then leBytesFill rest (i + 1) (arr.set i b h)
    else .panic "conversions/number.rs: conversion_bytes[i]"

def bytesToI32 (bytes : List Nat) : Outcome (Option (Array Nat)) :=
  if bytes.length > 4 then .ok none
  else (leBytesFill bytes 0 #[0, 0, 0, 0]).bind fun a => .ok (some a)

/-- conversions/string.rs, `SymbolList` / `ByteList` / `List` arms: `end = from + 1 + length`, the separator test
`if i < end - 1` inside `for i in from + 1 .. end` -/
def separatorAfter (from_ length i : Nat) : Outcome Bool :=
  (uadd from_ 1).bind fun a => (uadd a length).bind fun end_ => (usub end_ 1).bind fun last => .ok (decide (i < last))

end Garnish.Access
