/-
BasicGarnishData's storage layer (data/src/basic/{storage,internal,basic}.rs), as it is written.

One `Vec<BasicData>` holds six blocks in this order: instructions, jump table, symbol table, expression symbols,
data, custom. A push into a full block grows that block by ONE step of its policy (`next_size`), copies every
block into a fresh vector (`reallocate_heap`) and then writes `heap[start + cursor]` without a bounds or
size check (`push_to_block`). Unchecked indexing is modelled by `Outcome.panic`.
-/
import Garnish.Model.Outcome
namespace Garnish.Store
open Garnish

/-- the heap cells the HEAP suite produces (payloads are what the suite puts there); `empty` = `BasicData::Empty` -/
inductive Cell where
  | empty
  | instr (k : Nat)                 -- InstructionWithData(Put, k)
  | jump (k : Nat)                  -- JumpPoint(k)
  | assoc (sym val : Nat)           -- AssociativeItem(sym, val)
  | num (k : Nat)                   -- Number(Integer k)
  | custom (k : Nat)                -- Custom(k)
  | register (prev v : Nat) | registerRoot (v : Nat)
  | value (prev v : Nat) | valueRoot (v : Nat)
  | frame (prev reg : Nat) | frameIndex (prev : Nat) | frameRegister (reg : Nat) | frameRoot
  | charList (n : Nat) | char (cp : Nat)
deriving DecidableEq, Repr, Inhabited

/-- `ReallocationStrategy` -/
inductive Policy where
  | fixed (n : Nat)
  | mult (n : Nat)
deriving DecidableEq, Repr, Inhabited

/-- `StorageBlock` (+ the two `StorageSettings` fields that are read after construction);
`maxItems = none` stands for `usize::MAX` -/
structure Block where
  start : Nat
  cursor : Nat
  size : Nat
  policy : Policy
  maxItems : Option Nat := none
deriving DecidableEq, Repr, Inhabited

/-- `StorageBlock::next_size` -/
def Block.nextSize (b : Block) : Nat :=
  match b.policy with
  | .fixed n => b.size + n
  | .mult n => b.size * n

/-- heap order of the blocks -/
abbrev nBlocks : Nat := 6
abbrev bInstr : Fin 6 := 0
abbrev bJump : Fin 6 := 1
abbrev bSym : Fin 6 := 2
abbrev bExpr : Fin 6 := 3
abbrev bData : Fin 6 := 4
abbrev bCustom : Fin 6 := 5

structure Heap where
  cells : Array Cell
  /-- the six blocks in heap order (`init` creates six, every operation keeps six) -/
  blocks : List Block
deriving Repr

/-- `for i in 0..n { new[dst + i] = old[src + i].clone() }`, both indexings unchecked -/
def copyLoop (old : Array Cell) (src dst : Nat) : (n i : Nat) → Array Cell → Outcome (Array Cell)
  | 0, _, new => .ok new
  | n + 1, i, new =>
    if h1 : src + i < old.size then
      if h2 : dst + i < new.size then copyLoop old src dst n (i + 1) (new.set (dst + i) old[src + i])
      else .panic "internal.rs:reallocate_heap(new_heap)"
    else .panic "internal.rs:reallocate_heap(old_heap)"

/-- the six copy stanzas of `reallocate_heap`: copy `cursor` cells of the block to `cur`, then set its
`start` and `size` and advance `cur` by the NEW size -/
def reallocBlocks (old : Array Cell) : List (Block × Nat) → Nat → Array Cell → Outcome (List Block × Array Cell)
  | [], _, new => .ok ([], new)
  | (b, z) :: rest, cur, new =>
    match copyLoop old b.start cur b.cursor 0 new with
    | .ok new1 =>
      match reallocBlocks old rest (cur + z) new1 with
      | .ok (bs, new2) => .ok ({ b with start := cur, size := z } :: bs, new2)
      | .err e => .err e
      | .panic s => .panic s
      | .fuelOut => .fuelOut
    | .err e => .err e
    | .panic s => .panic s
    | .fuelOut => .fuelOut

/-- the `max_items` checks at the top of `reallocate_heap` -/
def exceedsMax : List (Block × Nat) → Bool
  | [] => false
  | (b, z) :: rest =>
    (match b.maxItems with
     | some m => decide (z > m)
     | none => false) || exceedsMax rest

def sumSizes : List Nat → Nat
  | [] => 0
  | z :: zs => z + sumSizes zs

/-- `reallocate_heap(new sizes)` -/
def reallocate (h : Heap) (newSizes : List Nat) : Outcome Heap :=
  let bz := h.blocks.zip newSizes
  if exceedsMax bz then .err .data
  else
    match reallocBlocks h.cells bz 0 (Array.replicate (sumSizes newSizes) Cell.empty) with
    | .ok (bs, new) => .ok { cells := new, blocks := bs }
    | .err e => .err e
    | .panic s => .panic s
    | .fuelOut => .fuelOut

/-- the sizes handed to `reallocate_heap` by `push_to_*_block`: every block keeps its size, block `k` gets `next_size` -/
def grownSizes : List Block → Nat → List Nat
  | [], _ => []
  | b :: bs, 0 => b.nextSize :: bs.map (·.size)
  | b :: bs, k + 1 => b.size :: grownSizes bs k

/-- `push_to_*_block` followed by `push_to_block`: ONE growth step when `cursor >= size`, then the unchecked write.
Returns the new heap and the index handed back to the caller. -/
def pushToBlockN (h : Heap) (k : Nat) (c : Cell) : Outcome (Heap × Nat) :=
  match h.blocks[k]? with
  | none => .panic "no such block"
  | some b =>
    let grown : Outcome Heap :=
      if b.cursor ≥ b.size then reallocate h (grownSizes h.blocks k) else .ok h
    match grown with
    | .ok h1 =>
      match h1.blocks[k]? with
      | none => .panic "no such block"
      | some b1 =>
        if hlt : b1.start + b1.cursor < h1.cells.size then
          .ok ({ cells := h1.cells.set (b1.start + b1.cursor) c,
                 blocks := h1.blocks.set k { b1 with cursor := b1.cursor + 1 } }, b1.cursor)
        else .panic "internal.rs:push_to_block"
    | .err e => .err e
    | .panic s => .panic s
    | .fuelOut => .fuelOut

def pushToBlock (h : Heap) (which : Fin 6) (c : Cell) : Outcome (Heap × Nat) := pushToBlockN h which.val c

/-- the comparator of the `sort_by` calls in `push_to_symbol_table_block` / `push_to_expression_symbol_block`:
`lt a b` iff it answers `Less` -/
def Cell.lt : Cell → Cell → Bool
  | .assoc s1 _, .assoc s2 _ => decide (s1 < s2)
  | .assoc _ _, _ => true
  | _, _ => false

/-- stable insertion: after every element that is not greater -/
def insertStable (x : Cell) : List Cell → List Cell
  | [] => [x]
  | y :: ys => if x.lt y then x :: y :: ys else y :: insertStable x ys

/-- a stable sort (the result of any stable sort is determined by the comparator, which is a weak order) -/
def sortStable (l : List Cell) : List Cell := l.foldl (fun acc x => insertStable x acc) []

/-- `self.data[start..start + cursor].sort_by(..)` of block `k` -/
def sortBlockN (h : Heap) (k : Nat) : Outcome Heap :=
  match h.blocks[k]? with
  | none => .panic "no such block"
  | some b =>
    if b.start + b.cursor ≤ h.cells.size then
      let l := h.cells.toList
      .ok { h with cells := (l.take b.start ++ sortStable ((l.drop b.start).take b.cursor) ++ l.drop (b.start + b.cursor)).toArray }
    else .panic "basic.rs:sort_range"

/-- `push_to_symbol_table_block` / `push_to_expression_symbol_block`: push, then sort the block -/
def pushSortedN (h : Heap) (k : Nat) (c : Cell) : Outcome Heap :=
  match pushToBlockN h k c with
  | .ok (h1, _) => sortBlockN h1 k
  | .err e => .err e
  | .panic s => .panic s
  | .fuelOut => .fuelOut

/-- `get_from_*_block_ensure_index`: the index check against `cursor`, then the unchecked `heap[start + index]` -/
def getN (h : Heap) (k : Nat) (index : Nat) : Outcome Cell :=
  match h.blocks[k]? with
  | none => .panic "no such block"
  | some b =>
    if index ≥ b.cursor then .err .data
    else if hlt : b.start + index < h.cells.size then .ok h.cells[b.start + index]
    else .panic "internal.rs:get_from_block_ensure_index"

def get (h : Heap) (which : Fin 6) (index : Nat) : Outcome Cell := getN h which.val index

/-- `new_with_settings`: six blocks of the initial sizes, then `reallocate_heap(initial sizes)` -/
def init (sizes : List Nat) (policies : List Policy) (maxes : List (Option Nat)) : Outcome Heap :=
  let blocks := (sizes.zip (policies.zip maxes)).map
    (fun (z, p, m) => ({ start := 0, cursor := 0, size := z, policy := p, maxItems := m } : Block))
  reallocate { cells := #[], blocks := blocks } sizes

/-! ### one operation of a history -/

/-- a push into one of the six tables; the symbol tables (2, 3) are kept sorted -/
structure Op where
  which : Nat
  cell : Cell
deriving DecidableEq, Repr

def sortedTable (k : Nat) : Bool := k == 2 || k == 3

def step (h : Heap) (op : Op) : Outcome Heap :=
  if sortedTable op.which then pushSortedN h op.which op.cell
  else
    match pushToBlockN h op.which op.cell with
    | .ok (h1, _) => .ok h1
    | .err e => .err e
    | .panic s => .panic s
    | .fuelOut => .fuelOut

def run : List Op → Heap → Outcome Heap
  | [], h => .ok h
  | op :: ops, h =>
    match step h op with
    | .ok h1 => run ops h1
    | .err e => .err e
    | .panic s => .panic s
    | .fuelOut => .fuelOut

/-- the contents of block `b`: `[start, start + cursor)` -/
def blockCells (cells : Array Cell) (b : Block) : List Cell := (cells.toList.drop b.start).take b.cursor

/-- what the heap holds, table by table -/
def abs (h : Heap) : List (List Cell) := h.blocks.map (blockCells h.cells)

/-! ### the linked stacks kept in the data block (garnish_impl.rs) -/

structure MStore where
  heap : Heap
  curReg : Option Nat := none
  curVal : Option Nat := none
  curFrame : Option Nat := none

/-- operations of the HEAP suite; `k` is the payload -/
inductive MOp where
  | instr (k : Nat) | jump (k : Nat) | sym (s k : Nat) | expr (s k : Nat) | data (k : Nat) | custom (k : Nat)
  | pushRegister (k : Nat) | pushValue (k : Nat) | pushFrame (k : Nat) | text (n k : Nat)
deriving Repr

def textChar (k i : Nat) : Nat := 97 + (k + i) % 26

/-- the cells an operation pushes, in order, given the heads it reads (`push_frame` reads the heads AFTER its first push,
which does not change them) -/
def MOp.lower (m : MStore) : MOp → List Op
  | .instr k => [⟨0, .instr k⟩]
  | .jump k => [⟨1, .jump k⟩]
  | .sym s k => [⟨2, .assoc s k⟩]
  | .expr s k => [⟨3, .assoc s k⟩]
  | .data k => [⟨4, .num k⟩]
  | .custom k => [⟨5, .custom k⟩]
  | .pushRegister k => [⟨4, match m.curReg with | some p => .register p k | none => .registerRoot k⟩]
  | .pushValue k => [⟨4, match m.curVal with | some p => .value p k | none => .valueRoot k⟩]
  | .pushFrame k =>
    [⟨4, .jump k⟩,
     ⟨4, match m.curFrame, m.curReg with
         | some f, some r => .frame f r
         | some f, none => .frameIndex f
         | none, some r => .frameRegister r
         | none, none => .frameRoot⟩]
  | .text n k => ⟨4, .charList n⟩ :: (List.range n).map (fun i => ⟨4, .char (textChar k i)⟩)

/-- index of the last cell an operation pushed into the data block (= `cursor - 1` afterwards) -/
def lastDataIndex (h : Heap) : Nat :=
  match h.blocks[4]? with
  | some b => b.cursor - 1
  | none => 0

def mstep (m : MStore) (op : MOp) : Outcome MStore :=
  match run (op.lower m) m.heap with
  | .ok h1 =>
    match op with
    | .pushRegister _ => .ok { m with heap := h1, curReg := some (lastDataIndex h1) }
    | .pushValue _ => .ok { m with heap := h1, curVal := some (lastDataIndex h1) }
    | .pushFrame _ => .ok { m with heap := h1, curFrame := some (lastDataIndex h1) }
    | _ => .ok { m with heap := h1 }
  | .err e => .err e
  | .panic s => .panic s
  | .fuelOut => .fuelOut

def mrun : List MOp → MStore → Outcome MStore
  | [], m => .ok m
  | op :: ops, m =>
    match mstep m op with
    | .ok m1 => mrun ops m1
    | .err e => .err e
    | .panic s => .panic s
    | .fuelOut => .fuelOut

end Garnish.Store
